"""C08 — I/O-system simulation, linearisation, operating points, operators: correspondence
between control/nlsys.py and the Lean model `CtrlVerif.Model.{IOSys,IOSysDyn}` (driver family
`io`).  The maps executed by the driver are the typed definitions the theorems of
Props/C08.lean are about."""
import json
import re
from fractions import Fraction

import numpy as np
import control as ct

from core.runner import Family, Verdict, AGREE, VIOLATES, DIFFERS
from core import exact, exmat
from core.exact import fr, tok, Tokens

BIN = ("mul", "add", "sub", "div")
TOL = Fraction(1, 10 ** 9)
EXACT_BITS = 22          # degree <= 2 terms of such values stay below 2^53
CTOL = 2e-4              # continuous time: solve_ivp at rtol = 1e-10 (observed <= 1.1e-7) against the exact response, relative to
                         # the largest value of the response


# ----------------------------------------------------------------------------
# system tree (nested lists, JSON-able)
#   ["P", n, m, p, dt, {name: tok}, fs, hs|None]   poly = [[coef, [[var, exp], ...]], ...]
#   ["L", n, p, m, dt, A, B, C, D]                 StateSpace leaf (row-major rational tokens)
#   ["S", q, kind]  ["A", p, m, [q...], dtype]
#   ["neg", x] ["fb", sign, via, x, y] [mul|add|sub|div, x, y]
#   optional: a 9th element of a "P" leaf = {name: default} read by the callables as
#   `params.get(name, default)` (not declared in `params=`); a 6th element of "fb" = the dictionary
#   passed as `feedback(other, sign, params=...)`
# ----------------------------------------------------------------------------

def poly_tokens(poly):
    s = "%d" % len(poly)
    for coef, vs in poly:
        s += " %s %d" % (coef, len(vs))
        for v, e in vs:
            s += " %s %d" % (v, e)
    return s


def env_tokens(env):
    items = list(env.items())
    return "%d" % len(items) + "".join(" %s %s" % (k, v) for k, v in items)


def flatten(t):
    k = t[0]
    if k == "P":
        _, n, m, p, dt, params, fs, hs = t[:8]
        if len(t) > 8:
            s = "Q %d %d %d %s %s %s" % (n, m, p, dt, env_tokens(params), env_tokens(t[8]))
        else:
            s = "P %d %d %d %s %s" % (n, m, p, dt, env_tokens(params))
        for f in fs:
            s += " " + poly_tokens(f)
        if hs is None:
            s += " 0"
        else:
            s += " 1"
            for h in hs:
                s += " " + poly_tokens(h)
        return s
    if k == "L":
        _, n, p, m, dt, A, B, C, D = t
        return ("L %d %d %d %s %s" % (n, p, m, dt, " ".join(A + B + C + D))).rstrip()
    if k == "S":
        return "S " + t[1]
    if k == "A":
        return ("A %d %d %s" % (t[1], t[2], " ".join(t[3]))).rstrip()
    if k == "neg":
        return flatten(t[1]) + " neg"
    if k == "fb":
        if len(t) > 5:
            return flatten(t[3]) + " " + flatten(t[4]) + " fbp " + t[1] + " " + env_tokens(t[5])
        return flatten(t[3]) + " " + flatten(t[4]) + " fb " + t[1]
    if k in BIN:
        return flatten(t[1]) + " " + flatten(t[2]) + " " + k
    raise ValueError(k)


def children(t):
    k = t[0]
    if k in ("P", "L", "S", "A"):
        return []
    if k == "neg":
        return [1]
    if k == "fb":
        return [3, 4]
    return [1, 2]


def size(t):
    return 1 + sum(size(t[i]) for i in children(t))


def ops_in(t, acc=None):
    acc = [] if acc is None else acc
    if t[0] not in ("P", "L", "S", "A"):
        acc.append(t[0])
    for i in children(t):
        ops_in(t[i], acc)
    return acc


def leaves(t):
    if not children(t):
        return [t]
    out = []
    for i in children(t):
        out += leaves(t[i])
    return out


def uses_time(t):
    for lf in leaves(t):
        if lf[0] == "P":
            for poly in lf[6] + (lf[7] or []):
                for _, vs in poly:
                    if any(v == "t" for v, _ in vs):
                        return True
    return False


def tree_dt(t):
    """timebase of the composite as the first specified one (only used to steer the generator)"""
    for lf in leaves(t):
        if lf[0] in ("P", "L") and lf[4] != "N":
            return lf[4]
    return "N"


def dt_value(tokn):
    if tokn == "N":
        return None
    if tokn == "T":
        return True
    if tokn == "C":
        return 0
    return float(Fraction(tokn[1:]))


def num_value(q, kind):
    q = Fraction(q)
    if kind == "int":
        return int(q)
    if kind == "npint":
        return np.int64(int(q))
    if kind == "npfloat":
        return np.float64(float(q))
    return float(q)


def make_fn(polys, defaults=None):
    """Python callable `(t, x, u, params) -> ndarray` of a list of polynomials; a parameter named in
    `defaults` is read as `params.get(name, default)`, any other as `params[name]`"""
    dflt = {a: float(Fraction(v)) for a, v in (defaults or {}).items()}
    comp = []
    for poly in polys:
        terms = []
        for coef, vs in poly:
            vv = []
            for v, e in vs:
                if v == "t":
                    vv.append(("t", 0, e))
                elif v[0] == "p":
                    vv.append(("p", v[1:], e))
                else:
                    vv.append((v[0], int(v[1:]), e))
            terms.append((float(Fraction(coef)), vv))
        comp.append(terms)

    def fn(t, x, u, params):
        out = []
        for terms in comp:
            acc = 0.0
            for c, vv in terms:
                term = c
                for kind, i, e in vv:
                    if kind == "t":
                        val = t
                    elif kind == "x":
                        val = x[i]
                    elif kind == "u":
                        val = u[i]
                    elif i in dflt:
                        val = params.get(i, dflt[i])
                    else:
                        val = params[i]
                    for _ in range(e):
                        term = term * val
                acc = acc + term
            out.append(acc)
        return np.array(out, dtype=float)
    return fn


def combine(t, sub):
    """the object of node `t`; `sub(i)` gives the object of the child `t[i]`"""
    k = t[0]
    if k == "P":
        _, n, m, p, dt, params, fs, hs = t[:8]
        dflt = t[8] if len(t) > 8 else None
        prm = {a: float(Fraction(v)) for a, v in params.items()}
        upd = make_fn(fs, dflt) if n > 0 else None
        out = make_fn(hs, dflt) if hs is not None else None
        kw = dict(inputs=m, outputs=p, dt=dt_value(dt), params=prm)
        if n > 0:
            kw["states"] = n
        return ct.NonlinearIOSystem(upd, out, **kw)
    if k == "L":
        _, n, p, m, dt, A, B, C, D = t
        f = lambda v, r, c: np.array([float(Fraction(x)) for x in v], dtype=float).reshape(r, c)
        return ct.StateSpace(f(A, n, n), f(B, n, m), f(C, p, n), f(D, p, m), dt_value(dt))
    if k == "S":
        return num_value(t[1], t[2])
    if k == "A":
        vals = [Fraction(x) for x in t[3]]
        if t[4] == "int" and all(v.denominator == 1 for v in vals):
            return np.array([int(v) for v in vals]).reshape(t[1], t[2])
        return np.array([float(v) for v in vals]).reshape(t[1], t[2])
    if k == "neg":
        return -sub(1)
    if k == "fb":
        a, b = sub(3), sub(4)
        sign = num_value(t[1], "float" if Fraction(t[1]).denominator != 1 else "int")
        if len(t) > 5:
            return a.feedback(b, sign, params={nm: float(Fraction(v)) for nm, v in t[5].items()})
        if t[2] == "func":
            return ct.feedback(a, b, sign)
        return a.feedback(b, sign)
    a, b = sub(1), sub(2)
    if k == "add":
        return a + b
    if k == "sub":
        return a - b
    if k == "mul":
        return a * b
    if k == "div":
        return a / b
    raise ValueError(k)


class Objs:
    """the Python objects of a system tree, by path (tuple of child indices); every object is
    created once, on first use (children first), so the objects inside an interconnection are the
    very objects a call on a sub-tree works with"""

    def __init__(self, tree):
        self.tree = tree
        self.memo = {}

    def node(self, path):
        t = self.tree
        for i in path:
            t = t[i]
        return t

    def get(self, path=()):
        path = tuple(path)
        if path not in self.memo:
            self.memo[path] = combine(self.node(path), lambda i: self.get(path + (i,)))
        return self.memo[path]


def build(t):
    return Objs(t).get(())


def subtree(t, path):
    for i in path:
        t = t[i]
    return t


def sys_paths(t, path=()):
    """paths of the nodes that are non-StateSpace I/O system objects (polynomial leaves, operator
    results)"""
    out = [] if t[0] in ("L", "S", "A") else [list(path)]
    for i in children(t):
        out += sys_paths(t[i], path + (i,))
    return out


def param_names(t):
    """names of the parameters the callables below `t` read (declared or `params.get`)"""
    return sorted({k for lf in leaves(t) if lf[0] == "P" for k in list(lf[5]) + (list(lf[8]) if len(lf) > 8 else [])})


def classify_exc(e):
    msg = str(e)
    if isinstance(e, ZeroDivisionError):
        return "zeroDen"
    if isinstance(e, IndexError):
        return "indexRange"
    if isinstance(e, RuntimeError):
        if "algebraic loop" in msg:
            return "illPosed"
        return "RuntimeError"
    if isinstance(e, ValueError):
        if "timebase" in msg or "Time steps" in msg or "equally spaced" in msg:
            return "timebase"
        if "min()" in msg:
            return "badArg"
        return "shape"
    if isinstance(e, TypeError):
        return "notImplemented"
    return type(e).__name__


# ---- argument encodings ------------------------------------------------------
def varg_tokens(v):
    k = v[0]
    if k == "N":
        return "N"
    if k == "S":
        return "S " + v[1]
    if k == "A":
        return ("A %d %s" % (len(v[1]), " ".join(v[1]))).rstrip()
    if k == "L":
        s = "L %d" % len(v[1])
        for part in v[1]:
            vals = [part[1]] if part[0] == "s" else part[1]
            s += (" %d %s" % (len(vals), " ".join(vals))).rstrip()
        return s
    raise ValueError(k)


def varg_value(v):
    k = v[0]
    if k == "N":
        return None
    if k == "S":
        return num_value(v[1], v[2] if len(v) > 2 else "float")
    if k == "A":
        return np.array([float(Fraction(x)) for x in v[1]])
    out = []
    for part in v[1]:
        if part[0] == "s":
            q = Fraction(part[1])
            out.append(int(q) if q.denominator == 1 and abs(q) < 2 ** 50 else float(q))
        else:
            out.append([float(Fraction(x)) for x in part[1]])
    return out


def uarg_tokens(u):
    k = u[0]
    if k == "S":
        return "S " + u[1]
    if k == "A1":
        return ("A1 %d %s" % (len(u[1]), " ".join(u[1]))).rstrip()
    if k == "A2":
        return ("A2 %d %d %s" % (u[1], u[2], " ".join(u[3]))).rstrip()
    s = "L %d" % len(u[1])
    for e in u[1]:
        if e[0] == "s":
            s += " s " + e[1]
        elif e[0] == "v":
            s += (" v %d %s" % (len(e[1]), " ".join(e[1]))).rstrip()
        else:
            s += (" m %d %d %s" % (e[1], e[2], " ".join(e[3]))).rstrip()
    return s


def uarg_value(u):
    k = u[0]
    fl = lambda v: [float(Fraction(x)) for x in v]
    if k == "S":
        return num_value(u[1], u[2])
    if k == "A1":
        return np.array(fl(u[1]))
    if k == "A2":
        return np.array(fl(u[3])).reshape(u[1], u[2])
    out = []
    for e in u[1]:
        if e[0] == "s":
            q = Fraction(e[1])
            out.append(int(q) if q.denominator == 1 and e[2] == "int" else float(q))
        elif e[0] == "v":
            out.append(np.array(fl(e[1])) if e[2] == "arr" else fl(e[1]))
        else:
            out.append(np.array(fl(e[3])).reshape(e[1], e[2]))
    return out if u[2] == "list" else tuple(out)


def opt_ints(l):
    return "0" if l is None else ("1 %d %s" % (len(l), " ".join(map(str, l)))).rstrip()


def rats_tokens(l):
    return ("%d %s" % (len(l), " ".join(l))).rstrip()


def flat_f(a, r, c):
    a = np.asarray(a, dtype=float).reshape(r, c)
    return [tok(fr(x)) for x in a.flatten()]


class C08(Family):
    prop = "C08"
    # source-text tie (notes/NOTES-py2lean-nlsys.md): Generated/NL*.lean are rewritten from the text of
    # control/nlsys.py of the tree under check on every run and proved equal to the model
    extra_modules = ["CtrlVerif.Props.C08GenUfun", "CtrlVerif.Props.C08GenLoop", "CtrlVerif.Props.C08GenGrid",
                     "CtrlVerif.Props.C08GenVector", "CtrlVerif.Props.C08GenBroadcast", "CtrlVerif.Props.C08GenLin",
                     "CtrlVerif.Props.C08GenOpSetup", "CtrlVerif.Props.C08GenOp", "CtrlVerif.Props.C08GenOpShort",
                     "CtrlVerif.Props.C08GenParams"]

    def pre_build(self):
        import os
        from core import py2lean_nl, leanproj
        problems, self.gen_info = py2lean_nl.regenerate(os.environ.get("VERIF_REPO") or "/repo", leanproj.LEAN)
        return problems
    externals = ["scipy.optimize.root (find_operating_point: the model solves the affine root problem "
                 "exactly and checks the certificate rootfun(z) = 0)",
                 "scipy.integrate.solve_ivp (continuous-time simulation: not modelled; for interconnections "
                 "with linear time-invariant maps the implementation's result at rtol = 1e-10 is compared with "
                 "the exact response of the model's composite (A, B, C, D))",
                 "scipy.linalg.expm (reference response of x' = A x + B u for piecewise linear u, per interval)"]
    assumptions = [
        "IEEE arithmetic is exact on the generated small-integer / dyadic data (exact equality of the "
        "whole trajectory is required when every model value has at most %d bits and the time grid is "
        "dyadic; otherwise 1e-9 relative to the largest value of the trajectory)" % EXACT_BITS,
        "forward-difference linearisation is compared with the model's exact forward difference at "
        "eps = 1e-6 to 1e-5 (rounding of f(x0 + eps e_j) - f(x0) divided by eps)",
        "operating points are compared only where the affine root problem is square and non-singular "
        "(the model's exact solution is unique); `result.success = False` counts as reported failure",
        "time points are strictly increasing and there are at least two (otherwise ufun divides by zero)",
        "a power-of-two scaling of all signals commutes exactly with the floating-point evaluation of maps "
        "that are homogeneous of degree 1 (no underflow / overflow), so cases at signal level "
        "2^-s (2^-210 … 2^66) are judged on the values times 2^s (theorems simulate_smul / ic2_homog for the model side); "
        "likewise a power-of-two scaling of the time grid when the maps do not use t",
        "continuous time: solve_ivp (RK45 / DOP853, rtol = 1e-10, atol = 1e-13 at the signal level) is within "
        "2e-4 of the exact response relative to its largest value (observed <= 1.1e-7 on 1300 cases)",
        "call histories: the only state an I/O-system object carries between calls is `_current_params` "
        "(modelled by PObj; theorems update_params_history, call_history, update_params_functional show that "
        "the history-free model the driver executes is what every call must give); the omitted arguments of "
        "input_output_response are the documented defaults inputs = 0, initial_state = 0",
        "argument-sharing histories: a call may hand back an array of the caller (the inputs-fixed branch of "
        "find_operating_point returns the processed u0, a view) - only contents are compared, never identity; "
        "the model's operating point does not depend on the guess at free components, so a warm start from an "
        "earlier result is judged against the same unique solution (fixed components are never written: "
        "theorem op_call_frame); results are re-read bit-for-bit, the caller's arrays compared exactly"]
    rule = ("discrete-time polynomial systems (degree <= 2, parameters, time dependence), StateSpace "
            "leaves, scalar/array gains, combined by * + - / neg feedback (depth <= 2/3, non-square "
            "shapes); inputs as scalars, 1-D/2-D arrays, lists of lists, mixed lists; initial states as "
            "scalars, short lists, nested lists, arrays; evaluation grids equal to / finer than / beyond "
            "the input grid; linearisation of affine and polynomial systems; operating points of affine "
            "systems with index lists.  Added input classes: interconnections with homogeneous maps driven "
            "at signal levels 2^-14 … 2^-200 and 2^20 … 2^60 (inputs and initial state also at different "
            "levels); systems without states with unspecified / continuous timebase on unequally spaced "
            "grids; sampling times 2^-20 … 2^-40; the eps argument of linearize (2^-s at points of the same "
            "level, 1/64 … 2^-20 for polynomial maps), timebase None; operating points of systems with "
            "timebase None in all three branches and square index-list problems in every timebase; "
            "continuous-time responses (dt = 0 / None) of interconnections with linear maps, t_eval inside, "
            "unequally spaced time points, signal levels as above.  Call histories on shared objects (2-4 calls "
            "of input_output_response / linearize / dynamics / output / __call__ on an interconnection, on inner "
            "interconnections and on the subsystem objects themselves, with and without a params override; "
            "parameters declared, read with params.get(name, default), or both; feedback(..., params=...); objects "
            "built before the first call or on first use), every call compared with the history-free model.  "
            "Argument forms: linearize at an OperatingPoint object / a state with the input positional, keyword, "
            "None or omitted through the method and the function (maps of degree 2 with terms in u); "
            "input_output_response with inputs / initial state omitted or given by keyword under either name.  "
            "Argument-sharing histories (round 3): 2-4 calls on one system, mostly find_operating_point with the "
            "same index lists and varying targets (all three branches, every timebase), linearize / dynamics / "
            "output / input_output_response in between; initial guesses, targets, derivs and the input array are "
            "the same caller-owned objects in every call (float ndarray, (k,1) column, strided view of a larger "
            "array, integer ndarray, Python list; one array as state and input guess) or the live arrays of an "
            "earlier OperatingPoint (warm start); every call compared with the value model, every result read "
            "again after the last call, the caller's objects compared with their initial contents after every call.  "
            "Non-trivial: simulation with >= 3 steps "
            "and a non-zero input or initial state; linearisation/operating point with >= 1 state; shape "
            "case with an operator; history with an override followed by a call without one; argument-sharing "
            "history with >= 2 calls on shared arrays one of which is an operating point the model determines")

    force_n = None       # when set, every generated leaf has this many states

    # ---- generation: systems -----------------------------------------------------
    def poly(self, rng, n, m, params, affine, tvar, kind="f"):
        terms = []
        vars_ = ["x%d" % i for i in range(n)] + ["u%d" % i for i in range(m)]
        if kind == "f0":       # output that must not depend on u (no direct term)
            vars_ = ["x%d" % i for i in range(n)]
        homog = affine == "homog"     # every term of degree exactly 1 in (x, u): the maps commute
        k = rng.choice([1, 2, 2, 3])   # with a scaling of all signals (times a parameter or t allowed)
        for _ in range(k):
            c = rng.choice([-2, -1, -1, 1, 1, 2, 3])
            r = rng.random()
            if homog:
                if not vars_:
                    continue
                if r < 0.7 or not (params or tvar):
                    vs = [[rng.choice(vars_), 1]]
                elif params and (r < 0.85 or not tvar):
                    vs = [["p" + rng.choice(sorted(params)), 1], [rng.choice(vars_), 1]]
                else:
                    vs = [["t", 1], [rng.choice(vars_), 1]]
            elif not vars_ or r < 0.12:
                vs = []
            elif affine or r < 0.62:
                vs = [[rng.choice(vars_), 1]]
            elif r < 0.8:
                a, b = rng.choice(vars_), rng.choice(vars_)
                vs = [[a, 2]] if a == b else [[a, 1], [b, 1]]
            elif r < 0.9 and params:
                vs = [["p" + rng.choice(sorted(params)), 1], [rng.choice(vars_), 1]]
            elif tvar:
                vs = [["t", 1], [rng.choice(vars_), 1]]
            else:
                vs = [[rng.choice(vars_), 1]]
            terms.append([str(c), vs])
        if not homog and rng.random() < 0.1:
            terms.append([tok(Fraction(rng.choice([1, -1, 3]), 2)), []])
        merged = {}
        for c, vs in terms:                      # combine like terms (no cancelling duplicates)
            key = tuple(sorted((v, e) for v, e in vs))
            merged[key] = merged.get(key, Fraction(0)) + Fraction(c)
        out = [[tok(c), [list(ve) for ve in key]] for key, c in merged.items() if c != 0]
        if homog:
            return out or ([["1", [[vars_[0], 1]]]] if vars_ else [])
        return out or [["1", []]]

    def pleaf(self, rng, shape, dt, n=None, affine=False, direct=True):
        p, m = shape
        if n is None:
            n = rng.choice([0, 1, 1, 2, 2, 3])
            if self.force_n is not None:
                n = self.force_n
        params = {}
        if (not affine or affine == "homog") and rng.random() < 0.35:
            for nm in rng.sample(["a", "b", "c"], rng.choice([1, 2])):
                params[nm] = str(rng.choice([-1, 1, 2, 3]))
        tvar = (not affine or affine == "homog") and rng.random() < 0.2
        fs = [self.poly(rng, n, m, params, affine, tvar) for _ in range(n)]
        if n > 0 and p == n and rng.random() < 0.15:
            hs = None
        else:
            hs = [self.poly(rng, n, m, params, affine, tvar, "f" if (direct or n == 0) else "f0")
                  for _ in range(p)]
        ldt = dt if rng.random() < 0.85 else "N"
        if dt == "C":
            ldt = dt
        return ["P", n, m, p, ldt, params, fs, hs]

    def lleaf(self, rng, shape, dt, n=None, direct=True):
        p, m = shape
        if n is None:
            n = rng.choice([0, 1, 2, 2, 3])
            if self.force_n is not None:
                n = self.force_n
        ri = lambda: rng.randint(-2, 2)
        A = [ri() for _ in range(n * n)]
        B = [ri() for _ in range(n * m)]
        C = [ri() for _ in range(p * n)]
        D = [ri() if direct and rng.random() < 0.6 else 0 for _ in range(p * m)]
        s = lambda v: [str(x) for x in v]
        return ["L", n, p, m, dt, s(A), s(B), s(C), s(D)]

    def scalar(self, rng, nonzero=False):
        kind = rng.choice(["int", "float", "npfloat"])
        v = rng.choice([-2, -1, 1, 2, 3] + ([] if nonzero else [0]))
        if v == 0 and kind == "npfloat":
            kind = "float"       # 1/np.float64(0) is inf (a warning), 1/0.0 raises
        if kind != "int" and rng.random() < 0.3:
            return ["S", tok(Fraction(v, 2)), kind]
        return ["S", str(v), kind]

    def array(self, rng, shape):
        p, m = shape
        return ["A", p, m, [str(rng.randint(-2, 2)) for _ in range(p * m)], rng.choice(["int", "float"])]

    def rshape(self, rng):
        return (rng.choice([1, 1, 2, 2, 3]), rng.choice([1, 1, 2, 2, 3]))

    def any_operand(self, rng, depth, shape, dt, affine, direct=True):
        """a system (nonlinear, StateSpace or composite), an array or (1x1) a scalar"""
        r = rng.random()
        if r < 0.5:
            return self.gen(rng, depth, shape, dt, affine, direct)
        if r < 0.72:
            return self.lleaf(rng, shape, dt, direct=direct)
        if r < 0.8 and shape == (1, 1) and direct:
            return self.scalar(rng)
        if direct:
            return self.array(rng, shape)
        return self.lleaf(rng, shape, dt, direct=False)

    def gen(self, rng, depth, shape, dt, affine=False, direct=True):
        """a tree whose root is a non-StateSpace I/O system of the given (p, m) shape"""
        p, m = shape
        if depth <= 0 or rng.random() < 0.25:
            return self.pleaf(rng, shape, dt, affine=affine, direct=direct)
        op = rng.choice(["mul", "mul", "mul", "add", "add", "sub", "sub", "neg", "fb", "fb", "div"])
        d = depth - 1
        bad = rng.random() < 0.04
        if op in ("add", "sub"):
            other = self.rshape(rng) if bad else shape
            a = self.gen(rng, d, shape, dt, affine, direct)
            b = self.any_operand(rng, d, other, dt, affine, direct)
            return [op, a, b] if rng.random() < 0.6 else [op, b, a]
        if op == "mul":
            k = rng.choice([1, 2, 2, 3])
            k2 = rng.choice([1, 2, 3]) if bad else k
            if rng.random() < 0.5:
                return [op, self.gen(rng, d, (p, k), dt, affine, direct),
                        self.any_operand(rng, d, (k2, m), dt, affine, direct)]
            return [op, self.any_operand(rng, d, (p, k), dt, affine, direct),
                    self.gen(rng, d, (k2, m), dt, affine, direct)]
        if op == "neg":
            return [op, self.gen(rng, d, shape, dt, affine, direct)]
        if op == "div":
            return [op, self.gen(rng, d, (p, 1), dt, affine, direct) if m == 1 else
                    self.gen(rng, d, shape, dt, affine, direct), self.scalar(rng, nonzero=rng.random() < 0.9)]
        # feedback: the forward path mostly without direct term (no algebraic loop)
        sign = rng.choice(["-1", "-1", "1", "2", "-1/2"])
        via = rng.choice(["method", "func"])
        back = (m, p) if not bad else self.rshape(rng)
        loop = rng.random() < 0.15
        fwd = self.gen(rng, d, shape, dt, affine, direct=loop and direct)
        if rng.random() < 0.75:
            other = self.any_operand(rng, min(d, 1), back, dt, affine, direct=True)
        elif shape == (1, 1):
            other = self.scalar(rng)
        else:
            other = self.array(rng, back)
        return ["fb", sign, via, fwd, other]

    def tree(self, rng, tier, dt, affine=False):
        depth = rng.choice([0, 1, 1, 2]) if tier == "quick" else rng.choice([0, 1, 2, 2, 3])
        return self.gen(rng, depth, self.rshape(rng), dt, affine)

    # ---- generation: arguments ----------------------------------------------------
    def grid(self, rng, dt, N, hs=None):
        if dt == "T":
            h = rng.choice(hs or [Fraction(1), Fraction(1), Fraction(1, 2), Fraction(2)])
        else:
            h = Fraction(dt[1:])
        t0 = rng.choice([0, 0, 0, 1, -1]) * h
        return [t0 + k * h for k in range(N)], h

    def gen_U(self, rng, m, N, bad=False):
        val = lambda: str(rng.randint(-3, 3))
        r = rng.random()
        if bad:
            r2 = rng.random()
            if r2 < 0.3:
                return ["A2", m + 1, N, [val() for _ in range((m + 1) * N)]]
            if r2 < 0.6:
                return ["A2", m, N + 1, [val() for _ in range(m * (N + 1))]]
            if r2 < 0.8:
                return ["A1", [val() for _ in range(N + 1)]]
            return ["L", [["m", 1, N + 1, [val() for _ in range(N + 1)]]] * max(m, 1), "list"]
        if r < 0.12:
            return ["S", val(), rng.choice(["int", "float"])]
        if r < 0.22 and m == 1:
            return ["A1", [val() for _ in range(N)]]
        if r < 0.45:
            return ["A2", m, N, [val() for _ in range(m * N)]]
        if r < 0.6:
            # list of m lists of N samples
            return ["L", [["v", [val() for _ in range(N)], rng.choice(["list", "arr"])] for _ in range(m)],
                    rng.choice(["list", "tuple"])]
        # mixed list: scalars, constant vectors, series, blocks
        es, left = [], m
        while left > 0:
            q = rng.random()
            if q < 0.35:
                es.append(["s", val(), rng.choice(["int", "float"])])
                left -= 1
            elif q < 0.55:
                k = rng.randint(1, left)
                if k == N:
                    continue
                es.append(["v", [val() for _ in range(k)], rng.choice(["list", "arr"])])
                left -= k
            elif q < 0.8:
                es.append(["v", [val() for _ in range(N)], rng.choice(["list", "arr"])])
                left -= 1
            else:
                k = rng.randint(1, left)
                es.append(["m", k, N, [val() for _ in range(k * N)]])
                left -= k
        return ["L", es, rng.choice(["list", "tuple"])]

    def gen_vec(self, rng, n, allow_short=True, lo=-3, hi=3):
        val = lambda: str(rng.randint(lo, hi))
        r = rng.random()
        if r < 0.15:
            return ["S", val(), rng.choice(["int", "float"])]
        if r < 0.4:
            return ["A", [val() for _ in range(n)]]
        if r < 0.6 or not allow_short or n == 0:
            return ["L", [["s", val()] for _ in range(n)]]
        if r < 0.8:
            k = rng.randint(1, n)
            return ["L", [["s", val()] for _ in range(k)]]          # short: zero padded
        if r < 0.88:
            k = rng.randint(1, n)
            return ["A", [val() for _ in range(k)]]
        if r < 0.95:
            # nested: [x_a, [..]]
            k = rng.randint(1, n)
            return ["L", [["v", [val() for _ in range(k)]]] + [["s", val()] for _ in range(n - k)]]
        if r < 0.98:
            return ["L", [["s", val()] for _ in range(n + 1)]]      # too long
        return ["L", []]

    def call_params(self, rng, tree):
        names = param_names(tree)
        if not names or rng.random() < 0.5:
            return {}
        return {nm: str(rng.choice([-2, 1, 2, 4])) for nm in names if rng.random() < 0.7}

    def case_resp(self, rng, tier, affine=False, dts=None, composite=False, hs=None):
        dt = rng.choice(dts or ["T", "T", "D1", "D1", "D1/2", "D1/4", exact.dt_tok(0.1)])
        for _ in range(20):
            tree = self.tree(rng, tier, dt, affine)
            if tree_dt(tree) == dt and (ops_in(tree) or not composite):
                break
        try:
            _, n, m, _ = self.model_shape(tree)
        except Exception:
            n, m = 1, 1
        N = rng.choice([2, 3, 4, 4, 5, 6]) if tier == "quick" else rng.choice([2, 3, 4, 5, 6, 8])
        if dt == exact.dt_tok(0.1):
            T = [fr(x) for x in (np.arange(N) * 0.1)]
            h = None
        else:
            T, h = self.grid(rng, dt, N, hs)
        teval = None
        r = rng.random()
        if h is not None and r < 0.3:
            q = rng.random()
            if q < 0.25:
                teval = list(T)
            elif q < 0.5:      # inputs given on a coarser grid, simulation on the sampling grid
                T = [T[0] + 2 * k * h for k in range(N)]
                teval = [T[0] + k * h for k in range(rng.randint(2, 2 * N))]
            elif q < 0.75:     # beyond the input grid (extrapolation) / shifted
                teval = [T[0] + (k + rng.choice([-1, 0, 1])) * h for k in range(N + rng.randint(0, 2))]
            elif q < 0.9:      # not equally spaced
                teval = list(T)
                teval[-1] = teval[-1] + h
            else:              # wrong spacing
                teval = [T[0] + 2 * k * h for k in range(N)]
        elif h is not None and r < 0.34 and dt != "T":
            T = [T[0] + 2 * k * h for k in range(N)]      # spacing != dt
        U = self.gen_U(rng, m, len(T), bad=rng.random() < 0.05)
        X0 = self.gen_vec(rng, n)
        return {"kind": "resp", "sys": tree, "T": [tok(x) for x in T],
                "teval": None if teval is None else [tok(x) for x in teval],
                "U": U, "X0": X0, "params": self.call_params(rng, tree)}

    def model_shape(self, tree):
        """(p, n, m, ok) of a tree by a cheap structural recursion (only used to size arguments)"""
        k = tree[0]
        if k == "P":
            return tree[3], tree[1], tree[2], True
        if k == "L":
            return tree[2], tree[1], tree[3], True
        if k == "S":
            return 1, 0, 1, True
        if k == "A":
            return tree[1], 0, tree[2], True
        if k == "neg":
            return self.model_shape(tree[1])
        if k == "fb":
            a, b = self.model_shape(tree[3]), self.model_shape(tree[4])
            return a[0], a[1] + b[1], a[2], True
        a, b = self.model_shape(tree[1]), self.model_shape(tree[2])
        if k in ("mul", "div"):
            return a[0], a[1] + b[1], b[2], True
        return a[0], a[1] + b[1], a[2], True

    def case_lin(self, rng, tier, dts=None, affine=None):
        dt = rng.choice(dts or ["C", "C", "T", "D1", "D1/2"])
        drawn = rng.random() < 0.5
        affine = drawn if affine is None else affine
        tree = self.tree(rng, tier, dt, affine=affine)
        p, n, m, _ = self.model_shape(tree)
        return {"kind": "lin", "sys": tree, "t": str(rng.choice([0, 0, 1, 2])),
                "X0": self.gen_vec(rng, n, lo=-2, hi=2), "U0": self.gen_vec(rng, m, lo=-2, hi=2) if rng.random() < 0.85 else ["N"],
                "via": rng.choice(["method", "func"]), "params": self.call_params(rng, tree)}

    def case_op(self, rng, tier, dts=None):
        dt = rng.choice(dts or ["C", "C", "D1", "T"])
        r = rng.random()
        if r < 0.5:
            n = rng.choice([1, 2, 2, 3])
            m = rng.choice([1, 1, 2])
            p = rng.choice([1, m, m, 2])
            tree = self.pleaf(rng, (p, m), dt, n=n, affine=True) if rng.random() < 0.6 else \
                self.lleaf(rng, (p, m), dt, n=n)
        else:
            tree = self.gen(rng, 1, self.rshape(rng), dt, affine=True)
        p, n, m, _ = self.model_shape(tree)
        val = lambda: str(rng.randint(-3, 3))
        full = lambda k: ["L", [["s", val()] for _ in range(k)]]
        case = {"kind": "op", "sys": tree, "t": str(rng.choice([0, 0, 1])), "X0": full(n), "U0": full(m),
                "Y0": ["N"], "dx0": None, "iu": None, "iy": None, "ix": None, "idx": None,
                "params": {}}
        q = rng.random()
        if q < 0.25:
            pass                                        # inputs fixed, solve for x
        elif q < 0.45:
            case["Y0"] = full(p)                        # outputs fixed, solve for (x, u)
        elif q < 0.6:
            case["dx0"] = [val() for _ in range(n)]     # requested update, no index lists
            if rng.random() < 0.4:
                case["Y0"] = full(p)
        else:
            # general case: choose fixed states / inputs and constrained updates / outputs
            have_y = rng.random() < 0.6
            if have_y:
                case["Y0"] = full(p)
            neg = lambda l, k: [i - k if rng.random() < 0.15 else i for i in l]
            ix = sorted(rng.sample(range(n), rng.randint(0, max(0, n - 1))))
            iu = sorted(rng.sample(range(m), rng.randint(0, m)))
            free = (n - len(ix)) + (m - len(iu))
            idx = sorted(rng.sample(range(n), min(n, free)))
            rest = free - len(idx)
            iy = sorted(rng.sample(range(p), min(p, rest))) if have_y else None
            case["ix"] = neg(ix, n) if (ix or rng.random() < 0.1) else None
            case["iu"] = neg(iu, m) if (iu or rng.random() < 0.5) else None
            case["idx"] = neg(idx, n) if (len(idx) < n or rng.random() < 0.3) else None
            if have_y:
                case["iy"] = neg(iy, p) if (len(iy) < p or rng.random() < 0.3) else None
            if rng.random() < 0.4:
                case["dx0"] = [val() for _ in range(n)]
            if rng.random() < 0.04:
                which = rng.choice(["iu", "iy", "ix", "idx"])
                case[which] = [7]                       # out of range
        return case

    def case_shape(self, rng, tier):
        dt = rng.choice(["C", "T", "D1", "D1/2", "N"])
        r = rng.random()
        if r < 0.3:
            # constant array / StateSpace times a non-square system, and the other way round
            shape = rng.choice([(3, 2), (2, 3), (1, 2), (2, 1), (3, 1), (1, 3), (2, 2)])
            g = self.pleaf(rng, shape, dt)
            k = rng.choice([1, 2, 3])
            if rng.random() < 0.5:
                left = self.array(rng, (k, shape[0])) if rng.random() < 0.6 else self.lleaf(rng, (k, shape[0]), dt)
                return {"kind": "shape", "sys": ["mul", left, g]}
            right = self.array(rng, (shape[1], k)) if rng.random() < 0.6 else self.lleaf(rng, (shape[1], k), dt)
            return {"kind": "shape", "sys": ["mul", g, right]}
        if r < 0.4:
            # incompatible timebases
            a = self.pleaf(rng, (1, 1), "D1")
            a[4] = "D1"
            b = self.pleaf(rng, (1, 1), rng.choice(["D1/2", "C", "T"]))
            b[4] = rng.choice(["D1/2", "C", "T"])
            return {"kind": "shape", "sys": [rng.choice(["mul", "add", "sub"]), a, b] if rng.random() < 0.7
                    else ["fb", "-1", "method", a, b]}
        tree = self.gen(rng, rng.choice([1, 2]), self.rshape(rng), dt)
        return {"kind": "shape", "sys": tree}


    # ---- generation: input classes added after the seeded changes ---------------------------
    # signal levels 2^-s: below every plausible absolute threshold (1e-5, 1e-8, 1e-10, 1e-16, tiny),
    # and far above 1
    SCALES = [34, 36, 40, 40, 48, 60, 100, 200, 27, 20, 14, -20, -60]

    @staticmethod
    def scale_tok(v, k):
        return tok(Fraction(v) / Fraction(2) ** k if k >= 0 else Fraction(v) * Fraction(2) ** (-k))

    def scale_U(self, U, k):
        """the input argument with every sample multiplied by 2^-k (same container kinds)"""
        sc = lambda l: [self.scale_tok(v, k) for v in l]
        kind = U[0]
        if kind == "S":
            q = Fraction(self.scale_tok(U[1], k))
            return ["S", tok(q), U[2] if q.denominator == 1 and abs(q) < 2 ** 50 else "float"]
        if kind == "A1":
            return ["A1", sc(U[1])]
        if kind == "A2":
            return ["A2", U[1], U[2], sc(U[3])]
        es = []
        for e in U[1]:
            if e[0] == "s":
                q = Fraction(self.scale_tok(e[1], k))
                es.append(["s", tok(q), e[2] if abs(q) < 2 ** 50 else "float"])
            elif e[0] == "v":
                es.append(["v", sc(e[1]), e[2]])
            else:
                es.append(["m", e[1], e[2], sc(e[3])])
        return ["L", es, U[2]]

    def scale_vec(self, v, k):
        sc = lambda l: [self.scale_tok(x, k) for x in l]
        kind = v[0]
        if kind == "N":
            return v
        if kind == "S":
            q = Fraction(self.scale_tok(v[1], k))
            return ["S", tok(q), (v[2] if len(v) > 2 else "float")
                    if q.denominator == 1 and abs(q) < 2 ** 50 else "float"]
        if kind == "A":
            return ["A", sc(v[1])]
        return ["L", [["s", self.scale_tok(e[1], k)] if e[0] == "s" else ["v", sc(e[1])] for e in v[1]]]

    def case_resp_scaled(self, rng, tier):
        """interconnections whose maps are homogeneous of degree 1 in (x, u) (so that a power-of-two
        scaling of all signals commutes exactly with the floating-point computation), driven with
        inputs / initial states at the level 2^-s; inputs and initial state may sit at different
        levels (mixed magnitudes)"""
        case = self.case_resp(rng, tier, affine="homog", composite=True,
                              dts=["T", "T", "D1", "D1", "D1/2", "D1/4", exact.dt_tok(0.1)])
        s = rng.choice(self.SCALES)
        ju, jx = rng.choice([0, 0, 0, 0, 6, -6, 10]), rng.choice([0, 0, 0, 0, 6, -6, 10])
        case["scale"] = s
        case["U"] = self.scale_U(case["U"], s + ju)
        case["X0"] = self.scale_vec(case["X0"], s + jx)
        return case

    def case_resp_static(self, rng, tier):
        """systems without states (every leaf static), timebase unspecified or continuous: no grid
        checks apply, so the time points need not be equally spaced and t_eval may lie anywhere"""
        dt = rng.choice(["N", "N", "C"])
        self.force_n = 0
        try:
            tree = self.gen(rng, rng.choice([1, 1, 2]), self.rshape(rng), dt,
                            rng.choice([False, False, True, "homog"]))
        finally:
            self.force_n = None
        _, n, m, _ = self.model_shape(tree)
        N = rng.choice([2, 3, 4, 5])
        T = [Fraction(rng.choice([0, 0, 1, -1]))]
        for _ in range(N - 1):
            T.append(T[-1] + rng.choice([Fraction(1, 2), Fraction(1), Fraction(1), Fraction(2), Fraction(1, 4)]))
        teval = None
        if rng.random() < 0.5:
            teval = sorted(T[0] + Fraction(rng.randint(-4, 4 * N), 4) for _ in range(rng.randint(1, 5)))
        case = {"kind": "resp", "sys": tree, "T": [tok(x) for x in T],
                "teval": None if teval is None else [tok(x) for x in teval],
                "U": self.gen_U(rng, m, N), "X0": self.gen_vec(rng, 0),
                "params": self.call_params(rng, tree)}
        if rng.random() < 0.3 and all(self.homogeneous(lf) for lf in leaves(tree)):
            s = rng.choice(self.SCALES)
            case["U"] = self.scale_U(case["U"], s)
            case["scale"] = s
        return case

    def case_resp_tscale(self, rng, tier):
        """sampling times 2^-20 … 2^-40 (the grid checks use absolute tolerances)"""
        r = rng.choice([20, 30, 30, 40])
        h = Fraction(1, 2 ** r)
        case = self.case_resp(rng, tier, dts=["T", "D" + tok(h), "D" + tok(h)], hs=[h, h, 2 * h])
        case["tscale"] = r
        return case

    @staticmethod
    def homogeneous(lf):
        """leaf whose maps are homogeneous of degree 1 in (x, u)"""
        if lf[0] != "P":
            return True
        for poly in lf[6] + (lf[7] or []):
            for _, vs in poly:
                if sum(e for v, e in vs if v[0] in "xu") != 1:
                    return False
        return True

    def case_lin_eps(self, rng, tier):
        """the `eps` argument of linearize; for homogeneous maps a step 2^-s at a point of the same
        level (or the origin), where all internal signals are of size 2^-s"""
        if rng.random() < 0.6:
            dt = rng.choice(["C", "C", "N", "T", "D1"])
            for _ in range(20):
                tree = self.gen(rng, rng.choice([1, 2]), self.rshape(rng), dt, "homog")
                if ops_in(tree):
                    break
            p, n, m, _ = self.model_shape(tree)
            s = rng.choice([x for x in self.SCALES if x > 0])
            zero = rng.random() < 0.5
            X0 = self.gen_vec(rng, n, lo=-2, hi=2)
            U0 = self.gen_vec(rng, m, lo=-2, hi=2)
            if zero:
                X0, U0 = self.scale_vec(X0, 0), (self.scale_vec(U0, 0) if rng.random() < 0.7 else ["N"])
                X0 = ["L", [["s", "0"] for _ in range(n)]]
                if U0[0] != "N":
                    U0 = ["L", [["s", "0"] for _ in range(m)]]
            else:
                X0, U0 = self.scale_vec(X0, s), self.scale_vec(U0, s)
            return {"kind": "lin", "sys": tree, "t": str(rng.choice([0, 0, 1, 2])), "X0": X0, "U0": U0,
                    "via": rng.choice(["method", "func"]), "params": self.call_params(rng, tree),
                    "eps": tok(Fraction(1, 2 ** s))}
        # polynomial maps: the forward difference depends on the step (eps times the remainder)
        case = self.case_lin(rng, tier, dts=["C", "N", "N", "T", "D1"], affine=rng.random() < 0.2)
        case["eps"] = rng.choice(["1/64", "1/1024", "1/1024", "1/4096", "1/100000", "1/1048576"])
        return case

    def case_op_general(self, rng, tier, dts):
        """the index-list branch of find_operating_point with a square problem: non-empty lists,
        as many constrained updates / outputs as free states / inputs"""
        for _ in range(10):
            case = self.case_op(rng, tier, dts=dts)
            p, n, m, _ = self.model_shape(case["sys"])
            if n > 0:
                break
        else:
            return case
        val = lambda: str(rng.randint(-3, 3))
        full = lambda k: ["L", [["s", val()] for _ in range(k)]]
        neg = lambda l, k: [i - k if rng.random() < 0.15 else i for i in l]
        ix = sorted(rng.sample(range(n), rng.randint(0, n - 1)))
        iu = sorted(rng.sample(range(m), rng.randint(0, m)))
        free = (n - len(ix)) + (m - len(iu))
        lo, hi = max(1, free - n), min(p, free - 1)
        have_y = lo <= hi and not (free <= n and rng.random() < 0.4)
        if have_y:
            ny = rng.randint(lo, hi)
            iy = sorted(rng.sample(range(p), ny))
            nd = free - ny
        else:
            iy, nd = None, min(free, n)
        idx = sorted(rng.sample(range(n), nd))
        case.update({"Y0": full(p) if have_y else ["N"],
                     "dx0": [val() for _ in range(n)] if rng.random() < 0.4 else None,
                     "ix": neg(ix, n) if ix else None,
                     "iu": neg(iu, m) if (iu or rng.random() < 0.5) else None,
                     "idx": neg(idx, n) if (nd < n or rng.random() < 0.3) else None,
                     "iy": None if iy is None else (neg(iy, p) if (len(iy) < p or rng.random() < 0.3) else None)})
        if all(case[q] is None for q in ("iu", "iy", "ix", "idx")):
            case["idx"] = list(range(n))
        return case

    def case_cresp(self, rng, tier):
        """continuous time (dt = 0 or unspecified): interconnections of systems whose maps are linear
        and time-invariant but whose classes are NonlinearIOSystem / InterconnectedSystem; simulated
        with solve_ivp and compared with the exact response of the model's composite (A, B, C, D);
        time points need not be equally spaced, t_eval anywhere inside; signals also at 2^-s"""
        dt = rng.choice(["C", "C", "N"])
        for _ in range(50):
            tree = self.gen(rng, rng.choice([1, 1, 2]), self.rshape(rng), dt, "homog")
            p, n, m, _ = self.model_shape(tree)
            if ops_in(tree) and not uses_time(tree) and 0 < n <= 6 and tree_dt(tree) == dt \
                    and all(lf[0] != "L" or lf[4] == dt for lf in leaves(tree)):
                break
        else:
            tree = ["mul", self.pleaf(rng, (1, 1), dt, n=1, affine=True), ["S", "2", "int"]]
            tree[1][5], tree[1][6], tree[1][7] = {}, [[["-1", [["x0", 1]]], ["1", [["u0", 1]]]]], [[["1", [["x0", 1]]]]]
            p, n, m, _ = self.model_shape(tree)
        N = rng.choice([2, 3, 4, 5])
        h = rng.choice([Fraction(1, 4), Fraction(1, 2), Fraction(1, 2), Fraction(1)])
        T = [Fraction(rng.choice([0, 0, 1, -1]))]
        for _ in range(N - 1):
            T.append(T[-1] + (h if rng.random() < 0.8 else h * rng.choice([Fraction(1, 2), 2])))
        teval = None
        if rng.random() < 0.4:
            span = int((T[-1] - T[0]) * 8)
            teval = sorted({T[0] + Fraction(rng.randint(0, span), 8) for _ in range(rng.randint(1, 6))})
        val = lambda: str(rng.randint(-3, 3))
        r = rng.random()
        if r < 0.15:
            U = ["S", val(), rng.choice(["int", "float"])]
        elif r < 0.3 and m == 1:
            U = ["A1", [val() for _ in range(N)]]
        else:
            U = ["A2", m, N, [val() for _ in range(m * N)]]
        r = rng.random()
        if r < 0.15:
            X0 = ["S", val(), rng.choice(["int", "float"])]
        elif r < 0.5:
            X0 = ["A", [val() for _ in range(n)]]
        else:
            X0 = ["L", [["s", val()] for _ in range(n)]]
        case = {"kind": "cresp", "sys": tree, "T": [tok(x) for x in T],
                "teval": None if teval is None else [tok(x) for x in teval], "U": U, "X0": X0,
                "params": self.call_params(rng, tree), "scale": 0,
                "method": rng.choice(["RK45", "RK45", "RK45", "DOP853"])}
        if rng.random() < 0.5:
            s = rng.choice(self.SCALES)
            case["scale"] = s
            case["U"] = self.scale_U(U, s)
            case["X0"] = self.scale_vec(X0, s)
        return case

    # ---- generation: call forms and call histories (second round of seeded changes) ------------
    def u_dependent(self, rng, tree):
        """give some polynomial leaf a term x_i·u_j or u_j² (so that the Jacobians depend on the input
        at which the system is linearised)"""
        cands = [lf for lf in leaves(tree) if lf[0] == "P" and lf[2] > 0]
        if not cands:
            return
        lf = rng.choice(cands)
        n, m = lf[1], lf[2]
        polys = lf[6] + (lf[7] or [])
        if not polys:
            return
        uj = "u%d" % rng.randrange(m)
        other = rng.choice(["x%d" % i for i in range(n)] + [uj])
        vs = [[uj, 2]] if other == uj else sorted([[other, 1], [uj, 1]])
        poly = rng.choice(polys)
        if not any(sorted(map(list, t[1])) == vs for t in poly):
            poly.append([str(rng.choice([-1, 1, 2])), vs])

    def undeclare(self, rng, tree, mode):
        """turn declared parameters of the polynomial leaves into `params.get(name, default)` defaults
        (mode "all": no leaf declares anything, "mix": per leaf all / some / none); a leaf without
        parameters gets one multiplied into a term.  Returns the new tree."""
        def walk(t):
            if t[0] == "P":
                lf = [t[0]] + [x for x in t[1:8]]
                decl = dict(lf[5])
                fs = [[[c, [list(v) for v in vs]] for c, vs in poly] for poly in lf[6]]
                hs = None if lf[7] is None else [[[c, [list(v) for v in vs]] for c, vs in poly] for poly in lf[7]]
                dflt = {}
                if not decl and rng.random() < (0.75 if mode == "all" else 0.5):
                    terms = [tm for poly in fs + (hs or []) for tm in poly]
                    if terms:
                        for nm in rng.sample(["a", "b", "c"], rng.choice([1, 1, 2])):
                            tm = rng.choice(terms)
                            if not any(v == "p" + nm for v, _ in tm[1]):
                                tm[1].append(["p" + nm, 1])
                                decl[nm] = str(rng.choice([-1, 2, 3, 1, -2]))
                r = rng.random()
                for nm in sorted(decl):
                    if mode == "all" or r < 0.4 or (r < 0.7 and rng.random() < 0.5):
                        dflt[nm] = decl.pop(nm)
                return ["P", lf[1], lf[2], lf[3], lf[4], decl, fs, hs, dflt]
            out = list(t)
            for i in children(t):
                out[i] = walk(t[i])
            return out
        return walk(tree)

    def point_vec(self, rng, k, lo=-2, hi=2):
        """a full-length point as array / list / (sometimes) short list"""
        val = lambda: str(rng.randint(lo, hi))
        r = rng.random()
        if r < 0.45 or k == 0:
            return ["A", [val() for _ in range(k)]]
        if r < 0.85:
            return ["L", [["s", val()] for _ in range(k)]]
        return ["L", [["s", val()] for _ in range(rng.randint(1, k))]]

    def case_lin_forms(self, rng, tier):
        """the argument forms of `linearize`: the point as an OperatingPoint object (states, inputs)
        or a state vector; the input given positionally / by keyword / as None / omitted; method
        and function route.  Maps of degree 2 with terms in u, so that the Jacobians depend on the
        input of the operating point."""
        dt = rng.choice(["C", "C", "T", "D1", "N"])
        tree = self.tree(rng, tier, dt, affine=rng.random() < 0.15)
        if rng.random() < 0.8:
            self.u_dependent(rng, tree)
        p, n, m, _ = self.model_shape(tree)
        case = {"kind": "lin", "sys": tree, "t": str(rng.choice([0, 0, 1, 2])),
                "X0": self.point_vec(rng, n) if rng.random() < 0.8 else self.gen_vec(rng, n, lo=-2, hi=2),
                "via": rng.choice(["method", "method", "func"]), "params": self.call_params(rng, tree)}
        nz = lambda: self.point_vec(rng, m, lo=1, hi=3) if rng.random() < 0.7 else self.point_vec(rng, m)
        if rng.random() < 0.7:
            case["op"] = {"inputs": nz(), "outputs": rng.random() < 0.3}
            r = rng.random()
            if r < 0.55:
                case["U0"], case["uform"] = ["N"], "omit"
            elif r < 0.7:
                case["U0"], case["uform"] = ["N"], rng.choice(["pos", "kw"])
            else:
                case["U0"], case["uform"] = nz(), rng.choice(["pos", "kw"])
        else:
            r = rng.random()
            if r < 0.4:
                case["U0"], case["uform"] = ["N"], "omit"
            elif r < 0.55:
                case["U0"], case["uform"] = ["N"], rng.choice(["pos", "kw"])
            else:
                case["U0"], case["uform"] = nz(), rng.choice(["pos", "kw", "kw"])
        case["tform"] = rng.choice(["kw", "kw", "omit"]) if case["t"] == "0" else "kw"
        return case

    def case_resp_forms(self, rng, tier):
        """the argument forms of `input_output_response`: inputs / initial state omitted (defaults 0),
        given by keyword under either name (`inputs`/`U`, `initial_state`/`X0`, `timepts`/`T`,
        `evaluation_times`/`t_eval`)"""
        case = self.case_resp(rng, tier, dts=["T", "D1", "D1", "D1/2"])
        forms = {"T": rng.choice(["pos", "pos", "timepts", "T"])}
        nopos = forms["T"] != "pos"
        forms["U"] = rng.choice(["omit", "inputs", "U"] + ([] if nopos else ["pos", "pos"]))
        nopos = nopos or forms["U"] != "pos"
        forms["X0"] = rng.choice(["omit", "initial_state", "X0"] + ([] if nopos else ["pos"]))
        forms["te"] = rng.choice(["t_eval", "evaluation_times"])
        if forms["U"] == "omit":
            case["U"] = ["S", "0", "float"]
        if forms["X0"] == "omit":
            case["X0"] = ["S", "0", "float"]
        case["forms"] = forms
        return case

    def step_args(self, rng, tier, sub, dt, kind):
        """arguments of one call on the sub-tree `sub`"""
        try:
            p, n, m, _ = self.model_shape(sub)
        except Exception:
            p, n, m = 1, 1, 1
        val = lambda: str(rng.randint(-3, 3))
        if kind == "resp":
            N = rng.choice([2, 3, 3, 4, 5])
            T, h = self.grid(rng, dt, N)
            teval = None
            if rng.random() < 0.15:
                teval = [T[0] + k * h for k in range(rng.randint(2, N + 1))]
            return {"kind": "resp", "T": [tok(x) for x in T],
                    "teval": None if teval is None else [tok(x) for x in teval],
                    "U": self.gen_U(rng, m, N), "X0": self.gen_vec(rng, n)}
        if kind == "lin":
            return {"kind": "lin", "t": str(rng.choice([0, 0, 1, 2])), "X0": self.gen_vec(rng, n, lo=-2, hi=2),
                    "U0": self.gen_vec(rng, m, lo=-2, hi=2) if rng.random() < 0.85 else ["N"],
                    "via": rng.choice(["method", "func"])}
        # `sys(u, params)` of a system without states evaluates the output map at t = 0
        call = kind == "out" and n == 0 and rng.random() < 0.4
        return {"kind": kind, "t": "0" if call else str(rng.choice([0, 0, 1, 2])), "x": [val() for _ in range(n)],
                "u": [val() for _ in range(m)], "via": "call" if call else "method"}

    def case_hist(self, rng, tier):
        """a call history on one set of objects: an interconnection is built from subsystem objects;
        calls (`input_output_response`, `linearize`, `dynamics`, `output`, `__call__`) are made on the
        interconnection, on inner interconnections and on the subsystem objects themselves, with and
        without a `params` override; every call must give what the same call gives on objects never
        used before.  Subsystems declare their parameters (`params=`), read them with
        `params.get(name, default)`, or both; `feedback(..., params=...)`."""
        dt = rng.choice(["T", "D1", "D1", "D1/2", "D1", "C", "N"])
        for _ in range(30):
            affine = rng.random() < 0.3
            if rng.random() < 0.25:
                # a feedback loop at the root (it may be given `params=` below)
                shape = self.rshape(rng)
                tree = ["fb", rng.choice(["-1", "-1", "1", "2", "-1/2"]), "method",
                        self.gen(rng, rng.choice([0, 1]), shape, dt, affine, direct=False),
                        self.any_operand(rng, 1, (shape[1], shape[0]), dt, affine)]
            else:
                tree = self.gen(rng, rng.choice([1, 1, 2]), self.rshape(rng), dt, affine=affine)
            if not (ops_in(tree) and any(lf[0] == "P" for lf in leaves(tree))):
                continue
            mode = rng.choice(["all", "mix", "mix", "keep", "keep"])
            if mode != "keep":
                tree = self.undeclare(rng, tree, mode)
            names = param_names(tree)
            if names:
                break

        def with_fb_params(t):
            if t[0] == "fb" and rng.random() < 0.6:
                given = {nm: str(rng.choice([-1, 2, 3, 4, 5])) for nm in names if rng.random() < 0.7}
                t = [t[0], t[1], "method", t[3], t[4], given]
            out = list(t)
            for i in children(t):
                out[i] = with_fb_params(t[i])
            return out
        tree = with_fb_params(tree)
        paths = sys_paths(tree)
        inner = [q for q in paths if q] or paths

        def override(sub, force=False):
            cand = param_names(sub) if rng.random() < 0.8 else names
            if not cand:
                return {}
            d = {nm: rng.choice(["-2", "4", "5", "1/2", "-3"]) for nm in cand if rng.random() < 0.7}
            if force and not d:
                d = {rng.choice(cand): rng.choice(["-2", "4", "5"])}
            return d

        def kinds_for(sub):
            ks = ["lin", "lin", "dyn", "dyn", "out"]
            if dt not in ("C", "N") and tree_dt(sub) == dt:
                ks += ["resp"] * 5
            return ks

        def step(path, prm):
            sub = subtree(tree, path)
            st = self.step_args(rng, tier, sub, dt, rng.choice(kinds_for(sub)))
            st["path"] = list(path)
            st["params"] = prm
            return st

        steps = []
        r = rng.random()
        if r < 0.6:
            # the pattern: [call on an enclosing object], call with an override somewhere inside (or
            # on the same object), the first call again (or another call on an enclosing object)
            q = rng.choice(inner) if rng.random() < 0.8 else []
            outer = q[:rng.randrange(len(q) + 1)] if (q and rng.random() < 0.9) else list(q)
            # `outer` is a prefix of `q`; a prefix that is not an object path cannot occur (every
            # ancestor of an object is an operator result)
            first = step(outer, {}) if rng.random() < 0.6 else None
            if first is not None:
                steps.append(first)
            steps.append(step(q, override(subtree(tree, q), force=True)))
            if first is not None and rng.random() < 0.6:
                steps.append({k: (list(v) if isinstance(v, list) else v) for k, v in first.items()})
            else:
                steps.append(step(outer, {}))
        else:
            for _ in range(rng.choice([2, 3, 3, 4])):
                q = rng.choice(paths) if rng.random() < 0.6 else []
                steps.append(step(q, override(subtree(tree, q)) if rng.random() < 0.5 else {}))
        return {"kind": "hist", "sys": tree, "eager": rng.random() < 0.6, "steps": steps}

    # ==== round 3 (C08-m7) BEGIN: caller-owned argument objects shared between calls; results read again ====
    # case {"kind": "ahist", "sys": tree, "pool": {name: [container, values]}, "steps": [...]}:
    #   the pool holds the arrays / lists the *caller* owns (container "A" float ndarray, "AC" float
    #   column (k, 1), "AV" strided view `big[1::2]` of a larger float array, "AI" integer ndarray, "L"
    #   Python list, "A2" float (m, N) input array); a step is a call on the root object whose vector
    #   arguments are plain values, ["R", name] (the pool object itself, the same object in every call
    #   that names it) or ["W", j, field, fallback] (the live `states` / `inputs` array of the
    #   OperatingPoint returned by call j: a warm start).  Every call is answered by the history-free
    #   model (values); the results are read when the call returns *and again after the last call*, and
    #   the pool is compared with its initial contents after every call.
    POOL_KINDS = ["A", "A", "A", "A", "AC", "AV", "AI", "L"]
    REF_KEYS = ("X0", "U0", "Y0", "U", "dx0", "x", "u")

    @staticmethod
    def is_ref(a):
        return isinstance(a, list) and len(a) > 0 and a[0] in ("R", "W")

    @staticmethod
    def pool_varg(ent):
        """the by-value argument with the contents of a pool entry"""
        if ent[0] == "A2":
            return ent
        return ["L", [["s", v] for v in ent[1]]] if ent[0] == "L" else ["A", list(ent[1])]

    @staticmethod
    def pool_object(ent):
        """(the object handed to the library, the object whose contents the caller can see)"""
        kind = ent[0]
        if kind == "A2":
            o = np.array([float(Fraction(v)) for v in ent[3]]).reshape(ent[1], ent[2])
            return o, o
        fl = [float(Fraction(v)) for v in ent[1]]
        if kind == "A":
            o = np.array(fl)
            return o, o
        if kind == "AC":
            o = np.array(fl).reshape(-1, 1)
            return o, o
        if kind == "AV":
            big = np.full(2 * len(fl) + 1, 7.0)
            big[1::2] = fl
            return big[1::2], big
        if kind == "AI":
            o = np.array([int(Fraction(v)) for v in ent[1]], dtype=np.int64)
            return o, o
        o = varg_value(["L", [["s", v] for v in ent[1]]])
        return o, o

    @staticmethod
    def pool_snap(own):
        def one(x):
            try:
                return tok(fr(float(x)))
            except Exception:  # noqa  (nan / inf)
                return repr(x)
        if isinstance(own, np.ndarray):
            return [str(own.dtype), list(own.shape), [one(x) for x in own.reshape(-1)]]
        return ["list", [len(own)], ["%s:%s" % (type(x).__name__, one(x)) for x in own]]

    def astep_case(self, case, st):
        """one call of an argument-sharing history as a case of its own, references replaced by the
        values the caller put into the pool (warm starts: by the values they stand for)"""
        c = dict(st)
        c["sys"] = case["sys"]
        for key in self.REF_KEYS:
            a = c.get(key)
            if not self.is_ref(a):
                continue
            if a[0] == "W":
                c[key] = a[3]
                continue
            ent = case["pool"][a[1]]
            c[key] = list(ent[1]) if key in ("dx0", "x", "u") else self.pool_varg(ent)
        return c

    def case_ahist(self, rng, tier):
        """the usage pattern of a scheduling loop: several `find_operating_point` calls on one system
        with the same index lists and varying targets, the initial guesses being the *same* caller-owned
        arrays in every call (or the arrays returned by an earlier call); `linearize`, `dynamics`,
        `output`, `input_output_response` calls on the same arrays in between"""
        dts = ["N", "C", "C", "D1", "T", "D1"]
        base = self.case_op_general(rng, tier, dts) if rng.random() < 0.75 else self.case_op(rng, tier, dts=dts)
        tree = base["sys"]
        p, n, m, _ = self.model_shape(tree)
        dt = tree_dt(tree)
        val = lambda: str(rng.randint(-3, 3))
        xv = [e[1] for e in base["X0"][1]]
        uv = [e[1] for e in base["U0"][1]]
        pool = {}
        uname = "u"
        if n:
            pool["x"] = [rng.choice(self.POOL_KINDS), xv]
            pool["d"] = [rng.choice(["A", "A", "AV", "AI", "L"]), [val() for _ in range(n)]]
        if m:
            if n == m and rng.random() < 0.08:
                uname, uv = "x", xv            # one array given as state guess *and* as input guess
            else:
                pool["u"] = [rng.choice(self.POOL_KINDS), uv]
        if p:
            pool["y"] = [rng.choice(self.POOL_KINDS), [val() for _ in range(p)]]
        other = tree[0] != "L"
        disc = other and dt in ("T", "D1")
        N = rng.choice([3, 4, 5])
        if disc and m:
            pool["U"] = ["A2", m, N, [val() for _ in range(m * N)]]
        style = {k: rng.choice(["R", "R", "R", "W", "W", "V", "mix"]) for k in ("x", "u")}
        general = any(base[q] is not None for q in ("iu", "iy", "ix", "idx"))

        def pick(name, k, vals, prev_ops, warm=True):
            if k == 0:
                return ["L", []]
            sname = uname if name == "u" else name
            r = style[name]
            if r == "mix":
                r = rng.choice(["R", "R", "W", "V"])
            if r == "W" and not (warm and prev_ops):
                r = "R" if rng.random() < 0.7 else "V"
            if r == "R":
                return ["R", sname]
            if r == "W":
                j = prev_ops[-1] if rng.random() < 0.7 else rng.choice(prev_ops)
                return ["W", j, name, ["A", list(vals)]]
            return ["A", list(vals)] if rng.random() < 0.5 else ["L", [["s", v] for v in vals]]

        steps, prev_ops = [], []
        for j in range(rng.choice([2, 3, 3, 4])):
            r = rng.random()
            if j == 0 and r < 0.85 or j > 0 and r < 0.65 or not other:
                st = {"kind": "op", "t": base["t"] if rng.random() < 0.7 else str(rng.choice([0, 1, 2])),
                      "X0": pick("x", n, xv, prev_ops), "U0": pick("u", m, uv, prev_ops),
                      "iu": base["iu"], "iy": base["iy"], "ix": base["ix"], "idx": base["idx"], "params": {}}
                if base["Y0"][0] == "N":
                    st["Y0"] = ["N"]
                elif p and rng.random() < 0.3:
                    st["Y0"] = ["R", "y"]
                else:
                    yv = [val() for _ in range(p)]
                    st["Y0"] = ["A", yv] if rng.random() < 0.4 else ["L", [["s", v] for v in yv]]
                given = base["dx0"] is not None
                if general and rng.random() < 0.3:
                    given = not given
                if not given or n == 0:
                    st["dx0"] = None if not given else []
                elif rng.random() < 0.4:
                    st["dx0"] = ["R", "d"]
                else:
                    st["dx0"] = [val() for _ in range(n)]
                prev_ops.append(j)
            else:
                kind = rng.choice(["lin", "dyn", "out"] + (["resp", "resp"] if disc else []))
                if kind == "lin":
                    st = {"kind": "lin", "t": str(rng.choice([0, 0, 1, 2])),
                          "X0": pick("x", n, xv, prev_ops, warm=False), "U0": pick("u", m, uv, prev_ops, warm=False),
                          "via": rng.choice(["method", "func"]), "params": {}}
                elif kind == "resp":
                    T, _h = self.grid(rng, dt, N)
                    st = {"kind": "resp", "T": [tok(x) for x in T], "teval": None,
                          "U": ["R", "U"] if (m and rng.random() < 0.7) else self.gen_U(rng, m, N),
                          "X0": pick("x", n, xv, prev_ops, warm=False), "params": {}}
                else:
                    st = {"kind": kind, "t": str(rng.choice([0, 0, 1, 2])), "via": "method", "params": {},
                          "x": ["R", "x"] if (n and rng.random() < 0.7) else list(xv),
                          "u": ["R", uname] if (m and rng.random() < 0.7) else list(uv)}
            steps.append(st)
        return {"kind": "ahist", "sys": tree, "pool": pool, "steps": steps}

    def _impl_ahist(self, case):
        try:
            sys = build(case["sys"])
        except Exception as e:  # noqa  (the system cannot be built: every call reports it)
            r = {"err": classify_exc(e), "exc": "%s: %s" % (type(e).__name__, str(e)[:200])}
            return {"steps": [r for _ in case["steps"]], "end": [r for _ in case["steps"]], "pool_changed": None}
        objs, owners = {}, {}
        for name, ent in case["pool"].items():
            objs[name], owners[name] = self.pool_object(ent)
        snap0 = {name: self.pool_snap(own) for name, own in owners.items()}
        field = {"x": "states", "u": "inputs", "y": "outputs"}
        live, rets, changed = [], [], None
        err = lambda e: {"err": classify_exc(e), "exc": "%s: %s" % (type(e).__name__, str(e)[:200])}
        for j, st in enumerate(case["steps"]):
            sc = self.astep_case(case, st)
            vals = {}
            for key in self.REF_KEYS:
                a = st.get(key)
                if not self.is_ref(a):
                    continue
                if a[0] == "R":
                    o = objs[a[1]]
                    if key in ("x", "u") and not (isinstance(o, np.ndarray) and o.ndim == 1 and o.dtype == float):
                        continue        # dynamics / output take 1-D float arrays: given by value
                    vals[key] = o
                elif live[a[1]] is not None:
                    vals[key] = getattr(live[a[1]], field[a[2]])
            raw = None
            try:
                raw = self._invoke(sc, sys, vals)
                rets.append(self._extract(sc, sys, raw))
            except Exception as e:  # noqa
                raw = None
                rets.append(err(e))
            live.append(raw)
            if changed is None:
                for name in sorted(owners):
                    now = self.pool_snap(owners[name])
                    if now != snap0[name]:
                        changed = {"after": j, "name": name, "was": snap0[name], "now": now}
                        break
        ends = []
        for j, st in enumerate(case["steps"]):
            if live[j] is None:
                ends.append(rets[j])
                continue
            try:
                ends.append(self._extract(self.astep_case(case, st), sys, live[j]))
            except Exception as e:  # noqa
                ends.append(err(e))
        return {"steps": rets, "end": ends, "pool_changed": changed}

    def compare_ahist(self, case, impl, model):
        steps = case["steps"]
        names = {"A": "float ndarray", "AC": "float column ndarray (k, 1)", "AV": "strided view of a larger float ndarray",
                 "AI": "integer ndarray", "L": "Python list", "A2": "float (m, N) ndarray"}

        def role(j, name):
            return "+".join(sorted(k for k in self.REF_KEYS if self.is_ref(steps[j].get(k)) and steps[j][k][0] == "R"
                                   and steps[j][k][1] == name)) or "not-passed"

        def sharing():
            ks = set()
            for st in steps:
                for k in self.REF_KEYS:
                    if self.is_ref(st.get(k)):
                        ks.add("warm-start" if st[k][0] == "W" else "pool:" + case["pool"][st[k][1]][0])
            return "+".join(sorted(ks)) or "by-value"
        for j, st in enumerate(steps):
            v = self.compare(self.astep_case(case, st), impl["steps"][j], model["steps"][j])
            if v.status != AGREE:
                feat = dict(v.features or {})
                feat.update({"op": "ahist", "call": st["kind"], "history": "after-calls" if j else "first-call"})
                # diagnosis of one mechanism that lives in SciPy (MINPACK hybr): started from a warm-start
                # guess whose non-zero entries are of subnormal-like size (left-overs such as 1e-31 of an
                # earlier solve), the forward-difference steps are relative to |x|, the estimated Jacobian
                # vanishes and `root` reports convergence AT the guess with a residual of order one.
                # Recognised only when the returned states are bit-for-bit the warm-start guess, the guess
                # has a non-zero entry below 1e-20 and none above it; anything else stays a plain violation.
                if st["kind"] == "op" and str(feat.get("kind", "")).startswith("op-") and \
                        self.is_ref(st.get("X0")) and st["X0"][0] == "W":
                    src = impl["steps"][st["X0"][1]].get("ok", {})
                    got = impl["steps"][j].get("ok", {})
                    gx = [abs(Fraction(q)) for q in src.get("x", [])]
                    if gx and src.get("x") == got.get("x") and any(0 < q < Fraction(1, 10 ** 20) for q in gx) \
                            and all(q < Fraction(1, 10 ** 20) for q in gx):
                        feat["cause"] = "root-stalls-at-tiny-warm-start"
                return Verdict(v.status, "call %d of %d (%s, after %s): %s" % (
                    j + 1, len(steps), st["kind"], ", ".join(b["kind"] for b in steps[:j]) or "no other call",
                    v.detail), feat)
        ch = impl.get("pool_changed")
        if ch:
            j, name = ch["after"], ch["name"]
            cont = case["pool"][name][0]
            return Verdict(VIOLATES, "call %d of %d (%s) changed an array of the caller: the %s given as %s held %s "
                           "before the call and holds %s after it (every call returned what was requested)" % (
                               j + 1, len(steps), steps[j]["kind"], names[cont], role(j, name), ch["was"][2], ch["now"][2]),
                           {"kind": "argument-mutated", "op": "ahist", "call": steps[j]["kind"], "arg": role(j, name),
                            "container": cont})
        for j, st in enumerate(steps):
            a, b = impl["steps"][j], impl["end"][j]
            if a == b:
                continue
            fld = "raises" if "err" in b else next((k for k in sorted(a.get("ok", {})) if a["ok"][k] != b["ok"].get(k)), "?")
            was = a.get("ok", {}).get(fld)
            now = b.get("ok", {}).get(fld) if "ok" in b else b.get("exc")
            return Verdict(VIOLATES, "the result of call %d of %d (%s) was right when the call returned and reads "
                           "differently after the later call(s) %s: %s was %s, now %s" % (
                               j + 1, len(steps), st["kind"], ", ".join(b2["kind"] for b2 in steps[j + 1:]), fld, was, now),
                           {"kind": "result-changed-later", "op": "ahist", "call": st["kind"], "field": fld,
                            "sharing": sharing()})
        return Verdict(AGREE)

    def shrink_ahist(self, case):
        st = case["steps"]
        refs_to = lambda j: any(self.is_ref(x.get(k)) and x[k][0] == "W" and x[k][1] == j
                                for x in st for k in self.REF_KEYS)
        for j in reversed(range(len(st))):
            if len(st) > 1 and not refs_to(j):
                c = dict(case)
                new = []
                for i, x in enumerate(st):
                    if i == j:
                        continue
                    x = dict(x)
                    for k in self.REF_KEYS:
                        if self.is_ref(x.get(k)) and x[k][0] == "W" and x[k][1] > j:
                            x[k] = ["W", x[k][1] - 1] + list(x[k][2:])
                    new.append(x)
                c["steps"] = new
                yield c
        for j, x in enumerate(st):          # a reference replaced by the value
            for k in self.REF_KEYS:
                if self.is_ref(x.get(k)):
                    c = dict(case)
                    c["steps"] = [dict(y) for y in st]
                    c["steps"][j][k] = self.astep_case(case, x)[k]
                    yield c
        used = {x[k][1] for x in st for k in self.REF_KEYS if self.is_ref(x.get(k)) and x[k][0] == "R"}
        if set(case["pool"]) - used:
            c = dict(case)
            c["pool"] = {k: v for k, v in case["pool"].items() if k in used}
            yield c

    def extra3(self, rng, tier):
        n = 160 if tier == "quick" else 2400
        out = []
        for _ in range(n):
            try:
                out.append(self.case_ahist(rng, tier))
            except RecursionError:
                continue
        return out
    # ==== round 3 (C08-m7) END ====

    def extra2(self, rng, tier):
        n = 240 if tier == "quick" else 3600
        out = []
        for i in range(n):
            r = i % 12
            try:
                if r < 6:
                    out.append(self.case_hist(rng, tier))
                elif r < 10:
                    out.append(self.case_lin_forms(rng, tier))
                else:
                    out.append(self.case_resp_forms(rng, tier))
            except RecursionError:
                continue
        return out

    def extra(self, rng, tier):
        n = 288 if tier == "quick" else 7200
        out = []
        for i in range(n):
            r = i % 24
            try:
                if r < 3:
                    out.append(self.case_cresp(rng, tier))
                elif r < 11:
                    out.append(self.case_resp_scaled(rng, tier))
                elif r < 13:
                    out.append(self.case_resp_static(rng, tier))
                elif r < 15:
                    out.append(self.case_resp_tscale(rng, tier))
                elif r < 19:
                    out.append(self.case_lin_eps(rng, tier))
                elif r < 22:
                    out.append(self.case_op_general(rng, tier, ["N", "N", "N", "D1", "T", "C"]))
                else:
                    out.append(self.case_op(rng, tier, dts=["N"]))
            except RecursionError:
                continue
        return out

    def generate(self, rng, tier):
        # the original streams first (same cases per seed as before), then the added input classes
        return self.generate0(rng, tier) + self.extra(rng, tier) + self.extra2(rng, tier) + \
            self.extra3(rng, tier)       # round 3: appended, the earlier streams are unchanged per seed

    def generate0(self, rng, tier):
        n = 720 if tier == "quick" else 18000
        out = []
        for i in range(n):
            r = i % 12
            try:
                if r < 6:
                    out.append(self.case_resp(rng, tier))
                elif r < 8:
                    out.append(self.case_lin(rng, tier))
                elif r < 10:
                    out.append(self.case_op(rng, tier))
                else:
                    out.append(self.case_shape(rng, tier))
            except RecursionError:
                continue
        return out

    def corpus(self):
        P = lambda n, m, p, fs, hs, dt="D1": ["P", n, m, p, dt, {}, fs, hs]
        x = lambda i: [["1", [["x%d" % i, 1]]]]
        u = lambda i: [["1", [["u%d" % i, 1]]]]
        g23 = P(2, 2, 3, [x(0) + u(0) + u(1), [["1", [["x0", 1], ["x1", 1]]]]], [x(0), x(1), u(0)])
        lag = P(1, 1, 1, [x(0) + u(0)], [x(0)])
        full = lambda v: ["L", [["s", str(a)] for a in v]]
        lvl = lambda a, k=40: tok(Fraction(a, 2 ** k))
        gain5 = P(0, 1, 1, [], [[["5", [["u0", 1]]]]])
        lagc = P(1, 1, 1, [[["-1", [["x0", 1]]], ["1", [["u0", 1]]]]], [x(0)], "C")
        gain5c = P(0, 1, 1, [], [[["5", [["u0", 1]]]]], "C")
        return [
            # np.ones((2,3)) * nl  (the __rmul__ connection map)
            {"kind": "shape", "sys": ["mul", ["A", 2, 3, ["1"] * 6, "float"], g23]},
            {"kind": "resp", "sys": ["mul", ["A", 2, 3, ["1"] * 6, "float"], g23], "T": ["0", "1", "2", "3"],
             "teval": None, "U": ["A2", 2, 4, ["1", "0", "2", "-1", "0", "1", "1", "0"]], "X0": full([1]),
             "params": {}},
            # time-varying input, short initial state
            {"kind": "resp", "sys": ["mul", lag, lag], "T": ["0", "1", "2", "3", "4"], "teval": None,
             "U": ["A1", ["1", "-2", "3", "0", "1"]], "X0": full([2]), "params": {}},
            # requested update without index lists
            {"kind": "op", "sys": ["L", 2, 1, 1, "C", ["0", "1", "-2", "-3"], ["0", "1"], ["1", "0"], ["0"]],
             "t": "0", "X0": full([0, 0]), "U0": full([1]), "Y0": ["N"], "dx0": ["1", "0"],
             "iu": None, "iy": None, "ix": None, "idx": None, "params": {}},
            # series connection at the signal level 2^-40 (an absolute threshold in the loop test of
            # _compute_static_io drops the coupling)
            {"kind": "resp", "sys": ["mul", gain5, lag], "T": ["0", "1", "2", "3"], "teval": None,
             "U": ["A1", [lvl(1), lvl(-2), lvl(3), "0"]], "X0": ["L", [["s", lvl(2)]]], "params": {},
             "scale": 40},
            # the same in a loop, continuous time, level 2^-34, unequally spaced time points
            {"kind": "cresp", "sys": ["fb", "-1", "method", lagc, gain5c], "T": ["0", "1/2", "1", "2"],
             "teval": None, "U": ["A1", [lvl(1, 34), lvl(2, 34), lvl(-1, 34), lvl(1, 34)]],
             "X0": ["L", [["s", lvl(1, 34)]]], "params": {}, "scale": 34, "method": "RK45"},
            # linearisation at the origin with step 2^-40
            {"kind": "lin", "sys": ["mul", gain5, lag], "t": "0", "X0": full([0]), "U0": full([0]),
             "via": "method", "params": {}, "eps": lvl(1)},
            # unspecified timebase (simulated as continuous time): the condition is f = 0 in the
            # index-list branch as well
            {"kind": "op", "sys": P(1, 1, 1, [[["-2", [["x0", 1]]], ["1", [["u0", 1]]]]], [x(0)], "N"),
             "t": "0", "X0": full([0]), "U0": full([1]), "Y0": ["N"], "dx0": None,
             "iu": [0], "iy": None, "ix": None, "idx": None, "params": {}},
            {"kind": "op", "sys": ["mul", ["S", "2", "int"], P(1, 1, 1, [[["-2", [["x0", 1]]], ["1", [["u0", 1]]]]], [x(0)], "N")],
             "t": "0", "X0": full([0]), "U0": full([1]), "Y0": full([3]), "dx0": None,
             "iu": None, "iy": [0], "ix": None, "idx": [0], "params": {}},
            # call history: a loop around a plant whose callable reads params.get('a', 1/2) (nothing
            # declared anywhere); the loop, the plant alone with an override, the loop again
            {"kind": "hist", "eager": True,
             "sys": ["fb", "-1", "method",
                     ["P", 2, 1, 1, "D1", {}, [[["1", [["pa", 1], ["x0", 1]]], ["1", [["x1", 1]]]],
                                                [["-1/2", [["x0", 1]]], ["1", [["u0", 1]]]]], [x(0)], {"a": "1/2"}],
                     gain5],
             "steps": [{"kind": "resp", "path": [], "T": ["0", "1", "2", "3"], "teval": None,
                        "U": ["A1", ["1", "-1", "2", "0"]], "X0": full([1, -2]), "params": {}},
                       {"kind": "dyn", "path": [3], "t": "0", "x": ["1", "0"], "u": ["0"], "via": "method",
                        "params": {"a": "4"}},
                       {"kind": "resp", "path": [], "T": ["0", "1", "2", "3"], "teval": None,
                        "U": ["A1", ["1", "-1", "2", "0"]], "X0": full([1, -2]), "params": {}},
                       {"kind": "lin", "path": [], "t": "0", "X0": full([0, 0]), "U0": full([0]), "via": "func",
                        "params": {}}]},
            # the same objects, the override given to the interconnection, then none
            {"kind": "hist", "eager": False,
             "sys": ["mul", ["S", "3", "float"],
                     ["P", 1, 1, 1, "D1", {}, [[["1", [["pk", 1], ["x0", 1]]], ["1", [["u0", 1]]]]], [x(0)], {"k": "2"}]],
             "steps": [{"kind": "out", "path": [2], "t": "0", "x": ["1"], "u": ["0"], "via": "method", "params": {}},
                       {"kind": "dyn", "path": [], "t": "0", "x": ["1"], "u": ["1"], "via": "method",
                        "params": {"k": "5"}},
                       {"kind": "dyn", "path": [], "t": "0", "x": ["1"], "u": ["1"], "via": "method", "params": {}}]},
            # linearize(op) through the method with the input omitted: at (op.states, op.inputs)
            {"kind": "lin", "sys": P(1, 1, 1, [[["-1", [["x0", 2]]], ["1", [["u0", 1], ["x0", 1]]]]],
                                     [[["1", [["u0", 1], ["x0", 1]]]]], "C"),
             "t": "0", "X0": ["A", ["1"]], "op": {"inputs": ["A", ["2"]], "outputs": False}, "U0": ["N"],
             "uform": "omit", "tform": "omit", "via": "method", "params": {}},
            {"kind": "lin", "sys": ["fb", "-1", "method",
                                    P(1, 1, 1, [[["-1", [["x0", 1]]], ["1", [["u0", 2]]]]], [x(0)], "D1"), gain5],
             "t": "0", "X0": ["L", [["s", "1"]]], "op": {"inputs": ["L", [["s", "3"]]], "outputs": True},
             "U0": ["N"], "uform": "omit", "tform": "kw", "via": "method", "params": {}},
        ] + self.corpus3()

    def corpus3(self):
        """(round 3) a scheduling loop: the index-list form of find_operating_point three times with the
        same two float arrays as initial guesses and output levels 1, 2, 3; the same with a warm start
        from the arrays of the previous OperatingPoint; simulation / linearisation on shared arrays"""
        P = lambda n, m, p, fs, hs, dt="C": ["P", n, m, p, dt, {}, fs, hs]
        tank = P(1, 1, 1, [[["-2", [["x0", 1]]], ["1", [["u0", 1]]]]], [[["1", [["x0", 1]]]]])
        lagd = P(1, 1, 1, [[["1/2", [["x0", 1]]], ["1", [["u0", 1]]]]], [[["1", [["x0", 1]]]]], "D1")
        op = lambda y, X0, U0: {"kind": "op", "t": "0", "X0": X0, "U0": U0, "Y0": ["L", [["s", y]]], "dx0": None,
                                "iu": None, "iy": [0], "ix": None, "idx": None, "params": {}}
        return [
            {"kind": "ahist", "sys": tank, "pool": {"x": ["A", ["1/2"]], "u": ["A", ["1/2"]]},
             "steps": [op(y, ["R", "x"], ["R", "u"]) for y in ("1", "2", "3")]},
            {"kind": "ahist", "sys": tank, "pool": {"x": ["A", ["1/2"]], "u": ["AV", ["1/2"]]},
             "steps": [op("1", ["R", "x"], ["R", "u"]),
                       op("2", ["W", 0, "x", ["A", ["1/2"]]], ["W", 0, "u", ["A", ["1/2"]]]),
                       op("3", ["W", 1, "x", ["A", ["1/2"]]], ["W", 1, "u", ["A", ["1/2"]]])]},
            {"kind": "ahist", "sys": lagd,
             "pool": {"x": ["A", ["2"]], "u": ["A", ["1"]], "U": ["A2", 1, 4, ["1", "-1", "2", "0"]]},
             "steps": [{"kind": "resp", "T": ["0", "1", "2", "3"], "teval": None, "U": ["R", "U"], "X0": ["R", "x"],
                        "params": {}},
                       {"kind": "op", "t": "0", "X0": ["R", "x"], "U0": ["R", "u"], "Y0": ["N"], "dx0": None,
                        "iu": [0], "iy": None, "ix": None, "idx": None, "params": {}},
                       {"kind": "lin", "t": "0", "X0": ["R", "x"], "U0": ["R", "u"], "via": "method", "params": {}},
                       {"kind": "resp", "T": ["0", "1", "2", "3"], "teval": None, "U": ["R", "U"], "X0": ["R", "x"],
                        "params": {}}]},
            # thorough seed 10: a warm start from rounding left-overs (known finding C08-root-stalls-at-tiny-warm-start)
            json.loads('{"kind": "ahist", "sys": ["P", 2, 2, 2, "C", {}, [[["-2", [["x0", 1]]]], [["-1", [["x0", 1]]]]], [[["1", [["x1", 1]]], ["2", [["x0", 1]]], ["3", [["u0", 1]]]], [["3", [["u0", 1]]]]]], "pool": {"x": ["A", ["2", "-3"]], "u": ["AI", ["-1", "-2"]], "y": ["L", ["3", "-2"]]}, "steps": [{"kind": "op", "t": "1", "X0": ["R", "x"], "U0": ["R", "u"], "iu": [0, 1], "iy": [0], "ix": null, "idx": [0], "params": {}, "Y0": ["L", [["s", "-3"], ["s", "1"]]], "dx0": null}, {"kind": "op", "t": "0", "X0": ["W", 0, "x", ["A", ["2", "-3"]]], "U0": ["R", "u"], "iu": [0, 1], "iy": [0], "ix": null, "idx": [0], "params": {}, "Y0": ["R", "y"], "dx0": null}]}'),
        ]

    # ---- execution ----------------------------------------------------------
    @staticmethod
    def step_case(case, st):
        """one call of a history as a case of its own (on the sub-tree the call is made on)"""
        c = {k: v for k, v in st.items() if k != "path"}
        c["sys"] = subtree(case["sys"], st["path"])
        return c

    def line(self, case):
        k = case["kind"]
        if k == "hist":
            # the model has no state: every call is answered from the sub-tree and the arguments alone
            # (theorems update_params_history / call_history / update_params_functional)
            return [self.line(self.step_case(case, st)) for st in case["steps"]]
        if k == "ahist":     # (round 3) values only: theorems op_history_frame / op_results_stable
            return [self.line(self.astep_case(case, st)) for st in case["steps"]]
        prog = flatten(case["sys"]) + " ;"
        if k == "shape":
            return "io shape " + prog
        if k == "resp":
            te = "0" if case["teval"] is None else "1 " + rats_tokens(case["teval"])
            return " ".join(["io resp", prog, rats_tokens(case["T"]), te, uarg_tokens(case["U"]),
                             varg_tokens(case["X0"]), env_tokens(case["params"])])
        if k == "cresp":
            # the composite's (A, B, C, D): forward differences with step 1 at the origin
            return " ".join(["io lin", prog, "0 S 0 S 0 1", env_tokens(case["params"])])
        if k in ("dyn", "out"):
            return " ".join(["io " + k, prog, case["t"], rats_tokens(case["x"]), rats_tokens(case["u"]),
                             env_tokens(case["params"])])
        if k == "lin" and "uform" in case:
            # the argument forms are resolved by the model (`linPoint`)
            X = ("O " + varg_tokens(case["X0"]) + " " + varg_tokens(case["op"]["inputs"])) if "op" in case \
                else "V " + varg_tokens(case["X0"])
            return " ".join(["io linp", prog, case["t"], X, varg_tokens(case["U0"]),
                             case.get("eps") or "1/1000000", env_tokens(case["params"])])
        if k == "lin":
            return " ".join(["io lin", prog, case["t"], varg_tokens(case["X0"]),
                             varg_tokens(case["U0"]) if case["U0"][0] != "N" else "S 0",
                             case.get("eps") or "1/1000000", env_tokens(case["params"])])
        if k == "op":
            dx0 = "0" if case["dx0"] is None else "1 " + rats_tokens(case["dx0"])
            return " ".join(["io op", prog, case["t"], varg_tokens(case["X0"]), varg_tokens(case["U0"]),
                             varg_tokens(case["Y0"]), dx0, opt_ints(case["iu"]), opt_ints(case["iy"]),
                             opt_ints(case["ix"]), opt_ints(case["idx"]), env_tokens(case["params"])])
        raise ValueError(k)

    def impl(self, case):
        try:
            return self._impl(case)
        except Exception as e:  # noqa
            return {"err": classify_exc(e), "exc": "%s: %s" % (type(e).__name__, str(e)[:200])}

    def _impl(self, case):
        k = case["kind"]
        if k == "hist":
            objs = Objs(case["sys"])
            if case.get("eager"):
                try:
                    objs.get(())
                except Exception:  # noqa  (the calls below report it)
                    pass
            res = []
            for st in case["steps"]:
                try:
                    res.append(self._impl1(self.step_case(case, st), objs.get(st["path"])))
                except Exception as e:  # noqa
                    res.append({"err": classify_exc(e), "exc": "%s: %s" % (type(e).__name__, str(e)[:200])})
            return {"steps": res}
        if k == "ahist":     # (round 3)
            return self._impl_ahist(case)
        return self._impl1(case, build(case["sys"]))

    def _impl1(self, case, sys):
        return self._extract(case, sys, self._invoke(case, sys))

    # (round 3) `_impl1` in two halves: `_invoke` makes the call and returns the live object the
    # library handed back, `_extract` reads it into the canonical form.  `vals` replaces argument
    # values computed from the case by objects the caller owns (shared between calls).
    def _invoke(self, case, sys, vals=None):
        vals = vals or {}
        arg = lambda nm, f: vals[nm] if nm in vals else f(case[nm])
        k = case["kind"]
        prm = {a: float(Fraction(v)) for a, v in case.get("params", {}).items()} or None
        if k == "shape":
            return sys
        if k == "resp":
            T = np.array([float(Fraction(x)) for x in case["T"]])
            kw = {}
            if case["teval"] is not None:
                kw["t_eval"] = np.array([float(Fraction(x)) for x in case["teval"]])
            if "forms" in case:
                fm = case["forms"]
                args = [sys]
                for nm, val in (("T", T), ("U", arg("U", uarg_value)), ("X0", arg("X0", varg_value))):
                    if fm[nm] == "pos":
                        args.append(val)
                    elif fm[nm] != "omit":
                        kw[fm[nm]] = val
                if "t_eval" in kw:
                    kw[fm["te"]] = kw.pop("t_eval")
                return ct.input_output_response(*args, params=prm, squeeze=False, **kw)
            return ct.input_output_response(sys, T, arg("U", uarg_value), arg("X0", varg_value),
                                            params=prm, squeeze=False, **kw)
        if k == "cresp":
            T = np.array([float(Fraction(x)) for x in case["T"]])
            kw = {}
            if case["teval"] is not None:
                kw["t_eval"] = np.array([float(Fraction(x)) for x in case["teval"]])
            # absolute tolerance at the level of the signals (a power-of-two multiple of 1e-12)
            opts = {"rtol": 1e-10, "atol": 1e-13 * 2.0 ** -case["scale"], "method": case["method"]}
            return ct.input_output_response(sys, T, uarg_value(case["U"]), varg_value(case["X0"]),
                                            params=prm, squeeze=False, solve_ivp_kwargs=opts, **kw)
        if k == "lin":
            x0, u0 = arg("X0", varg_value), arg("U0", varg_value)
            t = float(Fraction(case["t"]))
            kw = {"eps": float(Fraction(case["eps"]))} if case.get("eps") else {}
            if "uform" in case:
                if "op" in case:
                    ui = varg_value(case["op"]["inputs"])
                    x0 = ct.OperatingPoint(x0, ui, outputs=np.zeros(sys.noutputs)) if case["op"]["outputs"] \
                        else ct.OperatingPoint(x0, ui)
                kw["params"] = prm
                if case.get("tform") != "omit":
                    kw["t"] = t
                args = [x0]
                if case["uform"] == "pos":
                    args.append(u0)
                elif case["uform"] == "kw":
                    kw["ueq" if case["via"] == "func" else "u0"] = u0
                return ct.linearize(sys, *args, **kw) if case["via"] == "func" else sys.linearize(*args, **kw)
            if case["via"] == "func":
                return ct.linearize(sys, x0, u0, t=t, params=prm, **kw)
            return sys.linearize(x0, u0, t=t, params=prm, **kw)
        if k in ("dyn", "out"):
            t = float(Fraction(case["t"]))
            x = arg("x", lambda l: np.array([float(Fraction(v)) for v in l]))
            u = arg("u", lambda l: np.array([float(Fraction(v)) for v in l]))
            if k == "dyn":
                return sys.dynamics(t, x, u, params=prm)
            if case.get("via") == "call":
                return sys(u, params=prm, squeeze=False)
            return sys.output(t, x, u, params=prm)
        if k == "op":
            kw = {}
            for nm, key in (("iu", "input_indices"), ("iy", "output_indices"), ("ix", "state_indices"),
                            ("idx", "deriv_indices")):
                if case[nm] is not None:
                    kw[key] = list(case[nm])
            if case["dx0"] is not None:
                kw["derivs"] = arg("dx0", lambda l: [float(Fraction(x)) for x in l])
            return ct.find_operating_point(sys, arg("X0", varg_value), arg("U0", varg_value),
                                           arg("Y0", varg_value), t=float(Fraction(case["t"])), params=prm,
                                           return_result=True, **kw)
        raise ValueError(k)

    def _extract(self, case, sys, raw):
        k = case["kind"]
        if k == "shape":
            return {"ok": {"n": sys.nstates, "m": sys.ninputs, "p": sys.noutputs,
                           "dt": exact.dt_canon(sys.dt), "type": type(sys).__name__}}
        if k == "resp":
            resp = raw
            N = len(resp.time)
            n, m, p = sys.nstates, sys.ninputs, sys.noutputs
            try:
                xs = [] if (n == 0 or resp.states is None) else flat_f(np.asarray(resp.states).T, N, n)
                return {"ok": {"N": N, "n": n, "m": m, "p": p,
                               "t": [tok(fr(x)) for x in resp.time],
                               "x": xs, "u": flat_f(np.asarray(resp.inputs).T, N, m),
                               "y": flat_f(np.asarray(resp.outputs).T, N, p)}}
            except ValueError:
                return {"ok": {"nonfinite": True}}
        if k == "cresp":
            resp = raw
            N = len(resp.time)
            n, m, p = sys.nstates, sys.ninputs, sys.noutputs
            try:
                return {"ok": {"N": N, "n": n, "m": m, "p": p,
                               "t": [tok(fr(x)) for x in resp.time],
                               "x": flat_f(np.asarray(resp.states).T, N, n),
                               "u": flat_f(np.asarray(resp.inputs).T, N, m),
                               "y": flat_f(np.asarray(resp.outputs).T, N, p)}}
            except ValueError:
                return {"ok": {"nonfinite": True}}
        if k == "lin":
            lin = raw
            n, m, p = lin.nstates, lin.ninputs, lin.noutputs
            return {"ok": {"n": n, "m": m, "p": p, "dt": exact.dt_canon(lin.dt),
                           "A": flat_f(lin.A, n, n), "B": flat_f(lin.B, n, m),
                           "C": flat_f(lin.C, p, n), "D": flat_f(lin.D, p, m)}}
        if k in ("dyn", "out"):
            return {"ok": {"v": [tok(fr(q)) for q in np.asarray(raw, dtype=float).reshape(-1)]}}
        if k == "op":
            op = raw
            fl = lambda v: [tok(fr(x)) for x in np.asarray(v, dtype=float).reshape(-1)]
            return {"ok": {"success": bool(op.result.success), "x": fl(op.states), "u": fl(op.inputs),
                           "y": fl(op.outputs)}}
        raise ValueError(k)

    def parse_model(self, case, out):
        if case["kind"] == "hist":
            outs = out if isinstance(out, list) else [out]
            return {"steps": [self.parse_model(self.step_case(case, st), o)
                              for st, o in zip(case["steps"], outs)]}
        if case["kind"] == "ahist":     # (round 3)
            outs = out if isinstance(out, list) else [out]
            return {"steps": [self.parse_model(self.astep_case(case, st), o)
                              for st, o in zip(case["steps"], outs)]}
        if out.startswith("err "):
            return {"err": out.split()[1]}
        tk = Tokens(out)
        assert tk.next() == "ok"
        k = case["kind"]
        if k == "shape":
            return {"ok": {"n": tk.nat(), "m": tk.nat(), "p": tk.nat(), "dt": tk.next()}}
        if k == "resp":
            head = tk.next()
            if head == "overflow":      # values beyond 2^3000 on a prefix of the evaluation times
                return {"ok": {"N": 0, "n": 0, "m": 0, "p": 0, "x": [], "u": [], "y": []},
                        "bits": int(tk.next()), "overflow": True}
            bits = int(head.split("=")[1])
            N, n, m, p = tk.nat(), tk.nat(), tk.nat(), tk.nat()
            rd = lambda c: [tk.next() for _ in range(c)]
            ok = {"N": N, "n": n, "m": m, "p": p, "x": rd(N * n), "u": rd(N * m), "y": rd(N * p)}
            if case.get("scale"):
                # signals at the level 2^-s: everything below is decided on the values times 2^s
                ok = self.unscaled(case, ok)
                bits = max([0] + [max(abs(q.numerator).bit_length(), q.denominator.bit_length())
                                  for key in "xuy" for q in map(Fraction, ok[key])])
            return {"ok": ok, "bits": bits}
        if k in ("lin", "cresp"):
            o = {}
            for nm in "ABCD":
                r, c = tk.nat(), tk.nat()
                o[nm] = [tk.next() for _ in range(r * c)]
                o["shape" + nm] = [r, c]
            return {"ok": o}
        if k in ("dyn", "out"):
            return {"ok": {"v": out.split()[1:]}}
        if k == "op":
            what = tk.next()
            if what != "sol":
                return {"ok": {"what": what}}
            p, n, m, _ = self.model_shape(case["sys"])
            rd = lambda c: [tk.next() for _ in range(c)]
            return {"ok": {"what": "sol", "x": rd(n), "u": rd(m), "y": rd(p)}}
        raise ValueError(k)

    def absorbing(self, case):
        """cases in which the signals of a loop with direct terms differ by many orders of magnitude
        (time values 2^-30 multiplying signals; a step eps through maps of degree 2): the exact
        iteration of _compute_static_io keeps changing by amounts far below one unit in the last
        place, so in binary64 the loop test `ulist == new_ulist` succeeds where the exact one fails"""
        homog = all(self.homogeneous(lf) for lf in leaves(case["sys"]))
        if case.get("tscale") and uses_time(case["sys"]):
            return True
        if case["kind"] == "lin" and case.get("eps") and not homog:
            return True
        return False

    def unscaled(self, case, d):
        """trajectory values times 2^scale (exact)"""
        k = case.get("scale", 0)
        if not k or "x" not in d:
            return d
        f = Fraction(2) ** k
        out = dict(d)
        for key in "xuy":
            out[key] = [tok(Fraction(v) * f) for v in d[key]]
        return out

    def features(self, case, kind, impl):
        feat = {"kind": kind, "op": case["kind"]}
        if "err" in impl:
            feat["exc"] = impl["exc"].split(":")[0]
            feat["msg"] = re.sub(r"[0-9]+", "#", impl["exc"].split(":", 1)[1].strip())[:60]
        feat["ops"] = "+".join(sorted(set(ops_in(case["sys"])))) or "leaf"
        if case.get("scale"):
            feat["scaled"] = True
        if "uform" in case:
            feat["point"] = "OperatingPoint" if "op" in case else "state"
            feat["input"] = ("None-" if case["U0"][0] == "N" else "") + case["uform"]
            feat["route"] = case["via"]
        if "forms" in case:
            feat["forms"] = "+".join("%s:%s" % kv for kv in sorted(case["forms"].items()))
        return feat

    def compare_hist(self, case, impl, model):
        steps = case["steps"]
        for j, st in enumerate(steps):
            sc = self.step_case(case, st)
            v = self.compare(sc, impl["steps"][j], model["steps"][j])
            if v.status == AGREE:
                continue
            before = steps[:j]
            feat = dict(v.features or {})
            feat["op"] = "hist"
            feat["call"] = st["kind"]
            feat["history"] = ("after-override" if any(b["params"] for b in before) else
                               "after-calls" if before else "first-call")
            feat["params"] = bool(st["params"])
            what = "call %d of %d (%s%s on the object at %s of the tree, after %s): " % (
                j + 1, len(steps), st["kind"], " with params" if st["params"] else " without params",
                st["path"] or "the root",
                ", ".join("%s%s at %s" % (b["kind"], " with params %s" % b["params"] if b["params"] else "",
                                          b["path"] or "root") for b in before) or "no other call")
            return Verdict(v.status, what + v.detail, feat)
        return Verdict(AGREE)

    def compare(self, case, impl, model):
        k = case["kind"]
        if k == "hist":
            return self.compare_hist(case, impl, model)
        if k == "ahist":     # (round 3)
            return self.compare_ahist(case, impl, model)
        if k == "op" and "ok" in model and model["ok"]["what"] != "sol":
            return Verdict(AGREE)      # singular / non-square root problem: nothing is claimed
        if k == "op" and model.get("err") == "illPosed":
            # whether the loop iteration of an interconnection settles depends on the point at which
            # the maps are evaluated; the root finder and the model probe different points
            return Verdict(AGREE)
        if k == "cresp":
            return self.compare_cresp(case, impl, model)
        if k == "resp" and model.get("bits", 0) > 200:
            return Verdict(AGREE)      # overflow guard: values beyond what binary64 carries
        if "err" in model:
            if "err" in impl:
                if impl["err"] == model["err"]:
                    return Verdict(AGREE)
                if k == "op" and {impl["err"], model["err"]} == {"indexRange", "illPosed"}:
                    return Verdict(AGREE)   # which of the two failures is met first depends on the probe point
                return Verdict(DIFFERS, "both raise, kinds differ: model %s, implementation %s"
                               % (model["err"], impl["exc"]), self.features(case, "errkind", impl))
            if model["err"] == "illPosed" and self.absorbing(case):
                return Verdict(AGREE)
            return Verdict(VIOLATES, "the implementation returns where the model raises %s" % model["err"],
                           self.features(case, "returns-" + model["err"], impl))
        if "err" in impl:
            if k == "op" and impl["err"] == "illPosed" and ops_in(case["sys"]):
                # scipy's root finder probes points of its own choosing, NaN among them once it sits on
                # an exact root (0/0 in its step computation: thorough seed 3); at a NaN the loop test of
                # _compute_static_io can never succeed.  The exception is a reported failure, not a
                # wrong operating point; loop detection itself is checked by the resp/lin/dyn/out cases
                return Verdict(AGREE)
            if impl["err"] == "illPosed" and "fb" in ops_in(case["sys"]) and (
                    k == "lin" or (k == "resp" and not self.exact_regime(case, model))
                    or (k in ("dyn", "out") and "div" in ops_in(case["sys"]))):
                # the loop test `ulist == new_ulist` is an exact float comparison: on non-dyadic data
                # (eps = 1e-6 perturbations, 0.1 grids) a loop whose gains cancel exactly is reported
                return Verdict(AGREE)
            return Verdict(VIOLATES, "implementation raises %s where the result exists" % impl["exc"],
                           self.features(case, "raises", impl))
        a, b = impl["ok"], model["ok"]
        if k == "resp":
            a = self.unscaled(case, a)
        if k == "shape":
            if (a["n"], a["m"], a["p"]) != (b["n"], b["m"], b["p"]):
                return Verdict(VIOLATES, "sizes (n,m,p) %s vs model %s" % (
                    (a["n"], a["m"], a["p"]), (b["n"], b["m"], b["p"])), self.features(case, "shape", impl))
            if a["dt"] != b["dt"]:
                return Verdict(DIFFERS, "timebase %s vs model %s (decided by C05)" % (a["dt"], b["dt"]),
                               self.features(case, "dt", impl))
            return Verdict(AGREE)
        if k == "resp":
            if a.get("nonfinite"):
                if model.get("bits", 0) > 900:
                    return Verdict(AGREE)
                return Verdict(VIOLATES, "non-finite values in the response", self.features(case, "nonfinite", impl))
            if (a["N"], a["n"], a["m"], a["p"]) != (b["N"], b["n"], b["m"], b["p"]):
                return Verdict(VIOLATES, "response sizes (N,n,m,p) %s vs model %s" % (
                    (a["N"], a["n"], a["m"], a["p"]), (b["N"], b["n"], b["m"], b["p"])),
                    self.features(case, "sizes", impl))
            te = case["teval"] if case["teval"] is not None else case["T"]
            if a["t"] != list(te):
                return Verdict(VIOLATES, "returned time vector differs from the evaluation grid",
                               self.features(case, "time", impl))
            exact_regime = self.exact_regime(case, model)
            for nm, what in (("u", "inputs"), ("x", "states"), ("y", "outputs")):
                if a[nm] == b[nm]:
                    continue
                va = [Fraction(v) for v in a[nm]]
                vb = [Fraction(v) for v in b[nm]]
                if not exact_regime:
                    # rounding errors are relative to the largest intermediate (degree <= 2 terms)
                    M = max([Fraction(1)] + [abs(Fraction(v)) for key in "xuy" for v in b[key]])
                    if all(abs(p - q) <= TOL * M * M for p, q in zip(va, vb)):
                        continue
                j = next(i for i, (p, q) in enumerate(zip(va, vb)) if p != q)
                width = max(1, {"u": b["m"], "x": b["n"], "y": b["p"]}[nm])
                return Verdict(VIOLATES, "%s differ from the recursion x[k+1]=f(t_k,x[k],u[k]), y[k]=h(…) at "
                               "step %d component %d: implementation %s, exact %s%s" % (
                                   what, j // width, j % width, float(va[j]), float(vb[j]),
                                   " (signals at level 2^%d, values shown times 2^%d)" % (
                                       -case["scale"], case["scale"]) if case.get("scale") else ""),
                               self.features(case, "traj-" + nm, impl))
            return Verdict(AGREE)
        if k in ("dyn", "out"):
            va = [Fraction(v) for v in a["v"]]
            vb = [Fraction(v) for v in b["v"]]
            what = "dynamics" if k == "dyn" else "output"
            if len(va) != len(vb):
                return Verdict(VIOLATES, "%s() returns %d values, the map has %d" % (what, len(va), len(vb)),
                               self.features(case, k + "-shape", impl))
            M = max([Fraction(1)] + [abs(v) for v in vb] + [abs(Fraction(v)) for v in case["x"] + case["u"]])
            for j, (p, q) in enumerate(zip(va, vb)):
                if abs(p - q) > TOL * M * M:
                    return Verdict(VIOLATES, "%s(t, x, u%s) component %d: implementation %s, the map gives %s" % (
                        what, ", params=%s" % case["params"] if case["params"] else "", j, float(p), float(q)),
                        self.features(case, k + "-value", impl))
            return Verdict(AGREE)
        if k == "lin":
            for nm in "ABCD":
                va = [Fraction(v) for v in a[nm]]
                vb = [Fraction(v) for v in b[nm]]
                if len(va) != len(vb):
                    return Verdict(VIOLATES, "%s has %d entries, model %d" % (nm, len(va), len(vb)),
                                   self.features(case, "lin-shape", impl))
                scale = max([Fraction(1)] + [abs(v) for key in "ABCD" for v in map(Fraction, b[key])])
                for j, (p, q) in enumerate(zip(va, vb)):
                    if abs(p - q) > Fraction(1, 10 ** 5) * scale:
                        return Verdict(VIOLATES, "linearisation %s[%d]: implementation %s, forward difference "
                                       "of the maps %s" % (nm, j, float(p), float(q)),
                                       self.features(case, "lin-" + nm, impl))
            return Verdict(AGREE)
        if k == "op":
            if b["what"] != "sol":
                return Verdict(AGREE)          # singular / non-square root problem: nothing is claimed
            if not a["success"]:
                return Verdict(AGREE)          # failure is reported
            for nm, what in (("x", "states"), ("u", "inputs"), ("y", "outputs")):
                va = [Fraction(v) for v in a[nm]]
                vb = [Fraction(v) for v in b[nm]]
                scale = max([Fraction(1)] + [abs(v) for key in "xuy" for v in map(Fraction, b[key])])
                if len(va) != len(vb) or any(abs(p - q) > Fraction(1, 10 ** 6) * scale for p, q in zip(va, vb)):
                    return Verdict(VIOLATES, "operating point %s %s differ from the unique solution %s of the "
                                   "requested equations (success reported)" % (
                                       what, [float(v) for v in va], [float(v) for v in vb]),
                                   self.features(case, "op-" + nm + ("-dx0" if case["dx0"] is not None and all(
                                       case[q] is None for q in ("iu", "iy", "ix", "idx")) else ""), impl))
            return Verdict(AGREE)
        raise ValueError(k)

    # ---- continuous time ---------------------------------------------------------------------
    def reference(self, case, mats):
        """exact response of x' = A x + B u, y = C x + D u to the piecewise linear input through
        (T, U) at the evaluation times (matrix exponential of the augmented system per interval);
        inputs / initial state taken times 2^scale"""
        from scipy.linalg import expm
        f = Fraction(2) ** case["scale"]
        (n, _), (_, m) = mats["shapeA"], mats["shapeB"]
        p = mats["shapeC"][0]
        M = lambda nm, r, c: np.array([float(Fraction(v)) for v in mats[nm]]).reshape(r, c)
        A, B, C, D = M("A", n, n), M("B", n, m), M("C", p, n), M("D", p, m)
        T = [Fraction(x) for x in case["T"]]
        N = len(T)
        U = case["U"]
        un = lambda l: [float(Fraction(v) * f) for v in l]
        if U[0] == "S":
            Um = np.full((m, N), un([U[1]])[0])
        elif U[0] == "A1":
            Um = np.array(un(U[1])).reshape(1, N)
        else:
            Um = np.array(un(U[3])).reshape(U[1], U[2])
        X0 = case["X0"]
        if X0[0] == "S":
            x = np.full(n, un([X0[1]])[0])
        elif X0[0] == "A":
            x = np.array(un(X0[1]))
        else:
            x = np.array(un([e[1] for e in X0[1]]))
        if Um.shape != (m, N) or x.shape != (n,):
            return None
        te = [Fraction(v) for v in (case["teval"] if case["teval"] is not None else case["T"])]
        Z = np.zeros((n + 2 * m, n + 2 * m))
        Z[:n, :n], Z[:n, n:n + m], Z[n:n + m, n + m:] = A, B, np.eye(m)

        def uat(t, k):       # input on segment k (between T[k] and T[k+1])
            w = float((t - T[k]) / (T[k + 1] - T[k]))
            return Um[:, k] * (1 - w) + Um[:, k + 1] * w

        xs, us, ys = [], [], []
        tcur, seg = T[0], 0
        for t in te:
            while tcur < t:
                while seg < N - 2 and T[seg + 1] <= tcur:
                    seg += 1
                tnext = min(t, T[seg + 1])
                slope = (Um[:, seg + 1] - Um[:, seg]) / float(T[seg + 1] - T[seg])
                z = np.concatenate([x, uat(tcur, seg), slope])
                x = (expm(Z * float(tnext - tcur)) @ z)[:n]
                tcur = tnext
            k = min(max(sum(1 for v in T if v < t), 1), N - 1) - 1      # the segment ufun uses at t
            u = uat(t, k)
            xs.append(x)
            us.append(u)
            ys.append(C @ x + D @ u)
        return {"x": np.array(xs).reshape(-1), "u": np.array(us).reshape(-1), "y": np.array(ys).reshape(-1)}

    def compare_cresp(self, case, impl, model):
        if model.get("err") == "illPosed":
            return Verdict(AGREE)       # whether the loop iteration settles depends on the signal values
        if "err" in model:
            if "err" in impl:
                if impl["err"] == model["err"]:
                    return Verdict(AGREE)
                return Verdict(DIFFERS, "both raise, kinds differ: model %s, implementation %s"
                               % (model["err"], impl["exc"]), self.features(case, "errkind", impl))
            return Verdict(VIOLATES, "the implementation returns where the model raises %s" % model["err"],
                           self.features(case, "returns-" + model["err"], impl))
        if "err" in impl:
            if impl["err"] == "illPosed" and "fb" in ops_in(case["sys"]):
                return Verdict(AGREE)   # exact float comparison in the loop test on solver stage values
            if "solve_ivp failed" in impl["exc"]:
                return Verdict(AGREE)   # failure is reported
            return Verdict(VIOLATES, "implementation raises %s where the response exists" % impl["exc"],
                           self.features(case, "raises", impl))
        a, b = impl["ok"], model["ok"]
        if a.get("nonfinite"):
            return Verdict(VIOLATES, "non-finite values in the response", self.features(case, "nonfinite", impl))
        n, m, p = b["shapeA"][0], b["shapeB"][1], b["shapeC"][0]
        te = case["teval"] if case["teval"] is not None else case["T"]
        if (a["N"], a["n"], a["m"], a["p"]) != (len(te), n, m, p):
            return Verdict(VIOLATES, "response sizes (N,n,m,p) %s vs model %s" % (
                (a["N"], a["n"], a["m"], a["p"]), (len(te), n, m, p)), self.features(case, "sizes", impl))
        if a["t"] != list(te):
            return Verdict(VIOLATES, "returned time vector differs from the evaluation times",
                           self.features(case, "time", impl))
        ref = self.reference(case, b)
        if ref is None:
            return Verdict(AGREE)
        a = self.unscaled(case, a)
        M = max(1.0, max(float(np.max(np.abs(ref[key]))) if len(ref[key]) else 0.0 for key in "xuy"))
        if not np.isfinite(M) or M > 1e100:
            return Verdict(AGREE)
        for nm, what, tol in (("u", "inputs", 1e-9), ("x", "states", CTOL), ("y", "outputs", CTOL)):
            va = np.array([float(Fraction(v)) for v in a[nm]])
            err = np.abs(va - ref[nm])
            if len(err) and float(np.max(err)) > tol * M:
                j = int(np.argmax(err))
                width = max(1, {"u": m, "x": n, "y": p}[nm])
                return Verdict(VIOLATES, "continuous-time %s differ from the exact response of the composite "
                               "linear system at evaluation time %d component %d: implementation %r, exact %r "
                               "(largest value %g, signals at 2^%d)" % (
                                   what, j // width, j % width, float(va[j]), float(ref[nm][j]), M, -case["scale"]),
                               self.features(case, "ctraj-" + nm, impl))
        return Verdict(AGREE)

    def exact_regime(self, case, model):
        if model.get("bits", 0) > EXACT_BITS:
            return False
        ts = case["T"] + (case["teval"] or [])
        # a grid at the level 2^-r gives the same interpolation weights as the grid times 2^r; the
        # maps see the time only when they use it
        r = case.get("tscale", 0) if not uses_time(case["sys"]) else 0
        if any((Fraction(x) * 2 ** r).denominator > 64 for x in ts):
            return False
        if "div" in ops_in(case["sys"]):
            return False
        pow2 = lambda d: d & (d - 1) == 0
        return all(pow2(Fraction(v).denominator) for key in "xuy" for v in model["ok"][key])

    def nontrivial(self, case, model):
        if case["kind"] == "ahist":     # (round 3) >= 2 calls sharing a caller-owned / returned array, one of them
            # an operating point the model determines
            st = case["steps"]
            shared = sum(1 for x in st if any(self.is_ref(x.get(k)) for k in self.REF_KEYS))
            return shared >= 2 and any(x["kind"] == "op" and mm.get("ok", {}).get("what") == "sol"
                                       for x, mm in zip(st, model["steps"]))
        if case["kind"] == "hist":
            # an override followed by a call without one, all calls answered by the model
            st = case["steps"]
            return all("ok" in mm for mm in model["steps"]) and any(
                st[i]["params"] and not st[j]["params"] for i in range(len(st)) for j in range(i + 1, len(st)))
        if "ok" not in model:
            return False
        k = case["kind"]
        b = model["ok"]
        if k in ("dyn", "out"):
            return len(b["v"]) >= 1
        if k == "resp":
            return b["N"] >= 3 and any(Fraction(v) != 0 for v in b["u"] + b["x"][:b["n"]])
        if k == "lin":
            return len(b["A"]) >= 1
        if k == "cresp":
            nz = lambda l: any(Fraction(v) != 0 for v in l)
            return len(b["A"]) >= 1 and (nz(case["U"][1] if case["U"][0] != "A2" else case["U"][3]) if
                                         case["U"][0] != "S" else nz([case["U"][1]]))
        if k == "op":
            return b["what"] == "sol"
        return bool(ops_in(case["sys"]))

    def stats(self, case, impl, model):
        t = case["sys"]
        if case["kind"] == "ahist":     # (round 3)
            st = case["steps"]
            refs = [x[k] for x in st for k in self.REF_KEYS if self.is_ref(x.get(k))]
            ops = [(x, mm) for x, mm in zip(st, model["steps"]) if x["kind"] == "op"]
            branch = "none" if not ops else ("general" if any(ops[0][0][q] is not None for q in ("iu", "iy", "ix", "idx"))
                                             else "outputs-fixed" if ops[0][0]["Y0"][0] != "N" else "inputs-fixed")
            return {"kind": "ahist", "root": t[0], "steps": len(st), "timebase": tree_dt(t)[0],
                    "calls": "+".join(sorted({x["kind"] for x in st})),
                    "op_branch": branch,
                    "op_solvable": sum(1 for x, mm in ops if mm.get("ok", {}).get("what") == "sol"),
                    "pool_x": case["pool"].get("x", ["-"])[0], "pool_u": case["pool"].get("u", ["-"])[0],
                    "same_object_twice": sum(1 for nm in case["pool"]
                                             if sum(1 for r in refs if r[0] == "R" and r[1] == nm) >= 2) > 0,
                    "warm_start": any(r[0] == "W" for r in refs),
                    "x_and_u_one_array": any(self.is_ref(x.get("U0")) and x["U0"][:2] == ["R", "x"] for x in st)}
        if case["kind"] == "hist":
            steps = case["steps"]
            decl = any(lf[0] == "P" and lf[5] for lf in leaves(t))
            dflt = any(lf[0] == "P" and len(lf) > 8 and lf[8] for lf in leaves(t))
            return {"kind": "hist", "root": t[0], "size": min(size(t), 10), "steps": len(steps),
                    "timebase": tree_dt(t)[0],
                    "calls": "+".join(sorted({s["kind"] for s in steps})),
                    "parameters": ("declared+get" if decl and dflt else "declared" if decl else
                                   "get-defaults" if dflt else "none"),
                    "fb_params": "fbp" in flatten(t).split(),
                    "override_then_plain": any(steps[i]["params"] and not steps[j]["params"]
                                               for i in range(len(steps)) for j in range(i + 1, len(steps))),
                    "sub_then_enclosing": any(
                        steps[i]["params"] and not steps[j]["params"] and len(steps[j]["path"]) < len(steps[i]["path"])
                        for i in range(len(steps)) for j in range(i + 1, len(steps))),
                    "built": "first" if case.get("eager") else "on-use",
                    "outcome": "ok" if all("ok" in mm for mm in model["steps"]) else "err"}
        st = {"kind": case["kind"], "root": t[0], "size": min(size(t), 10),
              "outcome": ("err:" + model["err"]) if "err" in model else "ok"}
        if "uform" in case:
            st["point"] = "OperatingPoint" if "op" in case else "state"
            st["input"] = ("None-" if case["U0"][0] == "N" else "") + case["uform"]
            st["route"] = case["via"]
        if "forms" in case:
            st["U_form"] = case["forms"]["U"]
            st["X0_form"] = case["forms"]["X0"]
            st["T_form"] = case["forms"]["T"]
        if case["kind"] != "shape":
            st["timebase"] = tree_dt(t)[0]
        if case.get("scale"):
            k = case["scale"]
            st["level"] = "2^+" if k < 0 else "2^-%d.." % (10 * (k // 10))
        if case.get("tscale"):
            st["tscale"] = case["tscale"]
        if case["kind"] == "cresp":
            st["teval"] = case["teval"] is not None
            st["method"] = case["method"]
            if "ok" in model:
                st["n"] = min(model["ok"]["shapeA"][0], 6)
            if "err" in impl:
                st["impl"] = impl["err"]
        if case["kind"] == "lin":
            st["eps"] = "default" if not case.get("eps") else (
                "2^-%d.." % (10 * ((Fraction(case["eps"]).denominator.bit_length() - 1) // 10))
                if case["eps"].startswith("1/") else case["eps"])
        if case["kind"] == "resp":
            st["U"] = case["U"][0]
            st["X0"] = case["X0"][0]
            st["teval"] = case["teval"] is not None
            if "ok" in model:
                st["regime"] = "E" if self.exact_regime(case, model) else "T"
                st["N"] = model["ok"]["N"]
                st["n"] = min(model["ok"]["n"], 6)
                st["params"] = bool(case["params"])
        if case["kind"] == "op" and "ok" in model:
            st["op"] = model["ok"]["what"]
            if "ok" in impl:
                st["success"] = impl["ok"]["success"]
        if "err" in model and "err" in impl:
            st["errkind_equal"] = impl["err"] == model["err"]
        return st

    # ---- shrinking / search ----------------------------------------------------
    def shrink(self, case):
        t = case["sys"]
        if case["kind"] == "ahist":     # (round 3)
            yield from self.shrink_ahist(case)
            return
        if case["kind"] == "hist":
            st = case["steps"]
            for j in range(len(st)):
                if len(st) > 1:
                    c = dict(case)
                    c["steps"] = st[:j] + st[j + 1:]
                    yield c
            for j in range(len(st)):
                if len(st[j]["params"]) > 1:
                    for nm in st[j]["params"]:
                        c = dict(case)
                        c["steps"] = [dict(x) for x in st]
                        c["steps"][j]["params"] = {a: v for a, v in st[j]["params"].items() if a != nm}
                        yield c
            # the calls all happen below one child: drop the rest of the tree
            for i in children(t):
                if all(x["path"][:1] == [i] for x in st) and t[i][0] not in ("S", "A", "L"):
                    c = dict(case)
                    c["sys"] = t[i]
                    c["steps"] = [dict(x, path=x["path"][1:]) for x in st]
                    yield c
            return
        if case["kind"] == "resp":
            N = len(case["T"])
            if N > 2 and case["teval"] is None and case["U"][0] == "A2":
                m = case["U"][1]
                vals = case["U"][3]
                rows = [vals[i * N:(i + 1) * N] for i in range(m)]
                c = dict(case)
                c["T"] = case["T"][:N - 1]
                c["U"] = ["A2", m, N - 1, [v for r in rows for v in r[:N - 1]]]
                yield c
            if case["params"]:
                c = dict(case)
                c["params"] = {}
                yield c
        if case["kind"] == "shape":
            for i in children(t):
                if t[i][0] not in ("S", "A", "L", "P"):
                    yield {"kind": "shape", "sys": t[i]}

    def search(self, rng, case, tier):
        gen = {"resp": self.case_resp, "lin": self.case_lin, "op": self.case_op, "shape": self.case_shape,
               "cresp": self.case_cresp, "hist": self.case_hist, "ahist": self.case_ahist}
        return [gen[case["kind"]](rng, "quick") for _ in range(300)]


FAMILY = C08
