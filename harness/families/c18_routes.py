"""C18, routes stream (tag C18-perm): the *routes* by which a processing setting reaches a response
object, exercised on the real classes for every cell (object class x shape class x target setting).

For one cell the target setting `tgt` = (squeeze, transpose, return_x) resp. (squeeze,
return_magphase) is brought into force on the real `TimeResponseData` / `FrequencyResponseData`
by every route:

  A  argument     keywords of the response function (`step_response(sys, T, squeeze=, transpose=,
                  return_x=)`, `sys.frequency_response(omega, squeeze=)`) or of the class constructor
  K  constructor  `TimeResponseData(r.t, r.y, r.x, r.u, issiso=r.issiso, squeeze=, transpose=,
                  return_x=)` / `FrequencyResponseData(F.frdata, F.omega, squeeze=, return_magphase=)`
                  on the stored arrays of a response built with other settings (construction-time
                  keywords on the real class)
  C  __call__     `r0(squeeze=, transpose=, return_x=)` on an object built with the settings `start`
  S  attribute    `r1 = r0(); r1.squeeze = ...; r1.transpose = ...; r1.return_x = ...`
  G  config       keyword unset, `config.defaults['control.squeeze_time_response'] = ...`
                  (`..._frequency_response`); transpose / return_x by argument
  H  the C route read observable by observable (one `__call__` copy per read), compared with the
     state machine `HState.run (routeHistory .call ...)`

Every route is compared with the Lean model of that route (`timeVia` / `freqVia` /
`routeHistory` of Model/ResponseObj.lean, driver family `c18r`) exactly: shapes and every entry
through positions, None-ness, raise-vs-return and error kind, raw shapes, counts; all routes whose
model outputs coincide must coincide on the implementation (route independence,
`C18Perm.route_independence`); the object a `__call__` starts from must read the same before and
after the call and keep its stored arrays (`C18Perm.call_does_not_mutate`, `call_same_raw`).

`extend(Base)` returns the C18 family with this stream added; everything else is `Base`."""
import itertools

import numpy as np
import control as ct

from core.runner import Verdict, AGREE, VIOLATES, DIFFERS

TROUTES = ("A", "K", "C", "S", "G")
SQS = ("N", "T", "F")


def stored_shapes(b):
    """shapes of the stored y / x / u and the SISO flag of a response-function object (what the K
    route hands to the constructor); checked against the real object in `impl`"""
    fn, p, m, n, T = b["fn"], b["p"], b["m"], b["n"], b["T"]
    inp, out = b["inp"], b["out"]
    if fn == "forced":
        return [p, T], [n, T], [m, T], int(p == 1 and m == 1)
    if fn == "io":
        return [p, T], (None if n == 0 else [n, T]), [m, T], int(p == 1 and m == 1)
    if fn == "initial":
        if out is None:
            return [p, T], [n, T], None, int(p == 1 and m == 1)
        return [1, T], [n, T], None, 1
    m1 = 1 if inp is not None else m
    p1 = 1 if out is not None else p
    return [p1, m1, T], [n, m1, T], [m1, m1, T], int((p == 1 and m == 1) or (inp is not None and out is not None))


def extend(Base):
    import sys as _sys
    B = _sys.modules[Base.__module__]       # helpers of families/c18.py
    Mismatch, cmp_arr = B.Mismatch, B.cmp_arr
    SQV, CFG_KEYS, OFF, SRC = B.SQV, B.CFG_KEYS, B.OFF, B.SRC

    def sett(v):
        return " ".join(str(x) for x in v)

    class C18WithRoutes(Base):
        rule = Base.rule + (
            ".  Routes stream (families/c18_routes.py): for every cell {5 time-response functions x "
            "(p,m) x nstates x input/output selection, constructor shape classes incl. multi-trace, "
            "FrequencyResponseData shape classes, sys.frequency_response of tf/ss/frd} x target "
            "(squeeze in {None,True,False} x transpose x return_x resp. return_magphase) the target is "
            "brought into force by the argument, constructor-on-stored-arrays, __call__, attribute and "
            "configuration-default routes on the real classes; every route is compared with the model "
            "of that route, the routes with each other, and the object a __call__ starts from must be "
            "unchanged (quick: three / two seeded targets per time-response cell, all frequency targets; thorough: "
            "all)")

        # ---- generation ---------------------------------------------------------------
        def gen_routes(self, rng, tier):
            full = tier == "thorough"
            cases = []
            tb = []
            for fn in ("forced", "io", "initial", "step", "impulse"):
                for p, m in itertools.product((1, 2), (1, 2)):
                    ns = (0, 1, 2) if fn in ("forced", "io") else (1, 2)
                    for n in ns:
                        sels = [(None, None)]
                        if fn in ("step", "impulse"):
                            sels += [(m - 1, None), (None, p - 1), (m - 1, p - 1)]
                        if fn == "initial":
                            sels += [(None, p - 1)]
                        for inp, out in sels:
                            tb.append({"kind": "trd", "fn": fn, "p": p, "m": m, "n": n, "T": 3, "inp": inp,
                                       "out": out, "u1d": 0, "form": "ss"})
            tb.append({"kind": "trd", "fn": "forced", "p": 1, "m": 1, "n": 1, "T": 3, "inp": None, "out": None,
                       "u1d": 1, "form": "ss"})
            specs = []
            for T in (3, 1):
                for p, m, n, k in itertools.product((1, 2), (1, 2), (1, 2), (1, 2)):
                    specs.append(([T], [p, T], [n, T], [m, T], 0))
                    specs.append(([T], [p, k, T], [n, k, T], [m, k, T], 0))
                    if p == 1 and m == 1:
                        specs.append(([T], [T], [n, T], [T], 0))
                        specs.append(([T], [k, T], [n, k, T], [k, T], 1))
            specs += [([3], [2, 3], None, [1, 3], 0), ([3], [2, 3], [2, 3], None, 0),
                      ([3], [2, 3], [2, 4], [1, 3], 0)]
            seen = set()
            for (ts, ys, xs, us, multi) in specs:
                key = repr((ts, ys, xs, us, multi))
                if key in seen:
                    continue
                seen.add(key)
                for siso in ((None, 0) if ys[0] != 1 or len(ys) == 1 else (None, 1, 0)):
                    tb.append({"kind": "ctor", "ts": ts, "ys": ys, "xs": xs, "us": us, "multi": multi,
                               "siso": siso})
            targets = [(s, tr, rx) for s in SQS for tr in (0, 1) for rx in (0, 1)]
            for b in tb:
                tg = targets if full else rng.sample(targets, 3 if b["kind"] == "trd" else 2)
                for (s, tr, rx) in tg:
                    others = [q for q in SQS if q != s]
                    start = [rng.choice(others), 1 - tr if rng.random() < 0.8 else tr,
                             1 - rx if rng.random() < 0.8 else rx]
                    cases.append({"kind": "route", "base": b, "tgt": [s, tr, rx], "start": start, "cfgsq": "N"})
            # a squeeze value that is none of None/True/False, and a configured base default
            for b in (tb[0], tb[30], tb[-5]):
                cases.append({"kind": "route", "base": b, "tgt": ["X", 0, 0], "start": ["N", 0, 0], "cfgsq": "N"})
                cases.append({"kind": "route", "base": b, "tgt": ["F", 1, 0], "start": ["X", 0, 1], "cfgsq": "N"})
                cases.append({"kind": "route", "base": b, "tgt": ["N", 0, 1], "start": ["T", 1, 0], "cfgsq": "F"})
            # frequency responses
            fb = []
            for N in (3, 1):
                fb.append({"kind": "frd", "rs": [N], "os": [N]})
                for p, m in itertools.product((1, 2), (1, 2)):
                    fb.append({"kind": "frd", "rs": [p, m, N], "os": [N]})
            fb += [{"kind": "frd", "rs": [], "os": []}, {"kind": "frd", "rs": [2, 3], "os": [3]}]
            for form in ("tf", "ss", "frd"):
                for p, m in itertools.product((1, 2), (1, 2)):
                    for N in (3, 1):
                        fb.append({"kind": "ltifr", "form": form, "p": p, "m": m, "N": N,
                                   "via": "func" if (p + m + N) % 2 else "method"})
            for b in fb:
                ftargets = [(s, rm) for s in SQS for rm in ((1,) if b["kind"] == "ltifr" else (0, 1))]
                for (s, rm) in ftargets:
                    start = [rng.choice(SQS), rng.randint(0, 1)]
                    cases.append({"kind": "routef", "base": b, "tgt": [s, rm], "start": start, "cfgsq": "N"})
            for b in (fb[1], fb[-3]):
                cases.append({"kind": "routef", "base": b, "tgt": ["X", 1], "start": ["N", 1], "cfgsq": "N"})
                cases.append({"kind": "routef", "base": b, "tgt": ["N", 1], "start": ["F", 0], "cfgsq": "T"})
            return cases

        def generate(self, rng, tier):
            return Base.generate(self, rng, tier) + self.gen_routes(rng, tier)

        def corpus(self):
            t = {"kind": "trd", "fn": "step", "p": 2, "m": 2, "n": 1, "T": 3, "inp": None, "out": None,
                 "u1d": 0, "form": "ss"}
            return Base.corpus(self) + [
                {"kind": "route", "base": t, "tgt": ["F", 1, 1], "start": ["T", 0, 0], "cfgsq": "N"},
                {"kind": "route", "base": {"kind": "ctor", "ts": [3], "ys": [1, 2, 3], "xs": [2, 2, 3],
                                           "us": [1, 2, 3], "multi": 0, "siso": None},
                 "tgt": ["N", 1, 1], "start": ["F", 0, 0], "cfgsq": "N"},
                {"kind": "routef", "base": {"kind": "ltifr", "form": "ss", "p": 2, "m": 2, "N": 3, "via": "method"},
                 "tgt": ["T", 1], "start": ["F", 0], "cfgsq": "N"},
            ]

        # ---- driver lines -------------------------------------------------------------
        def route_lines(self, c):
            b = c["base"]
            tail = "%s %s %s" % (sett(c["tgt"]), sett(c["start"]), c["cfgsq"])
            if c["kind"] == "route":
                if b["kind"] == "trd":
                    head = "%s %d %d %d %d %s %s %d" % (b["fn"], b["p"], b["m"], b["n"], b["T"], self.o(b["inp"]),
                                                          self.o(b["out"]), b["u1d"])
                    ys, xs, us, siso = stored_shapes(b)
                    lines = {r: "c18r trd %s %s %s" % (head, r, tail) for r in "ACSG"}
                    lines["K"] = "c18r ctor %s %s %s %s %d 0 A %s" % (self.shp([b["T"]]), self.shp(ys), self.shp(xs),
                                                                    self.shp(us), siso, tail)
                    lines["H"] = "c18r trdh %s C %s" % (head, tail)
                else:
                    head = "%s %s %s %s %s %d" % (self.shp(b["ts"]), self.shp(b["ys"]), self.shp(b["xs"]),
                                                  self.shp(b["us"]), self.o(b["siso"]), b["multi"])
                    lines = {r: "c18r ctor %s %s %s" % (head, r, tail) for r in "ACSG"}
                    lines["H"] = "c18r ctorh %s C %s" % (head, tail)
                return lines
            if b["kind"] == "frd":
                head = "%s %s" % (self.shp(b["rs"]), self.shp(b["os"]))
            else:
                head = "3 %d %d %d 1 %d" % (b["p"], b["m"], b["N"], b["N"])
            lines = {r: "c18r frd %s %s %s" % (head, r, tail) for r in "ACSG"}
            lines["H"] = "c18r frdh %s C %s" % (head, tail)
            return lines

        ORDER = ("A", "K", "C", "S", "G", "H")

        def line(self, c):
            if c["kind"] in ("route", "routef"):
                ls = self.route_lines(c)
                return [ls[r] for r in self.ORDER if r in ls]
            return Base.line(self, c)

        def parse_model(self, c, out):
            if c["kind"] not in ("route", "routef"):
                return Base.parse_model(self, c, out)
            ls = self.route_lines(c)
            names = [r for r in self.ORDER if r in ls]
            res = {}
            for r, o in zip(names, out):
                if r == "H":
                    segs = B.split_bar(o)
                    if isinstance(segs, dict):
                        res[r] = segs
                    else:
                        res[r] = {"reads": [(B.parse_treading if c["kind"] == "route" else B.parse_freading)(g)
                                            for g in segs]}
                else:
                    res[r] = (B.parse_trd if c["kind"] == "route" else B.parse_frd)(o)
                res[r]["_raw"] = o
            return res

        # ---- implementation ---------------------------------------------------------------
        def impl(self, c):
            if c["kind"] == "route":
                try:
                    return self.impl_route(c)
                except Exception as e:  # noqa
                    return B.err_of(e)
            if c["kind"] == "routef":
                try:
                    return self.impl_routef(c)
                except Exception as e:  # noqa
                    return B.err_of(e)
            return Base.impl(self, c)

        def impl_route(self, c):
            b = c["base"]
            (ts, ttr, trx), (ss, st, sx) = c["tgt"], c["start"]
            ref = B.time_reference(b) if b["kind"] == "trd" else None

            def make(sq, tr, rx):
                if b["kind"] == "trd":
                    return B.call_time(b, sq, tr, rx)
                t = B.synth(b["ts"], 3 * OFF)
                return ct.TimeResponseData(
                    t if b["ts"] else float(t), B.synth(b["ys"], 0), B.synth(b["xs"], OFF), B.synth(b["us"], 2 * OFF),
                    issiso=None if b["siso"] is None else bool(b["siso"]),
                    transpose=bool(tr), return_x=bool(rx), squeeze=SQV[sq], multi_trace=bool(b["multi"]))

            def observe(r):
                obs = B.trd_observe(r)
                obs["ref_equal"] = ref is None or all(obs["raw"][s] == ref[s] for s in "yxut")
                return obs
            routes = {}
            extra = {"mut": True, "shapes_ok": True}
            with B.Config(**{CFG_KEYS[0]: SQV[c["cfgsq"]], CFG_KEYS[2]: False}):
                routes["A"] = B.guarded(lambda: observe(make(ts, ttr, trx)))
                # the object the __call__ / attribute routes start from
                r0 = B.guarded(lambda: make(ss, st, sx))
                if isinstance(r0, dict):
                    routes["C"] = routes["S"] = r0
                    reads = r0
                else:
                    before = observe(r0)
                    kw = {"squeeze": SQV[ts], "transpose": bool(ttr), "return_x": bool(trx)}
                    routes["C"] = B.guarded(lambda: observe(r0(**kw)))

                    def by_attr():
                        r1 = r0()
                        r1.squeeze, r1.transpose, r1.return_x = SQV[ts], bool(ttr), bool(trx)
                        return observe(r1)
                    routes["S"] = B.guarded(by_attr)
                    # the same route, one copy per read (state machine)
                    reads = [B.read_tobs(r0(**kw), o) for o in B.TOBS]
                    extra["mut"] = observe(r0) == before
                if b["kind"] == "trd":
                    # constructor on the stored arrays of a response built with the start settings
                    rs = r0 if not isinstance(r0, dict) else make("N", 0, 0)
                    ys, xs, us, siso = stored_shapes(b)
                    real = [list(rs.y.shape), None if rs.x is None else list(rs.x.shape),
                            None if rs.u is None else list(rs.u.shape), int(bool(rs.issiso))]
                    extra["shapes_ok"] = real == [ys, xs, us, siso]
                    extra["shapes"] = [real, [ys, xs, us, siso]]
                    routes["K"] = B.guarded(lambda: observe(ct.TimeResponseData(
                        rs.t, rs.y, rs.x, rs.u, issiso=rs.issiso, squeeze=SQV[ts], transpose=bool(ttr),
                        return_x=bool(trx))))
            with B.Config(**{CFG_KEYS[0]: SQV[ts], CFG_KEYS[2]: False}):
                routes["G"] = B.guarded(lambda: observe(make("N", ttr, trx)))
            return {"ok": dict(extra, routes=routes, H=reads)}

        def impl_routef(self, c):
            b = c["base"]
            (ts, trm), (ss, srm) = c["tgt"], c["start"]
            if b["kind"] == "ltifr":
                sysd = B.fsys(b["form"], b["p"], b["m"])
                om = np.array(B.FREQS[b["N"]])
                refv = sysd(1j * om, squeeze=False)
            else:
                refv = B.fsynth(b["rs"])
                om = (np.arange(int(np.prod(b["os"])) if b["os"] else 1, dtype=float) + 1).reshape(b["os"])

            def ctor(data, omega, sq, rm):
                kw = {} if sq == "N" else {"squeeze": SQV[sq]}
                return ct.FrequencyResponseData(data, omega, return_magphase=bool(rm), **kw)

            def make(sq, rm):
                if b["kind"] == "ltifr":
                    kw = {} if sq == "N" else {"squeeze": SQV[sq]}
                    if b["via"] == "method":
                        F = sysd.frequency_response(om, **kw)
                    else:
                        F = ct.frequency_response(sysd, om, **kw)
                    if not rm:                 # frequency_response has no such keyword
                        F.return_magphase = False
                    return F
                return ctor(refv if b["rs"] else complex(refv), om if b["os"] else float(om), sq, rm)

            def observe(F):
                obs = B.frd_observe(F)
                obs["ref"] = [B.ctok(v) for v in np.asarray(refv).reshape(-1).tolist()]
                return obs
            routes = {}
            extra = {"mut": True}
            with B.Config(**{CFG_KEYS[1]: SQV[c["cfgsq"]]}):
                routes["A"] = B.guarded(lambda: observe(make(ts, trm)))
                F0 = B.guarded(lambda: make(ss, srm))
                if isinstance(F0, dict):
                    routes["C"] = routes["S"] = F0
                    reads = F0
                else:
                    before = observe(F0)
                    kw = {"squeeze": SQV[ts], "return_magphase": bool(trm)}
                    routes["C"] = B.guarded(lambda: observe(F0(**kw)))

                    def by_attr():
                        F1 = F0()
                        F1.squeeze, F1.return_magphase = SQV[ts], bool(trm)
                        return observe(F1)
                    routes["S"] = B.guarded(by_attr)
                    reads = [B.read_fobs(F0(**kw), o) for o in B.FOBS]
                    extra["mut"] = observe(F0) == before
                    # constructor on the stored data of the start object
                    routes["K"] = B.guarded(lambda: observe(ctor(F0.frdata, F0.omega, ts, trm)))
            with B.Config(**{CFG_KEYS[1]: SQV[ts]}):
                routes["G"] = B.guarded(lambda: observe(make("N", trm)))
            omega = B.arr_canon(om if np.ndim(om) else np.atleast_1d(om))
            return {"ok": dict(extra, routes=routes, H=reads, omega=omega)}

        # ---- comparison ---------------------------------------------------------------------
        def feat(self, c, m):
            f = Base.feat(self, c, m)
            if c["kind"] in ("route", "routef"):
                f["route"] = getattr(self, "_route", None)
                f["base"] = c["base"]["kind"]
                if "fn" in c["base"]:
                    f["fn"] = c["base"]["fn"]
            return f

        def compare_(self, c, impl, model):
            if c["kind"] not in ("route", "routef"):
                return Base.compare_(self, c, impl, model)
            self._route = None
            if "err" in impl:
                raise Mismatch("raises", "call", "implementation raises %s" % impl["exc"])
            o = impl["ok"]
            freq = c["kind"] == "routef"
            routes = o["routes"]
            # (1) routes that the model does not distinguish must not be distinguished by the code
            names = [r for r in ("A", "K", "C", "S", "G") if r in routes]
            mkey = lambda r: model["A" if (r == "K" and "K" not in model) else r]["_raw"]
            for r1, r2 in itertools.combinations(names, 2):
                if mkey(r1) == mkey(r2) and routes[r1] != routes[r2] and \
                        not ("err" in routes[r1] and "err" in routes[r2] and routes[r1]["err"] == routes[r2]["err"]):
                    self._route = r1 + r2
                    a, b_ = routes[r1], routes[r2]
                    diff = [k for k in a if isinstance(b_, dict) and a.get(k) != b_.get(k)] if isinstance(a, dict) else []
                    raise Mismatch("route-dependence", (diff[0] if diff else "call"),
                                   "routes %s and %s give different readings for target %s (start %s)" % (
                                       r1, r2, c["tgt"], c["start"]))
            # (2) every route against the model of that route
            for r in names:
                self._route = r
                mo = model["A" if (r == "K" and "K" not in model) else r]
                io = routes[r]
                try:
                    if "err" in mo:
                        if "err" in io:
                            if io["err"] != mo["err"]:
                                raise Mismatch("errkind", "call", "implementation %s, model %s" % (io["exc"], mo["err"]),
                                               DIFFERS)
                            continue
                        raise Mismatch("returns", "call", "model raises %s, implementation returns" % mo["err"],
                                       DIFFERS)
                    if "err" in io:
                        raise Mismatch("raises", "call", "implementation raises %s" % io["exc"])
                    if freq:
                        self.cmp_frd(io, mo)
                    else:
                        self.cmp_trd(io, mo)
                except Mismatch as m:
                    m.detail = "route %s: %s" % (r, m.detail)
                    raise
            # the shapes the K line was built from are those of the real object (harness self-check)
            self._route = "K"
            if not freq and not o["shapes_ok"]:
                raise Mismatch("harness", "stored shapes", "stored y/x/u/issiso %s, expected %s" % tuple(o["shapes"]),
                               DIFFERS)
            # (3) the __call__ route read by read (state machine)
            self._route = "H"
            self.cmp_route_reads(c, o, model["H"], routes.get("C"))
            # (4) the object the call started from
            self._route = "C"
            if not o["mut"]:
                raise Mismatch("call-mutates", "original", "the object read differently after __call__ was "
                               "applied to it (target %s, start %s)" % (c["tgt"], c["start"]))
            self._route = None

        def cmp_route_reads(self, c, o, mh, cobs):
            reads = o["H"]
            if "err" in mh:
                if isinstance(reads, dict) and "err" in reads:
                    if reads["err"] != mh["err"]:
                        raise Mismatch("errkind", "call", "implementation %s, model %s" % (reads["exc"], mh["err"]),
                                       DIFFERS)
                    return
                raise Mismatch("returns", "call", "model raises %s, implementation returns" % mh["err"], DIFFERS)
            if isinstance(reads, dict):
                raise Mismatch("raises", "call", "implementation raises %s" % reads["exc"])
            freq = c["kind"] == "routef"
            names = B.FOBS if freq else B.TOBS
            if len(reads) != len(mh["reads"]) or len(reads) != len(names):
                raise Mismatch("harness", "reads", "read counts differ", DIFFERS)
            if freq:
                ref = cobs["ref"] if isinstance(cobs, dict) and "ref" in cobs else None
                lookup = lambda p: ref[p]
            else:
                raw = cobs["raw"] if isinstance(cobs, dict) and "raw" in cobs else None

                def lookup(p):
                    return raw[SRC[p // OFF]]["data"][p % OFF]
            for ob, a, b_ in zip(names, reads, mh["reads"]):
                try:
                    if freq:
                        if isinstance(b_, list):
                            if isinstance(a, dict):
                                raise Mismatch("raises", "iter", "implementation raises %s" % a["exc"])
                            if len(a) != len(b_):
                                raise Mismatch("arity", "iter", "tuple of %d, expected %d" % (len(a), len(b_)))
                            for q, (x, y) in enumerate(zip(a, b_)):
                                self.cmp_fitem("iter[%d]" % q, x, y, lookup, o["omega"])
                        elif ob == "iter":
                            cmp_arr("iter", a if isinstance(a, dict) else {"shape": []}, b_, lookup)
                        else:
                            self.cmp_fitem(ob, a, b_, lookup, o["omega"])
                    elif ob == "len":
                        if a != b_:
                            raise Mismatch("arity", "len", "len %s, expected %s" % (a, b_))
                    elif ob == "iter":
                        if isinstance(b_, dict):
                            cmp_arr("iter", a if isinstance(a, dict) else {"shape": []}, b_, lookup)
                        else:
                            if isinstance(a, dict):
                                raise Mismatch("raises", "iter", "implementation raises %s" % a["exc"])
                            if len(a) != len(b_):
                                raise Mismatch("arity", "iter", "tuple of %d, expected %d" % (len(a), len(b_)))
                            for q, (x, y) in enumerate(zip(a, b_)):
                                cmp_arr("iter[%d]" % q, x, y, lookup)
                    else:
                        cmp_arr(ob, a, b_, lookup)
                except Mismatch as m:
                    m.detail = "__call__ copy read of %s: %s" % (ob, m.detail)
                    raise

        # ---- evidence ---------------------------------------------------------------------------
        def nontrivial(self, c, model):
            if c["kind"] not in ("route", "routef"):
                return Base.nontrivial(self, c, model)
            a = model.get("C", {})
            if "err" in a:
                return False
            m = a.get("complex" if c["kind"] == "routef" else "outputs")
            return isinstance(m, dict) and len(m.get("pos", [])) > 1

        def stats(self, c, impl, model):
            if c["kind"] not in ("route", "routef"):
                return Base.stats(self, c, impl, model)
            a = model.get("A", {})
            st = {"kind": c["kind"], "base": c["base"]["kind"], "outcome": ("err:" + a["err"]) if "err" in a else "ok",
                  "target": "/".join(str(x) for x in c["tgt"])}
            if "fn" in c["base"]:
                st["fn"] = c["base"]["fn"]
            if c["kind"] == "route" and "err" not in a:
                st["siso"] = a["meta"][0]
                st["ntraces"] = a["meta"][4]
            return st

        def shrink(self, c):
            if c["kind"] not in ("route", "routef"):
                for d in Base.shrink(self, c):
                    yield d
                return
            n = len(c["tgt"])
            for i in range(n):
                simple = "N" if i == 0 else 0
                if c["tgt"][i] != simple:
                    d = dict(c, tgt=list(c["tgt"]))
                    d["tgt"][i] = simple
                    yield d
                if c["start"][i] != simple:
                    d = dict(c, start=list(c["start"]))
                    d["start"][i] = simple
                    yield d
            b = c["base"]
            if b["kind"] == "trd":
                for key, val in (("u1d", 0), ("inp", None), ("out", None), ("n", 1), ("p", 1), ("m", 1)):
                    if b.get(key) != val:
                        nb = dict(b)
                        nb[key] = val
                        if nb["fn"] in ("forced", "io") and (nb["inp"], nb["out"]) != (None, None):
                            continue
                        yield dict(c, base=nb)
            elif b["kind"] == "ltifr":
                for key, val in (("p", 1), ("m", 1), ("via", "method")):
                    if b.get(key) != val:
                        yield dict(c, base=dict(b, **{key: val}))

    C18WithRoutes.__name__ = Base.__name__
    return C18WithRoutes
