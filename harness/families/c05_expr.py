"""C05 — whole timebase expressions (cell kind `expr`, driver family `dtx`, Lean model
`CtrlVerif.Model.C05Expr`).  Helper module of families/c05.py (not a family of its own).

A case is {"k": "expr", "cfg": c, "prog": [postfix tokens]}; tokens:
  <opnd>                       leaf as in c05.py ("scalar" | "array" | "<cls>:<static>:<kw>")
  sumjunc                      ct.summing_junction(['u', '-y'], 'e')
  sample=<rat>  pow=<int>  un=<name>  bin=<add|sub|mul|div>  fb  lft
  <opnd>^                      the same leaf built as a 2x2 upper system for `lft` (c05.build_upper); the
                               marker is for the implementation only (the model carries no shapes)
  series=<n> parallel=<n> append=<n> combine=<n> ic=<n>=<kw>

Streams:
  * `block_cells`: exhaustive -- `append(a, b)[0, 0] <op> c` for every ordered triple of timebases and six
    class patterns (blocks of MIMO systems re-created by `__getitem__`, then combined onward);
  * `lft_cells`: exhaustive -- `P.lft(K) <op> c`, `append(a, b).lft(c)`, `P.sample(Ts).lft(K)`,
    `<unary>(P).lft(K)` and nested `P3.lft(K1).lft(K2)` for every ordered triple / pair of timebases;
  * `nary3_cells`: exhaustive — every ordered triple of timebases from {None, 0, True, 0.1, 0.25} for
    series / parallel / append / interconnect / combine_tf over several class patterns (the model's
    left-to-right fold of `common_timebase` against the real n-ary functions);
  * `rnd_cells`: random expression trees over all node kinds of `C05Expr.Expr` (powers incl. 0 and
    negative, unary operations / conversions, sample(Ts), n-ary functions, summing junctions).

The generator only emits expressions on which the real code can fail for no other reason than
timebases / unsupported classes (no singular feedback loops, no division by or inverse of composite
systems, structural transforms only on the fixed 2-state leaf, MIMO results of append / combine_tf only
under shape-agnostic operations), because the model carries no shapes or numbers.
"""
import warnings
from fractions import Fraction

import numpy as np
import control as ct

from core import exact
from core.exact import fr, tok


def _b():
    from families import c05
    return c05


NARY = ("series", "parallel", "append", "combine", "ic")
UN_VIA = {"neg": "op", "getitem": "op", "copy": "copy", "rename": "copyname", "toSS": "ss", "toTF": "tf",
          "toFRD": "frd", "toNL": "nlsys", "sim": "op", "reach": "form", "obs": "form",
          "modred": "truncate", "minreal": "method", "lin": "func"}
T01 = tok(fr(0.1))                       # the float 0.1, exactly
TS = ["1/2", T01, "1/4"]


# ----------------------------------------------------------------------------
# generation
# ----------------------------------------------------------------------------

NOLEAF = ("fb", "lft")


def _isleaf(t):
    return "=" not in t and t not in NOLEAF


def line(c):
    return "dtx %s %s" % (c["cfg"], " ".join(t.rstrip("^") for t in c["prog"]))


def _kwtoks():
    return _b().EXPL_TOK


def nary3_cells(rng, full=True):
    """all ordered triples of timebases for the five n-ary functions"""
    toks = _kwtoks()
    pats = {
        "series": [("ss", "tf", "ss"), ("tf", "ss", "nl"), ("frd", "ss", "tf"), ("ic", "nl", "ss")],
        "parallel": [("tf", "ss", "tf"), ("ss", "nl", "tf"), ("ss", "frd", "tf"), ("nl", "ic", "ss")],
        "append": [("ss", "tf", "ss"), ("tf", "ss", "tf"), ("frd", "frd", "ss")],
        "ic": [("ss", "tf", "nl"), ("nl", "ic", "ss"), ("ss", "ss", "tf")],
        "combine": [("tf", "tf", "tf")],
    }
    cells = []
    for fn in NARY:
        for pat in pats[fn]:
            for a in toks:
                for b in toks:
                    for c in toks:
                        if not full and rng.random() > 0.5:
                            continue
                        xs = ["%s:0:%s" % (cl, t) for cl, t in zip(pat, (a, b, c))]
                        last = "ic=3=-" if fn == "ic" else "%s=3" % fn
                        cells.append({"k": "expr", "cfg": "Q0", "prog": xs + [last]})
    # constants among the blocks / operands (they carry no timebase)
    for fn in ("series", "parallel", "append", "combine"):
        for a in toks:
            for c in toks:
                for const in ("scalar", "array"):
                    cl = "tf" if fn == "combine" else "ss"
                    cells.append({"k": "expr", "cfg": "Q0",
                                  "prog": ["%s:0:%s" % (cl, a), const, "tf:0:%s" % c, "%s=3" % fn]})
    # interconnect with the dt= keyword and a summing junction among the subsystems
    for kw in ("N", "C", "T", "D" + T01, "D1/4"):
        for a in toks:
            for c in toks:
                cells.append({"k": "expr", "cfg": "Q0",
                              "prog": ["ss:0:%s" % a, "sumjunc", "nl:0:%s" % c, "ic=3=%s" % kw]})
    return cells


def block_cells(tier):
    """history class "a block of a MIMO system, combined onward": `append(a, b)[0, 0] <op> c` for every
    ordered triple of the five timebases and several class patterns (MIMO FRD / StateSpace /
    TransferFunction built by append, the block re-created by `__getitem__`, then `*` / `+` with a third
    system), under the `default_dt` values in rotation (quick) or all of them (thorough): a timebase
    `None` must come out of the indexing as `None` whatever `default_dt` is, otherwise the last
    operation returns / raises differently"""
    B = _b()
    toks = _kwtoks()
    pats = [("frd", "frd", "frd", "mul"), ("frd", "ss", "frd", "add"), ("frd", "frd", "ss", "mul"),
            ("ss", "ss", "tf", "add"), ("tf", "tf", "ss", "mul"), ("ss", "tf", "frd", "mul")]
    cells = []
    i = 0
    for pat in pats:
        for a in toks:
            for b in toks:
                for c in toks:
                    prog = ["%s:0:%s" % (pat[0], a), "%s:0:%s" % (pat[1], b), "append=2", "un=getitem",
                            "%s:0:%s" % (pat[2], c), "bin=" + pat[3]]
                    cfgs = B.CFGS if tier != "quick" else [B.CFGS[i % len(B.CFGS)]]
                    i += 1
                    for cfg in cfgs:
                        cells.append({"k": "expr", "cfg": cfg, "prog": prog})
    return cells


def lft_cells(tier):
    """history classes around `StateSpace.lft` (strengthening after C05-m6): the result of an lft combined
    onward, an upper system that is itself the result of a library operation (append, sampling, unary
    operations / conversions), and nested lfts -- for every ordered triple (pair) of the five timebases,
    `default_dt` in rotation (quick) or all four (thorough).  Upper leaves (`^`) have a zero feed-through
    from the control inputs to the measurement outputs, `append(a, b)` uppers have a static `b` or a
    constant lower system, so that no cell can fail because the loop is not well-posed"""
    B = _b()
    toks = _kwtoks()
    progs = []
    # P.lft(K) <op> c
    for (kc, cc, op) in (("ss", "ss", "mul"), ("tf", "tf", "add"), ("ss", "frd", "mul"), ("tf", "nl", "add"),
                         ("array", "ss", "sub")):
        for a in toks:
            for b in (toks if kc != "array" else ["-"]):
                for c in toks:
                    K = "array" if kc == "array" else "%s:0:%s" % (kc, b)
                    progs.append(["ss:0:%s^" % a, K, "lft", "%s:0:%s" % (cc, c), "bin=" + op])
    # append(a, b).lft(c): the upper system is assembled by the library
    for (ca, cb, cc) in (("ss:0", "ss:1", "ss:0"), ("ss:0", "ss:0", "tf:1"), ("ss:1", "tf:1", "ss:0"),
                         ("tf:0", "ss:1", "ss:0")):
        for a in toks:
            for b in toks:
                for c in toks:
                    progs.append(["%s:%s" % (ca, a), "%s:%s" % (cb, b), "append=2", "%s:%s" % (cc, c), "lft"])
    for a in toks:
        for c in toks:
            progs.append(["ss:0:%s" % a, "scalar", "append=2", "tf:0:%s" % c, "lft"])
            progs.append(["ss:0:%s" % a, "ss:0:%s" % c, "append=2", "array", "lft"])
    # unary operations / conversions / sampling on the upper system or on the result
    for a in toks:
        for b in toks:
            for u in ("neg", "copy", "rename", "toSS"):
                progs.append(["ss:0:%s^" % a, "un=" + u, "ss:0:%s" % b, "lft"])
            for u in ("neg", "toTF", "toFRD", "toNL", "lin", "getitem"):
                progs.append(["ss:0:%s^" % a, "tf:0:%s" % b, "lft", "un=" + u])
            progs.append(["ss:0:%s^" % a, "ss:0:%s" % b, "lft", "pow=2"])
            progs.append(["ss:0:%s^" % a, "sample=1/2", "ss:0:%s" % b, "lft"])
            progs.append(["ss:0:%s^" % a, "ss:0:%s" % b, "sample=" + T01, "lft"])
            progs.append(["ss:0:%s^" % a, "ss:0:%s" % b, "lft", "sample=1/4"])
    # nested: a 3x3 upper system closed twice
    for a in toks:
        for b in toks:
            for c in toks:
                progs.append(["ss:0:%s^^" % a, "ss:0:%s" % b, "lft", "tf:0:%s" % c, "lft"])
    cells = []
    for i, prog in enumerate(progs):
        cfgs = B.CFGS if tier != "quick" else [B.CFGS[i % len(B.CFGS)]]
        for cfg in cfgs:
            cells.append({"k": "expr", "cfg": cfg, "prog": prog})
    return cells


def _bincls(a, b, div=False):
    """class of `a op b` (steering only; mirrors `binResult` / `divResult`)"""
    if a is None or b is None or (a == "const" and b == "const"):
        return None
    if "frd" in (a, b):
        o = b if a == "frd" else a
        if o in ("nl", "ic") or (div and a == "tf" and b == "frd"):
            return None
        return "frd"
    if a in ("nl", "ic") or b in ("nl", "ic"):
        if div and b != "const":
            return None
        return "ic"
    if a == "const":
        return b
    return a


class Gen:
    def __init__(self, rng, fam, pool):
        self.rng, self.fam, self.pool = rng, fam, pool
        self.classes = {"lin": ("ss", "tf"), "frd": ("ss", "tf", "frd"),
                        "nl": ("ss", "tf", "nl", "ic")}[fam]

    def leaf(self, cls=None, pool=None, dynamic=False):
        rng = self.rng
        cls = cls or rng.choice(self.classes)
        st = "0" if (dynamic or cls == "frd" or rng.random() > 0.15) else "1"
        t = rng.choice(pool or self.pool)
        return {"prog": ["%s:%s:%s" % (cls, st, t)], "cls": cls, "siso": True, "pos": True, "leaf": True,
                "dyn": st == "0"}

    def const(self):
        return {"prog": [self.rng.choice(["scalar", "array"])], "cls": "const", "siso": True, "pos": True,
                "leaf": True, "dyn": False}

    def node(self, prog, cls, siso=True, pos=True):
        return {"prog": prog, "cls": cls, "siso": siso, "pos": pos, "leaf": False, "dyn": False}

    def gen(self, depth, pool=None):
        """a SISO system-valued expression"""
        rng = self.rng
        pool = pool or self.pool
        if depth <= 0 or rng.random() < 0.15:
            return self.leaf(pool=pool)
        r = rng.random()
        if r < 0.05:
            return self.lft(depth, pool)
        if r < 0.22:
            return self.unary(depth, pool)
        if r < 0.32:
            return self.power(depth, pool)
        if r < 0.42:
            return self.sample(depth, pool)
        if r < 0.62:
            return self.binary(depth, pool)
        if r < 0.70:
            return self.feedback(depth, pool)
        if r < 0.88:
            return self.nary(depth, pool)
        return self.interconnect(depth, pool)

    def unary(self, depth, pool):
        rng = self.rng
        if rng.random() < 0.2:
            x = self.leaf("ss", pool, dynamic=True)          # structural transforms: fixed 2-state leaf
            op = rng.choice(["sim", "reach", "obs", "modred"])
            return self.node(x["prog"] + ["un=" + op], "ss")
        if rng.random() < 0.15:
            # MIMO result of append / combine_tf, brought back to SISO by indexing
            x = self.mimo(depth - 1, pool)
            mid = [rng.choice(["un=neg", "un=copy", "un=rename"])] if rng.random() < 0.5 else []
            return self.node(x["prog"] + mid + ["un=getitem"], x["cls"], pos=False)
        x = self.gen(depth - 1, pool)
        c = x["cls"]
        ops = ["neg", "copy", "rename"]
        if c in ("ss", "tf", "frd"):
            ops += ["getitem"]
        if c in ("ss", "tf"):
            ops += ["toSS", "toTF", "toFRD"]
        if c == "frd":
            ops += ["toFRD"]                  # frd(F): the one-argument copy constructor
        if c == "ss":
            ops += ["toNL", "lin"]
        if c in ("nl", "ic") and "fb" not in x["prog"]:
            ops += ["lin", "lin"]        # (a feedback loop through direct terms cannot be evaluated)
        if c == "tf":
            ops += ["minreal"]
        op = rng.choice(ops)
        res = {"toSS": "ss", "toTF": "tf", "toFRD": "frd", "toNL": "nl", "lin": "ss"}.get(op, c)
        if op == "neg" and c in ("nl", "ic"):
            res = "ic"
        return self.node(x["prog"] + ["un=" + op], res, pos=x["pos"] and op != "neg")

    def lft(self, depth, pool):
        """`P.lft(K)`: P an upper leaf (2x2 StateSpace with zero control-to-measurement feed-through, so every
        SISO K gives a well-posed loop), possibly under a shape-agnostic unary operation; K any SISO
        expression or a constant (FRD / non-linear K: TypeError in model and implementation)"""
        rng = self.rng
        st = "1" if rng.random() < 0.2 else "0"
        prog = ["ss:%s:%s^" % (st, rng.choice(pool))]
        if rng.random() < 0.3:
            prog.append("un=" + rng.choice(["neg", "copy", "rename", "toSS"]))
        y = self.const() if rng.random() < 0.12 else self.gen(depth - 1, pool)
        c = "ss" if y["cls"] in ("ss", "tf", "const") else None
        return self.node(prog + y["prog"] + ["lft"], c, pos=False)

    def power(self, depth, pool):
        rng = self.rng
        if rng.random() < 0.4:
            x = self.leaf(rng.choice([c for c in self.classes if c in ("ss", "tf", "frd")]), pool)
            k = rng.choice([-3, -2, -1, -1, 0])
        else:
            x = self.gen(depth - 1, pool)
            k = rng.choice([0, 1, 2, 3])
        c = x["cls"] if x["cls"] in ("ss", "tf", "frd") else None
        return self.node(x["prog"] + ["pow=%d" % k], c, pos=x["pos"])

    def sample(self, depth, pool):
        rng = self.rng
        inner = ["N", "Q0"] if rng.random() < 0.8 else pool
        sub = Gen(rng, "lin", inner)
        x = sub.gen(depth - 1)
        c = x["cls"] if x["cls"] in ("ss", "tf") else None
        ts = rng.choice(TS)
        return self.node(x["prog"] + ["sample=" + ts], c, pos=x["pos"])

    def binary(self, depth, pool):
        rng = self.rng
        op = rng.choice(["add", "sub", "mul", "add", "mul", "div"])
        x = self.gen(depth - 1, pool)
        if op == "div":
            if x["cls"] in ("nl", "ic", None) or rng.random() < 0.4:
                y = {"prog": ["scalar"], "cls": "const", "pos": True}
            else:
                y = self.leaf(rng.choice([c for c in self.classes if c in ("ss", "tf", "frd")]), pool)
            return self.node(x["prog"] + y["prog"] + ["bin=div"], _bincls(x["cls"], y["cls"], True), pos=False)
        r = rng.random()
        if r < 0.08:
            y = self.const()
            if rng.random() < 0.5:
                x, y = y, x
        else:
            y = self.gen(depth - 1, pool)
        return self.node(x["prog"] + y["prog"] + ["bin=" + op], _bincls(x["cls"], y["cls"]),
                         pos=x["pos"] and y["pos"] and op != "sub")

    def positive(self, depth, pool):
        for _ in range(6):
            x = self.gen(depth, pool)
            if x["pos"] and x["cls"] != "frd" and x["cls"] is not None:
                return x
        return self.leaf(rng_choice(self.rng, [c for c in self.classes if c != "frd"]), pool)

    def feedback(self, depth, pool):
        rng = self.rng
        if self.fam == "frd" and rng.random() < 0.5:
            x, y = self.leaf(pool=pool), self.leaf(pool=pool)
        else:
            x = self.positive(depth - 1, pool)
            y = self.const() if rng.random() < 0.1 else self.positive(depth - 1, pool)
        if rng.random() < 0.07 and y["cls"] != "const":
            x = {"prog": ["scalar"], "cls": "const", "pos": True}        # feedback(constant, sys)
        cx, cy = x["cls"], y["cls"]
        if cx == "const":
            c = {"tf": "tf", "frd": "frd", "ss": "ss"}.get(cy, "ic")
        elif cx == "ss":
            c = "ic" if cy in ("nl", "ic") else (None if cy == "frd" else "ss")
        elif cx == "tf":
            c = "tf" if cy in ("ss", "tf", "const") else None
        elif cx == "frd":
            c = "frd" if cy in ("ss", "tf", "frd", "const") else None
        elif cx in ("nl", "ic"):
            c = None if cy == "frd" else "ic"
        else:
            c = None
        return self.node(x["prog"] + y["prog"] + ["fb"], c)

    def nary(self, depth, pool):
        rng = self.rng
        fn = rng.choice(["series", "parallel"])
        n = rng.randint(1, 3)
        xs = [self.gen(depth - 1, pool)]
        for _ in range(n - 1):
            xs.append(self.const() if rng.random() < 0.1 else self.gen(depth - 1, pool))
        c = xs[0]["cls"]
        for y in xs[1:]:
            c = _bincls(y["cls"], c) if fn == "series" else _bincls(c, y["cls"])
        prog = [t for x in xs for t in x["prog"]] + ["%s=%d" % (fn, n)]
        return self.node(prog, c, pos=all(x["pos"] for x in xs))

    def lin_child(self, depth, pool, want=("ss", "tf")):
        for _ in range(6):
            x = self.gen(depth, pool)
            if x["cls"] in want:
                return x
        return self.leaf(self.rng.choice(want), pool)

    def mimo(self, depth, pool):
        """append / combine_tf: a MIMO result"""
        rng = self.rng
        n = rng.randint(2, 3)
        if self.fam == "frd" and rng.random() < 0.4:
            # a MIMO FRD (append of FRD leaves, possibly a linear system after the first): its blocks are
            # reached by indexing, which re-creates the FRD with the timebase as a positional argument
            xs = [self.leaf("frd", pool)]
            for _ in range(n - 1):
                xs.append(self.leaf(rng.choice(["frd", "frd", "ss", "tf"]), pool))
            fn, c = "append", "frd"
        elif rng.random() < 0.5:
            xs = [self.lin_child(depth - 1, pool)]
            for _ in range(n - 1):
                xs.append(self.const() if rng.random() < 0.12 else self.lin_child(depth - 1, pool))
            fn, c = "append", xs[0]["cls"]
        else:
            xs = []
            for _ in range(n):
                xs.append({"prog": ["scalar"], "cls": "const"} if rng.random() < 0.15
                          else self.lin_child(depth - 1, pool, want=("tf",)))
            fn, c = "combine", "tf"
        prog = [t for x in xs for t in x["prog"]] + ["%s=%d" % (fn, n)]
        return self.node(prog, c, siso=False, pos=False)

    def interconnect(self, depth, pool, linear_ok=False):
        """interconnect(...) of all-linear subsystems returns a LinearICSystem (a StateSpace), which the
        model classifies as `ic`: such a result is generated at the root only; elsewhere at least one
        subsystem is non-linear, so that model and implementation agree on the class"""
        rng = self.rng
        n = rng.randint(1, 3)
        xs = []
        for _ in range(n):
            if rng.random() < 0.15:
                xs.append({"prog": ["sumjunc"], "cls": "ss", "pos": True})
                continue
            x = self.gen(depth - 1, pool)
            if x["cls"] in ("frd", None, "const"):
                x = self.leaf(rng.choice([c for c in self.classes if c != "frd"]), pool)
            xs.append(x)
        if not linear_ok and not any(x["cls"] in ("nl", "ic") for x in xs):
            xs[rng.randrange(n)] = self.leaf(rng.choice(["nl", "ic"]), pool)
        kw = "-"
        if rng.random() < 0.35:
            kw = rng.choice(["N", "T", "D" + T01, "C", "D1/4"])
        prog = [t for x in xs for t in x["prog"]] + ["ic=%d=%s" % (n, kw)]
        return self.node(prog, "ic", pos=xs[0]["pos"])

    def top(self, depth):
        """root: also the MIMO-valued functions, possibly under a shape-agnostic unary operation"""
        rng = self.rng
        if rng.random() < 0.15:
            x = self.mimo(depth, self.pool)
            tail = [rng.choice(["un=neg", "un=copy", "un=rename"])] if rng.random() < 0.4 else []
            return x["prog"] + tail
        if rng.random() < 0.08:
            x = self.interconnect(depth, self.pool, linear_ok=True)
            tail = [rng.choice(["un=neg", "un=copy", "un=rename", "un=lin"])] if rng.random() < 0.4 else []
            if "fb" in x["prog"] and tail == ["un=lin"]:
                tail = []
            return x["prog"] + tail
        return self.gen(depth)["prog"]


def rng_choice(rng, xs):
    return rng.choice(list(xs))


def rnd_cells(rng, n):
    B = _b()
    t01, t025 = B.kwtok(0.1), B.kwtok(0.25)
    cells = []
    while len(cells) < n:
        cfg = rng.choice(B.CFGS)
        pool = rng.choice([["N", "T", t01], ["N", "Q0"], ["N", "T", t025, "-"], ["N", "N", "T", t01, t025],
                           ["N", "Q0", "Q0"], ["N", "T", t01, t01], B.EXPL_TOK])
        fam = rng.choice(["lin", "lin", "frd", "nl"])
        prog = Gen(rng, fam, pool).top(rng.randint(1, 3))
        if len(prog) < 2 or len(prog) > 40:
            continue
        cells.append({"k": "expr", "cfg": cfg, "prog": prog})
    return cells


def near_cells():
    """the np.isclose tolerance edge of `C05Tree.tree_close_counterexample` (1 ~ 1+9*2^-20 ~ 1+18*2^-20 but
    1 !~ 1+18*2^-20; all three exact floats): bracketing and operand order decide whether the
    expression raises.  Model and implementation must agree cell by cell (the deviation from the
    property's strict rule is the known finding C05-isclose-tolerance, reported by the `common` stream)"""
    B = _b()
    a, b, c = ("ss:0:" + B.kwtok(v) for v in (1.0, 1.0 + 9 * 2.0 ** -20, 1.0 + 18 * 2.0 ** -20))
    progs = [[a, b, "bin=add"], [a, b, "bin=mul", c, "bin=mul"], [a, b, c, "bin=mul", "bin=mul"],
             [a, b, c, "series=3"], [c, b, a, "series=3"], [b, a, c, "series=3"],
             [a, b, c, "parallel=3"], [b, a, c, "parallel=3"], [a, b, c, "append=3"],
             [a, c, b, "ic=3=-"], [a, b, c, "ic=3=-"]]
    t = "tf:0:"
    progs += [[t + a[5:], t + b[5:], t + c[5:], "combine=3"], [t + b[5:], t + a[5:], t + c[5:], "combine=3"]]
    return [{"k": "expr", "cfg": "Q0", "prog": p, "near": 1} for p in progs]


def compare_near(fam, c, impl, model):
    """tolerance-edge cells: the model mirrors np.isclose, so result and raising must coincide"""
    from core.runner import Verdict, AGREE, DIFFERS
    if "R" not in impl or "R" not in model:
        return Verdict(DIFFERS, "near-edge cell: operand construction failed: %s / %s" % (impl, model),
                       fam.feat(c, "near-operand"))
    mr, ir = model["R"], impl["R"]
    if ("dt" in mr) != ("dt" in ir) or ("dt" in mr and mr["dt"] != ir["dt"]):
        return Verdict(DIFFERS, "tolerance edge: model %s, implementation %s" % (mr, ir),
                       fam.feat(c, "near-edge-result"))
    return Verdict(AGREE)


def cells(fam, rng, tier):
    B = _b()
    out = [{"k": "expr", "cfg": cfg, "prog": ["sumjunc"]} for cfg in B.CFGS]
    out += [{"k": "expr", "cfg": cfg, "prog": ["sumjunc", "un=" + op]} for cfg in B.CFGS
            for op in ("neg", "copy", "rename")]
    out += nary3_cells(rng)
    out += block_cells(tier)
    out += lft_cells(tier)
    out += near_cells()
    out += rnd_cells(rng, 1500 if tier == "quick" else 8000)
    return out


def corpus():
    return [
        {"k": "expr", "cfg": "Q0", "prog": ["ss:0:N", "tf:0:Q" + T01, "ss:0:T", "series=3"]},
        {"k": "expr", "cfg": "Q0", "prog": ["tf:0:Q1/4", "pow=0"]},
        {"k": "expr", "cfg": "T", "prog": ["frd:0:N", "frd:0:N", "append=2", "un=getitem", "frd:0:Q0", "bin=mul"]},
        {"k": "expr", "cfg": "Q0", "prog": ["ss:0:N", "tf:0:Q0", "bin=mul", "sample=1/2", "ss:0:T", "fb", "pow=2"]},
        {"k": "expr", "cfg": "T", "prog": ["ss:1:-^", "tf:0:Q" + T01, "lft", "ss:0:Q" + T01, "bin=mul"]},
        {"k": "expr", "cfg": "Q0", "prog": ["ss:0:N", "ss:1:-", "append=2", "ss:0:T", "lft"]},
    ]


# ----------------------------------------------------------------------------
# the implementation
# ----------------------------------------------------------------------------

def _ntok(t):
    return "D" + tok(Fraction(t))


def symbolic(prog, leafdts):
    """mirror of `C05Expr.leaves` and the property's expected timebase, from the implementation's own
    leaf timebases.  Returns (leaves, want) of the root."""
    B = _b()
    st = []
    it = iter(leafdts)
    for t in prog:
        if _isleaf(t):
            d = next(it)
            st.append(([("N" if d == "-" else d)], d))
            continue
        if t in NOLEAF:
            key, n, extra = t, 2, []
        else:
            parts = t.split("=")
            key = parts[0]
            if key in ("sample", "pow", "un"):
                n = 1
            elif key == "bin":
                n = 2
            else:
                n = int(parts[1])
            extra = []
            if key == "ic" and parts[2] != "-":
                extra = [parts[2]]
        ch = st[len(st) - n:]
        del st[len(st) - n:]
        if key == "sample":
            w = ch[0][1]
            want = _ntok(t.split("=")[1]) if w in ("N", "C") else "ERR"
            st.append(([_ntok(t.split("=")[1])], want))
            continue
        lv = extra + [x for c in ch for x in c[0]]
        if key in ("pow", "un"):
            want = ch[0][1]
        else:
            want = B.pyjoin_all(extra + [c[1] for c in ch])
        st.append((lv, want))
    assert len(st) == 1
    return st[0]


def run_prog(prog, objs):
    B = _b()
    st = []
    it = iter(objs)
    for t in prog:
        if _isleaf(t):
            st.append(next(it))
            continue
        if t == "lft":
            y = st.pop()
            x = st.pop()
            st.append(x.lft(y))
            continue
        if t == "fb":
            y = st.pop()
            x = st.pop()
            st.append(ct.feedback(x, y))
            continue
        parts = t.split("=")
        key = parts[0]
        if key == "sample":
            st.append(B.run_un("sample", parts[1], "method", st.pop()))
        elif key == "pow":
            st.append(B.run_un("pow", int(parts[1]), "op", st.pop()))
        elif key == "un":
            x = st.pop()
            if not hasattr(x, "dt"):
                if parts[1] != "neg":
                    raise TypeError("unary operation on a constant")
                st.append(-x)
            else:
                st.append(B.run_un(parts[1], None, UN_VIA[parts[1]], x))
        elif key == "bin":
            y = st.pop()
            x = st.pop()
            st.append(B.run_bin(parts[1], "func", x, y))
        else:
            n = int(parts[1])
            ch = st[len(st) - n:]
            del st[len(st) - n:]
            if key == "series":
                st.append(ct.series(*ch))
            elif key == "parallel":
                st.append(ct.parallel(*ch))
            elif key == "append":
                st.append(ct.append(*ch))
            elif key == "combine":
                st.append(ct.combine_tf([ch]))
            elif key == "ic":
                kw = {} if parts[2] == "-" else {"dt": exact_dt_value(parts[2])}
                st.append(ct.interconnect(ch, inplist=[(0, 0)], outlist=[(0, 0)], check_unused=False, **kw))
            else:
                raise ValueError(t)
    return st[0]


def exact_dt_value(t):
    if t == "N":
        return None
    if t == "C":
        return 0
    if t == "T":
        return True
    return float(Fraction(t[1:]))


def build_leaf(t):
    if t == "sumjunc":
        return ct.summing_junction(inputs=["u", "-y"], output="e")
    if t.endswith("^"):                                   # upper system of an lft: 2x2 (`^`) or 3x3 (`^^`)
        return _b().build_upper(t.rstrip("^"), n=1 + len(t) - len(t.rstrip("^")))
    return _b().build(t)


def impl(c):
    B = _b()
    prog = c["prog"]
    try:
        objs = [build_leaf(t) for t in prog if _isleaf(t)]
    except Exception as e:  # noqa
        return {"err": B.classify_exc(e), "exc": "%s: %s" % (type(e).__name__, str(e)[:120])}
    leaves, want = symbolic(prog, [B.opnd_dt(o) for o in objs])
    res = {"L": leaves, "W": ("N" if want == "-" else want),
           "SJ": [B.opnd_dt(o) for t, o in zip([t for t in prog if _isleaf(t)], objs)
                  if t == "sumjunc"]}
    with warnings.catch_warnings():
        warnings.simplefilter("ignore")          # scipy BadCoefficients etc.: numbers are not compared
        res["R"] = B.guarded(lambda: run_prog(prog, objs))
    if "err" in res["R"] and res["R"]["err"] == "nodt":
        res["R"] = {"err": "const"}
    return res


def leaves_verdict(fam, c, impl, model):
    """model and implementation disagree on the leaf timebases"""
    from core.runner import Verdict, VIOLATES, DIFFERS
    bad = [d for d in impl.get("SJ", []) if d != "N"]
    if bad:
        return Verdict(VIOLATES, "summing_junction created without dt has timebase %s (static systems "
                       "created without dt get None)" % bad[0], fam.feat(c, "factory-dt", cls="sumjunc"))
    return Verdict(DIFFERS, "leaves: model %s, implementation %s" % (model.get("L"), impl.get("L")),
                   fam.feat(c, "expr-leaves"))


def parse_model(c, out):
    t = out.split()
    if t[0] == "err":
        return {"err": t[1]}
    res = {}
    for f in t[1:]:
        key, val = f.split("=", 1)
        if key == "L":
            res["L"] = val.split(",") if val else []
        elif val.startswith("err:"):
            res["R"] = {"err": val[4:]}
        elif val == "const":
            res["R"] = {"err": "const"}
        else:
            cls, dt = val.split(":", 1)
            res["R"] = {"cls": cls, "dt": dt}
    return res


def nontrivial(c):
    return any(":" in t and "=" not in t and t.rstrip("^").split(":")[2] != "N" for t in c["prog"]) or \
        any(t.startswith("sample=") for t in c["prog"])


def opset(c):
    return "+".join(sorted({t.split("=")[0] + ("=" + t.split("=")[1] if t.startswith("un=") else "")
                            for t in c["prog"] if "=" in t or t in NOLEAF}))
