"""Direct correspondence streams for the pure-Python selector / dispatch / configuration functions
whose Lean model is regenerated from the source text (harness/core/py2lean_select.py).

The source-text tie proves `generated = hand model`; these streams call the real function
directly (not through the public operation that uses it) on a wide, cheap, mostly exhaustive
argument table and compare with the hand model (driver family `sel`, lean/CtrlVerif/Driver/
Select.lean).  They exist so that, when an edit of the source breaks a `*Gen` obligation, the
runner's search for a failing input has a stream that reaches the edited function with arguments
the end-to-end family does not generate (wide integers, `slice_to_list=True`, the `strict` flag,
non-system arguments, aliased configuration keys, non-square shapes).

`extend(Base, stream, ...)` returns a subclass of a property's family that adds the streams'
cases (marked by the key "sel") and otherwise behaves exactly like `Base`."""
import itertools
import random

import numpy as np
import control as ct

from core.runner import Verdict, AGREE, VIOLATES, DIFFERS
from core import exact


class Stream:
    name = ""
    rule = ""

    def generate(self, rng, tier):
        return []

    def corpus(self):
        return []

    def nontrivial(self, case, model):
        return True

    def stats(self, case, impl, model):
        return {"stream": self.name}

    def shrink(self, case):
        return []


def extend(base, *streams):
    table = {s.name: s for s in streams}

    class Extended(base):
        rule = base.rule + "".join("; + direct stream `%s`: %s" % (s.name, s.rule) for s in streams)

        def _stream(self, case):
            return table.get(case.get("sel")) if isinstance(case, dict) else None

        def corpus(self):
            return list(super().corpus()) + [c for s in streams for c in s.corpus()]

        def generate(self, rng, tier):
            cases = list(super().generate(rng, tier))
            sub = random.Random(rng.random())        # drawn after the base cases: they are unchanged
            for s in streams:
                cases.extend(s.generate(sub, tier))
            return cases

        def line(self, case):
            s = self._stream(case)
            return s.line(case) if s else super().line(case)

        def impl(self, case):
            s = self._stream(case)
            return s.impl(case) if s else super().impl(case)

        def parse_model(self, case, out):
            s = self._stream(case)
            return s.parse_model(case, out) if s else super().parse_model(case, out)

        def compare(self, case, impl, model):
            s = self._stream(case)
            return s.compare(case, impl, model) if s else super().compare(case, impl, model)

        def nontrivial(self, case, model):
            s = self._stream(case)
            return s.nontrivial(case, model) if s else super().nontrivial(case, model)

        def stats(self, case, impl, model):
            s = self._stream(case)
            return s.stats(case, impl, model) if s else super().stats(case, impl, model)

        def shrink(self, case):
            s = self._stream(case)
            return s.shrink(case) if s else super().shrink(case)

        def search(self, rng, case, tier):
            s = self._stream(case)
            return s.generate(rng, "thorough")[:400] if s else super().search(rng, case, tier)

    Extended.__name__ = base.__name__
    Extended.__qualname__ = base.__qualname__
    return Extended


def err_kind(e):
    return {"TypeError": "badArg", "AttributeError": "badArg", "ValueError": "badArg",
            "IndexError": "indexRange", "KeyError": "unknownName"}.get(type(e).__name__, "other:" + type(e).__name__)


# ---------------------------------------------------------------------------------------------
# C05: isdtime / isctime / timebase and the two methods
# ---------------------------------------------------------------------------------------------

DT_TOKS = ["N", "C", "T", "D1/8", "D1/4", "D2"]
NUMBERS = {"int": 3, "float": 2.5, "complex": 1j, "npfloat": np.float64(1.0), "bool": True, "zero": 0}
OTHERS = {"str": "abc", "list": [1, 2], "object": object()}


def dt_value(t):
    v = exact.dt_untok(t)
    return v if v is None or v is True else float(v) if t not in ("C", "D2") else int(v)


_SYS_CACHE = {}


class FactoryDt(Exception):
    """the class constructor called with a positional timebase returned another timebase"""
    def __init__(self, cls, given, got):
        Exception.__init__(self, "%s constructor with positional dt=%s has timebase %s" % (cls, given, got))
        self.cls, self.given, self.got = cls, given, got


def make_sys(cls, dtok):
    key = (cls, dtok)
    if key not in _SYS_CACHE:
        dt = dt_value(dtok)
        if cls == "ss":
            s = ct.StateSpace([[-1.]], [[1.]], [[1.]], [[0.]], dt)
        elif cls == "tf":
            s = ct.TransferFunction([1.], [1., 2.], dt)
        elif cls == "frd":
            s = ct.FrequencyResponseData(np.array([1 + 1j, 2.]), [1., 2.], dt)
        else:
            s = ct.nlsys(lambda t, x, u, p: -x + u, lambda t, x, u, p: x, inputs=1, outputs=1, states=1, dt=dt)
        if exact.dt_canon(s.dt) != dtok:
            # never an assertion: a constructor that does not keep the positional timebase it was
            # given is a finding about the implementation (C05 `factory_given`), not a harness bug
            raise FactoryDt(cls, dtok, exact.dt_canon(s.dt))
        _SYS_CACHE[key] = s
    return _SYS_CACHE[key]


def pred_oracle(fn, sys, strict, dtok):
    """the documented meaning, independent of the model: a timebase is discrete when it is True or
    > 0, continuous when it is 0; None counts as either unless strict; constants are like None"""
    def p(which, t):
        if t == "N":
            return not strict
        v = exact.dt_untok(t)
        return (v is True or v > 0) if which == "d" else (v is not True and v == 0)
    which = "d" if fn.endswith("isdtime") else "c"
    if fn.startswith("m_"):
        return p(which, sys.split(":")[2])
    if fn == "timebase":
        if sys.startswith("num"):
            return "N"
        if not sys.startswith("sys"):
            return "err"
        t = sys.split(":")[2]
        return "D1" if (strict and t == "T") else t
    if sys == "none":
        return p(which, dtok)
    if dtok != "N" or sys.startswith("other"):
        return "err"
    if sys.startswith("num"):
        return not strict
    return p(which, sys.split(":")[2])


class DtPredStream(Stream):
    name = "dtpred"
    rule = ("exhaustive: {isdtime, isctime} x sys in {None, 6 constants, 3 non-system objects, 4 system "
            "classes x 6 timebases} x strict in {omitted, False, True} x dt in {None, 0, True, 0.1, 2}; "
            "timebase(sys, strict) and the two methods on the same arguments")

    def generate(self, rng, tier):
        syss = ["none"] + ["num:" + k for k in NUMBERS] + ["other:" + k for k in OTHERS] + \
            ["sys:%s:%s" % (c, t) for c in ("ss", "tf", "frd", "nl") for t in DT_TOKS]
        out = []
        for s in syss:
            for strict in (None, False, True):
                for fn in ("isdtime", "isctime"):
                    for dt in ("N", "C", "T", "D1/8", "D2"):
                        out.append({"sel": "dtpred", "fn": fn, "sys": s, "strict": strict, "dt": dt})
                    if s.startswith("sys"):
                        out.append({"sel": "dtpred", "fn": "m_" + fn, "sys": s, "strict": strict, "dt": "N"})
                if s != "none":
                    out.append({"sel": "dtpred", "fn": "timebase", "sys": s, "strict": strict, "dt": "N"})
        return out

    def strict_of(self, case):
        if case["strict"] is None:
            return case["fn"] == "timebase"          # the defaults of the signatures
        return bool(case["strict"])

    def sys_tok(self, case):
        s = case["sys"]
        if s == "none":
            return "none"
        if s.startswith("num"):
            return "num"
        if s.startswith("other"):
            return "other"
        return "sys:" + s.split(":")[2]

    def line(self, case):
        return "sel dtpred %s %s %d %s" % (case["fn"], self.sys_tok(case), self.strict_of(case), case["dt"])

    def impl(self, case):
        s = case["sys"]
        if s == "none":
            obj = None
        elif s.startswith("num"):
            obj = NUMBERS[s[4:]]
        elif s.startswith("other"):
            obj = OTHERS[s[6:]]
        else:
            _, cls, t = s.split(":")
            try:
                obj = make_sys(cls, t)
            except FactoryDt as e:
                return {"err": "factory-dt", "exc": str(e), "cls": e.cls, "given": e.given, "got": e.got}
            except Exception as e:  # noqa   (the constructor itself raised)
                return {"err": "factory-raise", "exc": "%s: %s" % (type(e).__name__, str(e)[:120]),
                        "cls": cls, "given": t, "got": "raise"}
        kw = {} if case["strict"] is None else {"strict": case["strict"]}
        fn = case["fn"]
        try:
            if fn.startswith("m_"):
                r = getattr(obj, fn[2:])(**kw)
            elif fn == "timebase":
                r = ct.timebase(obj, **kw)
                if r is not None and r is not True and not isinstance(r, (int, float)):
                    return {"err": "other:type", "exc": "timebase returned %r" % (r,)}
                if kw.get("strict", True) and r is not None and not isinstance(r, float):
                    return {"ok_dt": "nonfloat:" + exact.dt_canon(r)}
                return {"ok_dt": exact.dt_canon(r)}
            else:
                if case["dt"] != "N":
                    kw["dt"] = dt_value(case["dt"])
                r = getattr(ct, fn)(obj, **kw)
            if not isinstance(r, (bool, np.bool_)):
                return {"err": "other:type", "exc": "%s returned %r" % (fn, r)}
            return {"ok": bool(r)}
        except Exception as e:  # noqa
            return {"err": err_kind(e), "exc": "%s: %s" % (type(e).__name__, str(e)[:120])}

    def parse_model(self, case, out):
        t = out.split()
        if t[0] == "err":
            return {"err": t[1]}
        assert t[0] == "ok", out
        if t[1].startswith("b:"):
            return {"ok": t[1] == "b:1"}
        return {"ok_dt": t[1][3:]}

    def compare(self, case, impl, model):
        key = lambda r: "err" if "err" in r else r.get("ok", r.get("ok_dt"))
        if impl.get("err") in ("factory-dt", "factory-raise"):
            return Verdict(VIOLATES, "operand of the predicate stream: %s" % impl["exc"],
                           {"kind": impl["err"], "k": "dtpred", "cls": impl["cls"], "via": "classpos",
                            "given": impl["given"], "got": impl["got"]})
        if key(impl) == key(model) and ("err" not in impl or impl["err"] == model["err"]):
            return Verdict(AGREE)
        want = pred_oracle(case["fn"], case["sys"], self.strict_of(case), case["dt"])
        feats = {"kind": "dtpred", "fn": case["fn"], "sys": case["sys"].split(":")[0],
                 "strict": self.strict_of(case), "got": str(key(impl)), "want": str(want)}
        call = "%s(%s%s%s)" % (case["fn"], case["sys"], "" if case["strict"] is None else ", strict=%s" % case["strict"],
                               "" if case["dt"] == "N" else ", dt=%s" % case["dt"])
        if key(impl) != want:
            return Verdict(VIOLATES, "%s gives %s, documented meaning: %s" % (call, impl, want), feats)
        return Verdict(DIFFERS, "%s: implementation %s as documented, model %s" % (call, impl, model), feats)

    def stats(self, case, impl, model):
        return {"stream": "dtpred", "pred_fn": case["fn"], "pred_sys": case["sys"].split(":")[0],
                "pred_out": "err" if "err" in model else str(model.get("ok", model.get("ok_dt")))}


# ---------------------------------------------------------------------------------------------
# C17: _process_subsys_index called directly
# ---------------------------------------------------------------------------------------------

BAD = {"float": 0.0, "none": None, "str": "a", "tuple": (0,), "npint": np.int64(0), "ndarray": np.array([0]),
       "dict": {}}


def key_obj(k):
    if k[0] == "I":
        return k[1]
    if k[0] == "S":
        return slice(k[1], k[2], k[3])
    if k[0] == "L":
        return list(k[1])
    return BAD[k[1]]


def key_tokens(k):
    if k[0] == "I":
        return "I %d" % k[1]
    if k[0] == "S":
        return "S " + " ".join("_" if v is None else str(v) for v in k[1:4])
    if k[0] == "L":
        return "L %d%s" % (len(k[1]), "".join(" %d" % v for v in k[1]))
    return "X"


def rows_oracle(k, n):
    """Python's own index semantics"""
    def chk(i):
        if not (-n <= i < n):
            raise IndexError
        return i % n
    if k[0] == "X":
        raise TypeError
    if k[0] == "I":
        return [chk(k[1])]
    if k[0] == "S":
        return list(range(n)[slice(k[1], k[2], k[3])])      # ValueError for a zero step
    return [chk(i) for i in k[1]]


class SubsysStream(Stream):
    name = "subsys"
    rule = ("_process_subsys_index(idx, labels, slice_to_list) called directly: label lists of length 0..4, "
            "every int in -9..9 and +-100, slices start/stop in {None,-6..6} x step in {None,+-1,+-2,+-3,0} "
            "(seeded sample in the quick tier), [] and lists of <=3 ints from -6..6, 7 kinds of non-selector "
            "objects, both values of slice_to_list; the returned index is used the way the callers use it")

    def generate(self, rng, tier):
        out = []
        vals = [None] + list(range(-6, 7))
        slices = [["S", a, b, c] for a in vals for b in vals for c in (None, 1, -1, 2, -2, 3, -3, 0)]
        lists = [["L", []]] + [["L", list(c)] for ln in (1, 2, 3) for c in itertools.product(range(-6, 7), repeat=ln)]
        for n in range(0, 5):
            keys = [["I", i] for i in list(range(-9, 10)) + [-100, 100]] + [["X", b] for b in BAD]
            if tier == "quick":
                keys += rng.sample(slices, 120) + rng.sample(lists, 120) + lists[:14]
            else:
                keys += slices + lists
            for k in keys:
                for stl in (False, True):
                    if tier == "quick" and k[0] in ("S", "L") and rng.random() < 0.5:
                        continue
                    out.append({"sel": "subsys", "n": n, "key": k, "stl": stl})
        return out

    def corpus(self):
        return [{"sel": "subsys", "n": 3, "key": ["I", -1], "stl": False},
                {"sel": "subsys", "n": 3, "key": ["I", 3], "stl": True},
                {"sel": "subsys", "n": 0, "key": ["S", None, None, -1], "stl": True}]

    def labels(self, case):
        return ["s%d" % i for i in range(case["n"])]

    def line(self, case):
        return "sel subsys %d %s" % (case["n"], key_tokens(case["key"]))

    def impl(self, case):
        from control.iosys import _process_subsys_index
        n, labels = case["n"], self.labels(case)
        arg = key_obj(case["key"])
        keep = list(arg) if isinstance(arg, list) else arg
        try:
            idx, labs = _process_subsys_index(arg, list(labels), slice_to_list=case["stl"])
            kind = type(idx).__name__
            if isinstance(idx, slice):
                rows = list(range(n))[idx]
            else:
                rows = [list(range(n))[i] for i in idx]
            res = {"ok": [int(r) for r in rows], "labels": list(labs), "idx_type": kind}
        except Exception as e:  # noqa
            res = {"err": err_kind(e), "exc": "%s: %s" % (type(e).__name__, str(e)[:120])}
        res["arg_unchanged"] = (not isinstance(arg, list)) or arg == keep
        return res

    def parse_model(self, case, out):
        t = out.split()
        if t[0] == "err":
            return {"err": t[1]}
        assert t[0] == "ok" and int(t[1]) == len(t) - 2, out
        return {"ok": [int(x) for x in t[2:]]}

    def compare(self, case, impl, model):
        n, labels, k = case["n"], self.labels(case), case["key"]
        call = "_process_subsys_index(%r, %d labels, slice_to_list=%s)" % (key_obj(k), n, case["stl"])
        feats = {"kind": "subsys", "key": k[0], "stl": case["stl"]}
        try:
            want = {"ok": rows_oracle(k, n)}
        except (IndexError, TypeError, ValueError) as e:
            want = {"err": err_kind(e)}
        if "ok" in impl:
            if impl["labels"] != [labels[r] for r in impl["ok"]]:
                return Verdict(VIOLATES, "%s: labels %s do not belong to the selected channels %s"
                               % (call, impl["labels"], impl["ok"]), dict(feats, what="labels"))
            if not impl["arg_unchanged"]:
                return Verdict(VIOLATES, "%s changed its list argument" % call, dict(feats, what="mutation"))
            if case["stl"] and impl["idx_type"] == "slice":
                return Verdict(VIOLATES, "%s returned a slice" % call, dict(feats, what="slice_to_list"))
        same = lambda a, b: ("err" in a and "err" in b and a["err"] == b["err"]) or \
            ("ok" in a and "ok" in b and a["ok"] == b["ok"])
        if same(impl, model):
            return Verdict(AGREE)
        if not same(impl, want):
            return Verdict(VIOLATES, "%s gives %s, Python's index semantics: %s"
                           % (call, {k2: impl[k2] for k2 in impl if k2 in ("ok", "err", "exc")}, want),
                           dict(feats, what="rows" if "ok" in impl else "raises", want="ok" if "ok" in want else want["err"]))
        return Verdict(DIFFERS, "%s: implementation %s as Python's index semantics, model %s" % (call, impl, model),
                       dict(feats, what="model"))

    def nontrivial(self, case, model):
        return "err" in model or model["ok"] != list(range(case["n"]))

    def stats(self, case, impl, model):
        return {"stream": "subsys", "subsys_key": case["key"][0], "subsys_n": case["n"],
                "subsys_out": ("err:" + model["err"]) if "err" in model else "ok:%d" % len(model["ok"]),
                "subsys_idx_type": impl.get("idx_type", "-")}

    def shrink(self, case):
        k = case["key"]
        if k[0] == "L" and len(k[1]) > 1:
            for i in range(len(k[1])):
                yield dict(case, key=["L", k[1][:i] + k[1][i + 1:]])
        if case["n"] > 1:
            yield dict(case, n=case["n"] - 1)


# ---------------------------------------------------------------------------------------------
# C10: _check_shape / _is_symmetric called directly
# ---------------------------------------------------------------------------------------------

from fractions import Fraction

EPS64 = Fraction(1, 2 ** 52)
PERT = {"0": Fraction(0), "eps/2": EPS64 / 2, "eps": EPS64, "2eps": 2 * EPS64, "1": Fraction(1)}


class CheckShapeStream(Stream):
    name = "chk"
    rule = ("_check_shape(M, n, m, square, symmetric) called directly: float and integer arrays of every "
            "shape 1..3 x 1..3, symmetric or with one off-diagonal entry moved by {eps/2, eps, 2 eps, 1} "
            "(either sign), expected shapes n, m in 0..4, all four flag combinations (seeded sample in "
            "the quick tier)")

    def generate(self, rng, tier):
        out = []
        for p in (1, 2, 3):
            for q in (1, 2, 3):
                for dtype in ("F", "I"):
                    perts = ["0", "1"] if dtype == "I" else list(PERT)
                    for pert in perts:
                        for sign in ((1,) if pert == "0" else (1, -1)):
                            base = [[rng.randint(-3, 3) for _ in range(max(p, q))] for _ in range(max(p, q))]
                            rows = [[str(base[min(i, j)][max(i, j)]) for j in range(q)] for i in range(p)]
                            if pert != "0" and p > 1 and q > 1:
                                i, j = rng.choice([(a, b) for a in range(p) for b in range(q) if a != b
                                                   and a < q and b < p])
                                rows[j][i] = "0"           # around 0 every perturbation is a binary64 number
                                rows[i][j] = exact.tok(sign * PERT[pert])
                            for (n, m) in {(p, q), (q, p), (p, p), (rng.randint(0, 4), rng.randint(0, 4))}:
                                for sq in (0, 1):
                                    for sy in (0, 1):
                                        if tier == "quick" and rng.random() < 0.5:
                                            continue
                                        out.append({"sel": "chk", "dtype": dtype, "rows": rows, "n": n, "m": m,
                                                    "sq": sq, "sy": sy, "pert": pert})
        return out

    def line(self, case):
        rows = case["rows"]
        return "sel chk M %s %d %d %s %d %d %d %d" % (
            case["dtype"], len(rows), len(rows[0]), " ".join(v for r in rows for v in r),
            case["n"], case["m"], case["sq"], case["sy"])

    def array(self, case):
        vals = [[Fraction(v) for v in r] for r in case["rows"]]
        if case["dtype"] == "I":
            return np.array([[int(v) for v in r] for r in vals], dtype=np.int64)
        a = np.array([[float(v) for v in r] for r in vals], dtype=float)
        assert all(Fraction(float(a[i, j])) == vals[i][j] for i in range(a.shape[0]) for j in range(a.shape[1]))
        return a

    def impl(self, case):
        from control.mateqn import _check_shape
        M = self.array(case)
        keep = M.copy()
        try:
            r = _check_shape(M, case["n"], case["m"], square=bool(case["sq"]), symmetric=bool(case["sy"]), name="W")
            ok = isinstance(r, np.ndarray) and r.shape == keep.shape and bool((r == keep).all())
            return {"ok": True} if ok else {"err": "other:value", "exc": "returned %r" % (r,)}
        except Exception as e:  # noqa
            kind = {"ControlDimension": "shape", "ControlArgument": "badArg"}.get(type(e).__name__, err_kind(e))
            return {"err": kind, "exc": "%s: %s" % (type(e).__name__, str(e)[:120])}

    def parse_model(self, case, out):
        t = out.split()
        return {"ok": True} if t[0] == "ok" else {"err": t[1]}

    def oracle(self, case):
        vals = [[Fraction(v) for v in r] for r in case["rows"]]
        p, q = len(vals), len(vals[0])
        if (case["sq"] or case["sy"]) and p != q:
            return {"err": "shape"}
        if case["sy"]:
            tol = EPS64 if case["dtype"] == "F" else None
            sym = all((vals[i][j] - vals[j][i] < tol) if tol is not None else vals[i][j] == vals[j][i]
                      for i in range(p) for j in range(q))
            if not sym:
                return {"err": "badArg"}
        if (p, q) != (case["n"], case["m"]):
            return {"err": "shape"}
        return {"ok": True}

    def compare(self, case, impl, model):
        same = lambda a, b: a.get("ok") == b.get("ok") and a.get("err") == b.get("err")
        if same(impl, model):
            return Verdict(AGREE)
        want = self.oracle(case)
        call = "_check_shape(%s %s, %d, %d, square=%s, symmetric=%s)" % (
            case["dtype"], case["rows"], case["n"], case["m"], bool(case["sq"]), bool(case["sy"]))
        feats = {"kind": "chk", "dtype": case["dtype"], "sq": case["sq"], "sy": case["sy"], "pert": case["pert"],
                 "got": impl.get("err", "ok"), "want": want.get("err", "ok")}
        if not same(impl, want):
            return Verdict(VIOLATES, "%s gives %s, documented validation: %s" % (call, impl, want), feats)
        return Verdict(DIFFERS, "%s: implementation %s as documented, model %s" % (call, impl, model), feats)

    def nontrivial(self, case, model):
        return True

    def stats(self, case, impl, model):
        return {"stream": "chk", "chk_out": model.get("err", "ok"), "chk_pert": case["pert"], "chk_dtype": case["dtype"]}


# ---------------------------------------------------------------------------------------------
# C06 (also the validation primitive of C08 and C20): timeresp._check_convert_array
# ---------------------------------------------------------------------------------------------

class CCAStream(Stream):
    name = "cca"
    rule = ("_check_convert_array(in_obj, legal_shapes, msg, squeeze, transpose) called directly: 0-d to 3-d "
            "arrays with axis lengths 1..3 of dtype int64 / float64 / complex128 (numeric) and bool / uint8 / "
            "str / object (rejected), Python scalars, nested lists; legal-shape lists of the call sites "
            "([(n,), (n, 1)], [('any',), (1, 'any')], [(k,), (1, k)], [(m, k)]) around the actual shape "
            "(equal, off by one, transposed) and random ones with jokers; both flags")
    DTYPES = {"i": np.int64, "f": np.float64, "c": np.complex128}
    OTHER = ("bool", "uint8", "str", "object")

    def gen_legal(self, rng, shape):
        n = shape[0] if shape else rng.randint(1, 3)
        k = shape[-1] if shape else rng.randint(1, 3)
        r = rng.random()
        if r < 0.2:
            n2 = n + rng.choice([0, 0, 0, 1, -1])
            return [[n2], [n2, 1]]
        if r < 0.35:
            return [["any"], [1, "any"]]
        if r < 0.5:
            k2 = k + rng.choice([0, 0, 1])
            return [[k2], [1, k2]]
        if r < 0.65:
            return [[n + rng.choice([0, 0, 1]), k + rng.choice([0, 0, -1])]]
        if r < 0.75:
            return [list(reversed(shape))] if shape else [["any", "any"], [2]]
        out = []
        for _ in range(rng.randint(0, 3)):
            out.append([rng.choice(["any", 1, 2, 3]) if rng.random() < 0.8 else rng.choice(shape or [1])
                        for _ in range(rng.choice([len(shape), len(shape), rng.randint(0, 3)]))])
        return out

    def generate(self, rng, tier):
        out = []
        for _ in range(400 if tier == "quick" else 6000):
            nd = rng.choice([0, 0, 1, 1, 1, 2, 2, 2, 3])
            shape = [rng.randint(1, 3) for _ in range(nd)]
            size = int(np.prod(shape)) if shape else 1
            kind = rng.choice(["i", "f", "c", "i", "f", "o"])
            case = {"sel": "cca", "shape": shape, "data": [rng.randint(-9, 9) for _ in range(size)],
                    "kind": kind, "other": rng.choice(self.OTHER),
                    "form": rng.choice(["array", "array", "list"]),
                    "legal": self.gen_legal(rng, shape), "sq": rng.randint(0, 1), "tr": rng.randint(0, 1)}
            out.append(case)
        return out

    def corpus(self):
        return [{"sel": "cca", "shape": [3, 1], "data": [7, 8, 9], "kind": "i", "other": "bool", "form": "array",
                 "legal": [[3], [3, 1]], "sq": 1, "tr": 0},
                {"sel": "cca", "shape": [], "data": [5], "kind": "i", "other": "bool", "form": "list",
                 "legal": [["any"], [2, 2]], "sq": 0, "tr": 0},
                {"sel": "cca", "shape": [2, 3], "data": [1, 2, 3, 4, 5, 6], "kind": "f", "other": "bool",
                 "form": "array", "legal": [[3, "any"]], "sq": 0, "tr": 1},
                {"sel": "cca", "shape": [1, 1], "data": [4], "kind": "f", "other": "bool", "form": "array",
                 "legal": [["any", 1]], "sq": 1, "tr": 0},
                {"sel": "cca", "shape": [2], "data": [1, 0], "kind": "o", "other": "uint8", "form": "array",
                 "legal": [[2]], "sq": 0, "tr": 0}]

    def line(self, case):
        lst = lambda xs: "%d%s" % (len(xs), "".join(" %s" % x for x in xs))
        return "sel cca %s %s %s %d %s %d %d" % (
            case["kind"], lst(case["shape"]), lst(case["data"]), len(case["legal"]),
            " ".join(lst(s) for s in case["legal"]), case["sq"], case["tr"])

    def obj(self, case):
        shape, data = tuple(case["shape"]), case["data"]
        if case["kind"] == "o":
            o = case["other"]
            if o == "bool":
                a = np.array([bool(v % 2) for v in data]).reshape(shape)
            elif o == "uint8":
                a = np.array([abs(v) for v in data], dtype=np.uint8).reshape(shape)
            elif o == "str":
                a = np.array([str(v) for v in data]).reshape(shape)
            else:
                a = np.array([None] * len(data), dtype=object).reshape(shape)
            return a
        a = np.array(data, dtype=self.DTYPES[case["kind"]]).reshape(shape)
        if case["form"] == "list":
            return a.tolist()          # nested lists / a Python scalar of the same element type
        return a

    def impl(self, case):
        from control.timeresp import _check_convert_array
        import warnings
        legal = [tuple(s) for s in case["legal"]]
        x = self.obj(case)
        keep = np.array(x, copy=True) if isinstance(x, np.ndarray) else None
        try:
            with warnings.catch_warnings():
                warnings.simplefilter("ignore")
                r = _check_convert_array(x, legal, "msg: ", squeeze=bool(case["sq"]), transpose=bool(case["tr"]))
        except Exception as e:  # noqa
            return {"err": err_kind(e), "exc": "%s: %s" % (type(e).__name__, str(e)[:120])}
        if keep is not None and not (x.shape == keep.shape and bool((x == keep).all())):
            return {"err": "other:mutated", "exc": "the caller's array was changed"}
        k = r.dtype.kind if r.dtype.kind in "ifc" else "o"
        flat = np.asarray(r).reshape(-1)
        vals = [int(round(float(np.real(v)))) for v in flat]
        if not all(float(np.real(v)) == w and float(np.imag(v)) == 0 for v, w in zip(flat, vals)):
            return {"err": "other:value", "exc": "non-integer element %r" % (flat,)}
        return {"ok": [k, list(r.shape), vals]}

    def parse_model(self, case, out):
        t = out.split()
        if t[0] != "ok":
            return {"err": t[1]}
        nd = int(t[2])
        shape = [int(v) for v in t[3:3 + nd]]
        cnt = int(t[3 + nd])
        return {"ok": [t[1], shape, [int(v) for v in t[4 + nd:4 + nd + cnt]]]}

    def oracle(self, case):
        """the documented behaviour, computed independently with NumPy on the shapes"""
        if case["kind"] == "o":
            return {"err": "badArg"}
        a = np.array(case["data"], dtype=float).reshape(tuple(case["shape"]))
        kind = case["kind"]
        if case["tr"]:
            a = a.T
        if a.ndim == 0:
            for s in case["legal"]:
                if "any" not in s:
                    a = np.full(tuple(s), float(a))
                    kind = "f"
                    break
        ok = any(len(s) == a.ndim and all(d == "any" or d == n for d, n in zip(s, a.shape)) for s in case["legal"])
        if not ok:
            return {"err": "badArg"}
        if case["sq"]:
            a = np.squeeze(a)
            if a.ndim == 0:
                a = a.reshape((1,))
        return {"ok": [kind, list(a.shape), [int(v) for v in a.reshape(-1)]]}

    def compare(self, case, impl, model):
        same = lambda a, b: a.get("ok") == b.get("ok") and a.get("err") == b.get("err")
        if same(impl, model):
            return Verdict(AGREE)
        want = self.oracle(case)
        call = "_check_convert_array(%s %s %s data=%s, %s, squeeze=%s, transpose=%s)" % (
            case["kind"] if case["kind"] != "o" else case["other"], case["form"], case["shape"], case["data"],
            case["legal"], bool(case["sq"]), bool(case["tr"]))
        feats = {"kind": "cca", "dtype": case["kind"], "ndim": len(case["shape"]), "sq": case["sq"], "tr": case["tr"],
                 "got": impl.get("err", "ok"), "want": want.get("err", "ok")}
        if not same(impl, want):
            return Verdict(VIOLATES, "%s gives %s, documented validation: %s" % (call, impl, want), feats)
        return Verdict(DIFFERS, "%s: implementation %s as documented, model %s" % (call, impl, model), feats)

    def nontrivial(self, case, model):
        return True

    def stats(self, case, impl, model):
        return {"stream": "cca", "cca_out": model.get("err", "ok") if "err" in model else "ok",
                "cca_ndim": len(case["shape"]), "cca_kind": case["kind"], "cca_flags": "sq%d tr%d" % (case["sq"], case["tr"])}

    def shrink(self, case):
        out = []
        if len(case["legal"]) > 1:
            for i in range(len(case["legal"])):
                out.append(dict(case, legal=case["legal"][:i] + case["legal"][i + 1:]))
        for f in ("sq", "tr"):
            if case[f]:
                out.append(dict(case, **{f: 0}))
        return out


# ---------------------------------------------------------------------------------------------
# C11 (also the StateSpace constructor): statesp._ssmatrix
# ---------------------------------------------------------------------------------------------

class SsMatrixStream(Stream):
    name = "ssm"
    rule = ("_ssmatrix(data, axis, square, rows, cols) called directly: 0-d to 3-d arrays (axis lengths 0..3) "
            "of int64 / float64 given as arrays or nested lists / Python scalars, axis in {0, 1}, square in "
            "{omitted, False, True}, rows / cols omitted or around the resulting shape")

    def generate(self, rng, tier):
        out = []
        for _ in range(300 if tier == "quick" else 5000):
            nd = rng.choice([0, 1, 1, 2, 2, 2, 3])
            shape = [rng.choice([0, 1, 1, 2, 3]) for _ in range(nd)]
            if nd == 2 and rng.random() < 0.15:
                shape = [1, 0]
            size = int(np.prod(shape)) if shape else 1
            guess = {0: (1, 1), 1: (1, shape[0] if nd == 1 else 0), 2: tuple(shape) if nd == 2 else (0, 0)}.get(nd, (1, 1))
            pick = lambda g: rng.choice([None, None, g, g, g + 1, 0])
            out.append({"sel": "ssm", "shape": shape, "data": [rng.randint(-9, 9) for _ in range(size)],
                        "kind": rng.choice(["i", "f"]), "form": rng.choice(["array", "array", "list"]),
                        "axis": rng.choice([0, 1, 1]), "square": rng.choice([None, None, 0, 1]),
                        "rows": pick(guess[0]), "cols": pick(guess[1])})
        return out

    def corpus(self):
        return [{"sel": "ssm", "shape": [3], "data": [1, 2, 3], "kind": "i", "form": "list", "axis": 0,
                 "square": None, "rows": 3, "cols": None},
                {"sel": "ssm", "shape": [1, 0], "data": [], "kind": "f", "form": "array", "axis": 1,
                 "square": 1, "rows": None, "cols": None},
                {"sel": "ssm", "shape": [2, 3], "data": [1, 2, 3, 4, 5, 6], "kind": "i", "form": "array", "axis": 1,
                 "square": 1, "rows": None, "cols": None},
                {"sel": "ssm", "shape": [], "data": [4], "kind": "i", "form": "list", "axis": 1,
                 "square": None, "rows": 1, "cols": 2}]

    def line(self, case):
        lst = lambda xs: "%d%s" % (len(xs), "".join(" %s" % x for x in xs))
        opt = lambda v: "N" if v is None else str(v)
        return "sel ssm %s %s %s %d %s %s %s" % (case["kind"], lst(case["shape"]), lst(case["data"]), case["axis"],
                                                 opt(case["square"]), opt(case["rows"]), opt(case["cols"]))

    def impl(self, case):
        from control.statesp import _ssmatrix
        a = np.array(case["data"], dtype=np.int64 if case["kind"] == "i" else np.float64).reshape(tuple(case["shape"]))
        # nested lists cannot express an axis of length 0 behind another axis ([0, 2] -> [] -> shape (0,)):
        # such arrays are always handed over as arrays
        x = a.tolist() if case["form"] == "list" and 0 not in case["shape"][1:] and case["shape"][:1] != [0] else a
        keep = a.copy()
        kw = {}
        if case["square"] is not None:
            kw["square"] = bool(case["square"])
        if case["rows"] is not None:
            kw["rows"] = case["rows"]
        if case["cols"] is not None:
            kw["cols"] = case["cols"]
        try:
            r = _ssmatrix(x, axis=case["axis"], name="M", **kw)
        except Exception as e:  # noqa
            kind = {"ControlDimension": "shape"}.get(type(e).__name__, err_kind(e))
            return {"err": kind, "exc": "%s: %s" % (type(e).__name__, str(e)[:120])}
        if not bool((a == keep).all()):
            return {"err": "other:mutated", "exc": "the caller's array was changed"}
        if isinstance(x, np.ndarray) and np.shares_memory(r, x) and r.size:
            return {"err": "other:aliased", "exc": "the result shares memory with the argument"}
        k = r.dtype.kind if r.dtype.kind in "ifc" else "o"
        return {"ok": [k, list(r.shape), [int(v) for v in r.reshape(-1)]]}

    def parse_model(self, case, out):
        t = out.split()
        if t[0] != "ok":
            return {"err": t[1]}
        nd = int(t[2])
        shape = [int(v) for v in t[3:3 + nd]]
        cnt = int(t[3 + nd])
        return {"ok": [t[1], shape, [int(v) for v in t[4 + nd:4 + nd + cnt]]]}

    def oracle(self, case):
        sh = list(case["shape"])
        if len(sh) > 2:
            return {"err": "badArg"}
        if sh in ([1, 0], [0]):
            sh = [0, 0]
        elif len(sh) == 1:
            sh = [1, sh[0]] if case["axis"] == 1 else [sh[0], 1]
        elif len(sh) == 0:
            sh = [1, 1]
        if case["square"] and sh[0] != sh[1]:
            return {"err": "shape"}
        if case["rows"] is not None and sh[0] != case["rows"]:
            return {"err": "shape"}
        if case["cols"] is not None and sh[1] != case["cols"]:
            return {"err": "shape"}
        return {"ok": ["f", sh, list(case["data"])]}

    def compare(self, case, impl, model):
        same = lambda a, b: a.get("ok") == b.get("ok") and a.get("err") == b.get("err")
        if same(impl, model):
            return Verdict(AGREE)
        want = self.oracle(case)
        call = "_ssmatrix(%s %s %s, axis=%s, square=%s, rows=%s, cols=%s)" % (
            case["kind"], case["form"], case["shape"], case["axis"], case["square"], case["rows"], case["cols"])
        feats = {"kind": "ssm", "ndim": len(case["shape"]), "got": impl.get("err", "ok"), "want": want.get("err", "ok")}
        if not same(impl, want):
            return Verdict(VIOLATES, "%s gives %s, documented conversion: %s" % (call, impl, want), feats)
        return Verdict(DIFFERS, "%s: implementation %s as documented, model %s" % (call, impl, model), feats)

    def stats(self, case, impl, model):
        return {"stream": "ssm", "ssm_out": model.get("err", "ok") if "err" in model else "ok",
                "ssm_ndim": len(case["shape"])}
