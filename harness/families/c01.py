"""C01 — transfer-function arithmetic: correspondence between TransferFunction operators and
the Lean model `CtrlVerif.Model.TFDyn` (driver family `tf`)."""
import copy
from fractions import Fraction

import numpy as np
import control as ct

from core.runner import Family, Verdict, AGREE, VIOLATES, DIFFERS
from core import exact
from core.exact import fr, tok, toks, Tokens

DT01 = exact.dt_tok(0.1)     # the exact binary64 value of 0.1
BIN = ("add", "sub", "mul", "div", "append", "hcat", "vcat")


# ----------------------------------------------------------------------------
# case = expression tree (nested lists, JSON-able)
#   ["T", p, m, dt_tok, [[num, den], ...], form]   num/den: lists of rational tokens
#   ["S", q, kind]            kind: int | float | npfloat | npint
#   ["A", p, m, [q...], dtype]
#   ["neg", x] ["pow", k, x] ["fb", sign, via, x, y] ["sel", rows, cols, x] [binop, x, y]
#   [u01] ["let", name, def, body] ["var", name]: `def` is evaluated ONCE by the adapter and the
#   very same Python object is used at every ["var", name] of `body` (object identity / operand
#   history matters to the implementation; the model is a pure function, so the driver line simply
#   repeats the definition).  Leaf forms "shared" / "shared_int": equal coefficient lists anywhere
#   in the tree are passed to the constructor as the very same ndarray object.
#   [v01] ["call", spec, arg1, ..., argn]: the FUNCTION-CALL form of an operator (the wrappers of
#   control/bdalg.py) with the calling convention in `spec`:
#     {"f": "feedback", "sign": q, "skind": int|float|npint|npfloat, "pass": pos|kw|default, "kw": {...}}
#         ct.feedback(a[, b][, sign | sign=sign], **kw)   (b omitted: the default sys2=1;
#         a may be a scalar / array leaf: it is converted by the wrapper)
#     {"f": "series" | "parallel" | "append", "kw": {...}}   ct.series(a1, ..., an, **kw) ...
#     {"f": "negate", "kw": {...}}                            ct.negate(a, **kw)
#     {"f": "hcat" | "vcat", "kw": {...}}      ct.combine_tf([[a1, ..., an]] | [[a1], ..., [an]], **kw)
#   "kw": naming keywords name= / inputs= / outputs= (a string or a list of strings).  The model has
#   the wrappers as functions of the values (Model/TFCall.lean: feedbackFn, seriesFn, parallelFn,
#   appendFn, negateFn; driver words fbf / series n / parallel n / appendn n / negate).
# ----------------------------------------------------------------------------

SHARED_FORMS = ("shared", "shared_int")


def flatten(t, env=None):
    """postfix driver program of a tree; `env`: name -> program of the let-bound definitions"""
    k = t[0]
    if k == "T":
        _, p, m, dt, ents, _form = t
        s = "T %d %d %s" % (p, m, dt)
        for (n, d) in ents:
            s += " %d %s %d %s" % (len(n), " ".join(n), len(d), " ".join(d))
        return s
    if k == "S":
        return "S " + t[1]
    if k == "A":
        return "A %d %d %s" % (t[1], t[2], " ".join(t[3]))
    if k == "let":          # [u01]
        env2 = dict(env or {})
        env2[t[1]] = flatten(t[2], env)
        return flatten(t[3], env2)
    if k == "var":          # [u01]
        return env[t[1]]
    if k == "call":         # [v01]
        return flatten_call(t, env)
    if k == "neg":
        return flatten(t[1], env) + " neg"
    if k == "pow":
        return flatten(t[2], env) + " pow %d" % t[1]
    if k == "fb":
        return flatten(t[3], env) + " " + flatten(t[4], env) + " fb " + t[1]
    if k == "sel":
        return flatten(t[3], env) + " sel %d %s %d %s" % (
            len(t[1]), " ".join(map(str, t[1])), len(t[2]), " ".join(map(str, t[2])))
    if k in BIN:
        return flatten(t[1], env) + " " + flatten(t[2], env) + " " + k
    raise ValueError(k)


def flatten_call(t, env):
    """[v01] driver program of a function-call node (the naming keywords and the way `sign` is
    passed are not part of it: the value does not depend on them)"""
    spec, args = t[1], t[2:]
    f = spec["f"]
    fl = [flatten(a, env) for a in args]
    if f == "feedback":
        return fl[0] + " " + (fl[1] if len(fl) > 1 else "S 1") + " fbf " + spec["sign"]
    if f == "negate":
        return fl[0] + " negate"
    if f in ("hcat", "vcat"):
        out = fl[0]
        for x in fl[1:]:
            out += " " + x + " " + f
        return out
    if args[0][0] in ("S", "A"):
        # (only reached by shrinking) a plain number as first argument: Python's operators, which
        # the model has as binary words
        out = fl[0]
        for x in fl[1:]:
            out = (x + " " + out + " mul") if f == "series" else \
                (out + " " + x + (" add" if f == "parallel" else " append"))
        return out
    return " ".join(fl) + " %s %d" % ("appendn" if f == "append" else f, len(fl))


def children(t):
    k = t[0]
    if k in ("T", "S", "A", "var"):
        return []
    if k == "call":         # [v01]
        return list(range(2, len(t)))
    if k == "let":
        return [2, 3]
    if k == "neg":
        return [1]
    if k == "pow":
        return [2]
    if k == "fb":
        return [3, 4]
    if k == "sel":
        return [3]
    return [1, 2]


def size(t):
    return 1 + sum(size(t[i]) for i in children(t))


def has_dynamic_leaf(t):
    if t[0] == "T":
        return any(len(n) > 1 or len(d) > 1 for (n, d) in t[4])
    return any(has_dynamic_leaf(t[i]) for i in children(t))


def int_leaf(t):
    """some leaf is stored by the implementation as an integer-dtype array"""
    if t[0] == "T":
        # build_leaf decides per coefficient list (the constructor keeps the dtype of each array)
        return t[5] in ("int", "ndarray_int", "shared_int") and any(
            all(Fraction(x).denominator == 1 for x in lst) for (n, d) in t[4] for lst in (n, d))
    return any(int_leaf(t[i]) for i in children(t))


def ops_in(t, acc=None):
    acc = [] if acc is None else acc
    if t[0] == "call":      # [v01]
        acc.append("call:" + t[1]["f"])
    elif t[0] not in ("T", "S", "A", "var"):
        acc.append(t[0])
    for i in children(t):
        ops_in(t[i], acc)
    return acc


def floor_log2(v):
    """floor(log2 |v|) of a nonzero Fraction"""
    v = abs(Fraction(v))
    e = v.numerator.bit_length() - v.denominator.bit_length()
    if Fraction(2) ** e > v:
        e -= 1
    return e


# relative size 2^-k of a perturbation: around and far on both sides of the usual "close enough"
# thresholds (numpy.allclose: rtol 1e-5 ~ 2^-17, atol 1e-8 ~ 2^-27; float eps 2^-52)
# (small k matters for the tiny-magnitude classes: 3*2^-30 vs 5*2^-30 differ by < 1e-8)
NEAR_K = (1, 3, 6, 10, 14, 17, 18, 18, 20, 20, 22, 24, 24, 27, 30, 30, 34, 40, 45)


def classify_exc(e):
    msg = str(e)
    name = type(e).__name__
    if isinstance(e, ValueError):
        if "zero denominator" in msg:
            return "zeroDen"
        if "timebase" in msg or "Time steps" in msg or "does not match argument `dt" in msg:
            return "timebase"
        return "shape"
    if isinstance(e, (TypeError, NotImplementedError)):
        return "notImplemented"
    if isinstance(e, IndexError):
        return "indexRange"
    return name


def dt_value(tokn):
    if tokn == "N":
        return None
    if tokn == "T":
        return True
    if tokn == "C":
        return 0
    return float(Fraction(tokn[1:]))


def num_value(q, kind):
    q = Fraction(q)
    if kind == "int":
        return int(q)
    if kind == "npint":
        return np.int64(int(q))
    if kind == "npfloat":
        return np.float64(float(q))
    return float(q)


def build_leaf(t, cache=None):
    _, p, m, dt, ents, form = t
    def coeffs(lst):
        vals = [Fraction(x) for x in lst]
        allint = all(v.denominator == 1 for v in vals)
        if form in SHARED_FORMS:
            # [u01] one ndarray object per distinct coefficient list of the whole tree: entries (of
            # this and of other leaves) with equal lists are built from the very same array object
            asint = form == "shared_int" and allint
            key = (tuple(lst), asint)
            if cache is None:
                return np.array([int(v) for v in vals]) if asint else np.array([float(v) for v in vals])
            if key not in cache:
                cache[key] = np.array([int(v) for v in vals]) if asint else \
                    np.array([float(v) for v in vals])
            return cache[key]
        if form == "int" and allint:
            return [int(v) for v in vals]
        if form == "ndarray_int" and allint:
            return np.array([int(v) for v in vals])
        if form == "ndarray_float":
            return np.array([float(v) for v in vals])
        return [float(v) for v in vals]
    if p == 1 and m == 1 and form != "nested" and form not in SHARED_FORMS:
        num, den = coeffs(ents[0][0]), coeffs(ents[0][1])
    else:
        num = [[coeffs(ents[i * m + j][0]) for j in range(m)] for i in range(p)]
        den = [[coeffs(ents[i * m + j][1]) for j in range(m)] for i in range(p)]
    return ct.TransferFunction(num, den, dt_value(dt))


def sign_value(q, kind):
    """[v01] the `sign` argument as a Python / NumPy number of the given kind"""
    if Fraction(q).denominator != 1 and kind in ("int", "npint"):
        kind = "float" if kind == "int" else "npfloat"
    return num_value(q, kind)


def run_call(spec, args):
    """[v01] call the real wrapper of control/bdalg.py with the calling convention of `spec`"""
    kw = {k: (list(v) if isinstance(v, list) else v) for k, v in (spec.get("kw") or {}).items()}
    f = spec["f"]
    if f == "feedback":
        sign = sign_value(spec["sign"], spec.get("skind", "int"))
        how = spec.get("pass", "pos")
        if how == "default" and Fraction(spec["sign"]) != -1:
            how = "kw"
        if how == "pos" and len(args) < 2:
            how = "kw"
        if how == "pos":
            return ct.feedback(args[0], args[1], sign, **kw)
        if how == "kw":
            return ct.feedback(*args[:2], sign=sign, **kw)
        return ct.feedback(*args[:2], **kw)
    if f == "series":
        return ct.series(*args, **kw)
    if f == "parallel":
        return ct.parallel(*args, **kw)
    if f == "append":
        return ct.append(*args, **kw)
    if f == "negate":
        return ct.negate(args[0], **kw)
    if f == "hcat":
        return ct.combine_tf([list(args)], **kw)
    if f == "vcat":
        return ct.combine_tf([[a] for a in args], **kw)
    raise ValueError(f)


def run_tree(t, env=None, cache=None):
    """evaluate the tree with the real code.  `env`: name -> the object a let bound (evaluated
    once; every ["var", name] is that very object); `cache`: the shared coefficient arrays"""
    k = t[0]
    cache = {} if cache is None else cache
    ev = lambda x: run_tree(x, env, cache)
    if k == "T":
        return build_leaf(t, cache)
    if k == "S":
        return num_value(t[1], t[2])
    if k == "A":
        vals = [Fraction(x) for x in t[3]]
        if t[4] == "int" and all(v.denominator == 1 for v in vals):
            return np.array([int(v) for v in vals]).reshape(t[1], t[2])
        return np.array([float(v) for v in vals]).reshape(t[1], t[2])
    if k == "let":          # [u01]
        env2 = dict(env or {})
        env2[t[1]] = ev(t[2])
        return run_tree(t[3], env2, cache)
    if k == "var":          # [u01]
        return env[t[1]]
    if k == "call":         # [v01]
        return run_call(t[1], [ev(a) for a in t[2:]])
    if k == "neg":
        return -ev(t[1])
    if k == "pow":
        return ev(t[2]) ** t[1]
    if k == "fb":
        a, b = ev(t[3]), ev(t[4])
        sign = num_value(t[1], "float" if Fraction(t[1]).denominator != 1 else "int")
        if t[2] == "func":
            return ct.feedback(a, b, sign)
        return a.feedback(b, sign)
    if k == "sel":
        return ev(t[3])[t[1], t[2]]
    a, b = ev(t[1]), ev(t[2])
    if k == "add":
        return a + b
    if k == "sub":
        return a - b
    if k == "mul":
        return a * b
    if k == "div":
        return a / b
    if k == "append":
        return a.append(b)
    if k == "hcat":
        return ct.combine_tf([[a, b]])
    if k == "vcat":
        return ct.combine_tf([[a], [b]])
    raise ValueError(k)


# ---- [u01] begin: let/var utilities, exact rational-function matrices ------------------------
def free_vars(t, bound=frozenset()):
    k = t[0]
    if k == "var":
        return set() if t[1] in bound else {t[1]}
    if k == "let":
        return free_vars(t[2], bound) | free_vars(t[3], bound | {t[1]})
    out = set()
    for i in children(t):
        out |= free_vars(t[i], bound)
    return out


def var_uses(t, name):
    """free occurrences of ["var", name]"""
    if t[0] == "var":
        if t[1] == name:
            yield t
        return
    if t[0] == "let":
        yield from var_uses(t[2], name)
        if t[1] != name:
            yield from var_uses(t[3], name)
        return
    for i in children(t):
        yield from var_uses(t[i], name)


def subst(t, name, d):
    """t with the free occurrences of ["var", name] replaced by the (closed) tree d"""
    if t[0] == "var":
        return d if t[1] == name else t
    if t[0] == "let":
        return ["let", t[1], subst(t[2], name, d), t[3] if t[1] == name else subst(t[3], name, d)]
    t2 = list(t)
    for i in children(t):
        t2[i] = subst(t[i], name, d)
    return t2


def prune_lets(t):
    """drop the lets whose name is not used: a let is strict in the adapter (its definition is
    evaluated, and may raise, even if unused) while the driver line only contains what is used"""
    if t[0] == "let":
        body = prune_lets(t[3])
        if not any(True for _ in var_uses(body, t[1])):
            return body
        return ["let", t[1], prune_lets(t[2]), body]
    t2 = list(t)
    for i in children(t):
        t2[i] = prune_lets(t[i])
    return t2


def closed_subtrees(t, lets=()):
    """every proper sub-tree, wrapped in the enclosing lets it refers to (so that it is a case)"""
    def wrap(s, lets):
        for (name, d) in reversed(lets):
            if name in free_vars(s):
                s = ["let", name, d, s]
        return s
    if t[0] == "let":
        yield wrap(t[2], lets)
        yield from closed_subtrees(t[2], lets)
        inner = lets + ((t[1], t[2]),)
        yield wrap(t[3], inner)
        yield from closed_subtrees(t[3], inner)
        return
    for i in children(t):
        yield wrap(t[i], lets)
        yield from closed_subtrees(t[i], lets)


def peel(t):
    """(enclosing lets, first node that is not a let)"""
    lets = []
    while t[0] == "let":
        lets.append((t[1], t[2]))
        t = t[3]
    return lets, t


def operand_trees(t):
    """for a tree whose operator (below its lets) can answer `notImplemented` in the model
    (division, negative power, feedback): the operand trees as closed cases, else None"""
    lets, core = peel(t)
    def wrap(s):
        for (name, d) in reversed(lets):
            s = ["let", name, d, s]
        return s
    if core[0] == "div":
        return [wrap(core[1]), wrap(core[2])]
    if core[0] == "pow" and core[1] < 0:
        return [wrap(core[2])]
    if core[0] == "fb":
        return [wrap(core[3]), wrap(core[4])]
    if core[0] == "call" and core[1]["f"] == "feedback":       # [v01]
        return [wrap(core[2]), wrap(core[3] if len(core) > 3 else ["S", "1", "int"])]
    return None


# rational functions as unreduced pairs (num, den) of polynomials over Fraction
def rf_mul(a, b):
    return (exact.pmul(a[0], b[0]), exact.pmul(a[1], b[1]))


def rf_add(a, b):
    return (exact.padd(exact.pmul(a[0], b[1]), exact.pmul(b[0], a[1])), exact.pmul(a[1], b[1]))


def rf_neg(a):
    return (exact.pscale(Fraction(-1), a[0]), a[1])


RF0 = ([Fraction(0)], [Fraction(1)])
RF1 = ([Fraction(1)], [Fraction(1)])


def rf_const(c):
    return ([Fraction(c)], [Fraction(1)])


def rf_close(a, b, rel):
    """a == b as rational functions; `rel` = 0: exactly, else cross-multiplied coefficients agree
    to that relative tolerance"""
    lhs, rhs = exact.pmul(a[0], b[1]), exact.pmul(b[0], a[1])
    diff = exact.padd(lhs, exact.pscale(Fraction(-1), rhs))
    if rel == 0:
        return exact.pzero(diff)
    scale = max([abs(x) for x in lhs + rhs] + [Fraction(0)])
    return all(abs(x) <= rel * scale for x in diff)


def rm_mul(A, B):
    out = []
    for i in range(len(A)):
        row = []
        for j in range(len(B[0])):
            acc = RF0
            for k in range(len(B)):
                acc = rf_add(acc, rf_mul(A[i][k], B[k][j]))
            row.append(acc)
        out.append(row)
    return out


def rm_eye(n, g=RF1):
    return [[g if i == j else RF0 for j in range(n)] for i in range(n)]


def rm_det(A):
    n = len(A)
    if n == 1:
        return A[0][0]
    acc = RF0
    for j in range(n):
        minor = [row[:j] + row[j + 1:] for row in A[1:]]
        term = rf_mul(A[0][j], rm_det(minor))
        acc = rf_add(acc, rf_neg(term) if j % 2 else term)
    return acc


def value_matrix(res):
    """canonical result {"type": tf|scalar|array ...} -> (kind, matrix of rational functions)"""
    if res["type"] == "tf":
        p, m = res["p"], res["m"]
        ent = [([Fraction(x) for x in n], [Fraction(x) for x in d]) for (n, d) in res["ent"]]
        return "sys", [[ent[i * m + j] for j in range(m)] for i in range(p)]
    if res["type"] == "scalar":
        return "scalar", [[rf_const(Fraction(res["v"]))]]
    if res["type"] == "array":
        p, m = res["p"], res["m"]
        return "array", [[rf_const(Fraction(res["v"][i * m + j])) for j in range(m)] for i in range(p)]
    return None, None
# ---- [u01] end --------------------------------------------------------------------------------


def canon_result(r):
    if isinstance(r, ct.TransferFunction):
        ents = []
        for i in range(r.noutputs):
            for j in range(r.ninputs):
                ents.append([[tok(fr(c)) for c in r.num_array[i, j]],
                             [tok(fr(c)) for c in r.den_array[i, j]]])
        return {"ok": {"type": "tf", "p": r.noutputs, "m": r.ninputs,
                       "dt": exact.dt_canon(r.dt), "ent": ents}}
    if isinstance(r, np.ndarray) and r.dtype != object:
        r2 = np.atleast_2d(r)
        return {"ok": {"type": "array", "p": r2.shape[0], "m": r2.shape[1],
                       "v": [tok(fr(x)) for x in r2.flatten()]}}
    if isinstance(r, (int, float, np.number)):
        return {"ok": {"type": "scalar", "v": tok(fr(r))}}
    if isinstance(r, np.ndarray):       # [u01] an object array (NumPy's elementwise fallback)
        return {"ok": {"type": "other", "repr": "ndarray[%s]" % r.dtype}}
    return {"ok": {"type": "other", "repr": type(r).__name__}}


class C01(Family):
    prop = "C01"
    # source-text tie (notes/NOTES-py2lean-tf.md): Generated/TF*.lean are rewritten from the text of the
    # arithmetic methods of TransferFunction (control/xferfcn.py) of the tree under check on every run and
    # the run-time operators of the model are proved equal to them
    extra_modules = ["CtrlVerif.Props.C01GenNeg", "CtrlVerif.Props.C01GenAdd", "CtrlVerif.Props.C01GenMul",
                     "CtrlVerif.Props.C01GenDiv", "CtrlVerif.Props.C01GenFb", "CtrlVerif.Props.C01GenCtor",
                     "CtrlVerif.Props.C01Gen",
                     "CtrlVerif.Props.C01Call"]     # [v01] function-call forms (Model/TFCall.lean)
    # [py2lean-bdalgfn] Generated/BdalgFn*.lean from the text of the wrappers of control/bdalg.py
    extra_modules += ["CtrlVerif.Props.C01GenFn", "CtrlVerif.Props.C01GenFnFold", "CtrlVerif.Props.C01GenFnSem"]

    def pre_build(self):
        import os
        from core import py2lean_tf, leanproj
        repo = os.environ.get("VERIF_REPO") or "/repo"
        problems, self.gen_info = py2lean_tf.regenerate(repo, leanproj.LEAN)
        from core import py2lean_bdalgfn       # [py2lean-bdalgfn]
        problems2, info2 = py2lean_bdalgfn.regenerate(repo, leanproj.LEAN)
        self.gen_info.update(info2)
        return problems + problems2
    externals = ["numpy.polymul/polyadd (exact counterparts in the model, validated by the same runs)"]
    assumptions = [
        "binary64 arithmetic of the implementation is exact whenever the model-side audit passes "
        "(Driver/TFAudit.lean: for every primitive sum of every polymul/polyadd/scaling of the tree all "
        "terms are multiples of 2^e and their absolute sum is < 2^(e+53), so no order of summation can "
        "round); then results are compared exactly.  Where an integer-dtype array is involved exact "
        "comparison additionally needs every intermediate below 2^50.  Otherwise: legacy streams are "
        "compared to a relative tolerance of 1e-9, cases of the near-equal stream are not judged "
        "(histogram key near=not-judged(rounding)), and a zero-denominator disagreement is not judged",
        "the timebase of results is checked by C05; C01 uses operands with compatible timebases",
        # [u01]
        "where the model answers notImplemented (MIMO divisor, negative power of a MIMO system, MIMO "
        "feedback) and the implementation returns a system, that system is tested in exact "
        "rational-function arithmetic of the harness (Fractions; operand values from the model) "
        "against X*B == A with det B != 0, X*M^k == I, (I - sign*G*H)*X == G "
        "(Props/C01: quotient_criterion, neg_pow_criterion, feedback_criterion, "
        "no_inverse_of_det_not_unit) to a relative tolerance of 1e-9; a non-finite (inf/nan) "
        "implementation result is judged only when the audit bounds every term below 2^1000 "
        "(histogram key nonfinite=not-judged(overflow) otherwise)",
        "a let-bound operand is evaluated once by the adapter and the same Python object is used "
        "at every occurrence; the model is a pure function, so its driver line repeats the definition",
        # [v01]
        "the value returned by a wrapper of control/bdalg.py (feedback, series, parallel, negate, append, "
        "combine_tf) does not depend on its naming keywords nor on how `sign` is passed: the model "
        "functions (Model/TFCall.lean) take the operands and `sign` only, the adapter calls the real "
        "wrapper with the keywords; the names given to the result are not compared (naming is outside C01)"]
    rule = ("random expression trees over TransferFunction leaves (shapes {1,2,3}^2, degree<=3, "
            "coefficients -4..4, zero numerators, static gains, improper entries, int/float/ndarray "
            "input forms), scalars and arrays on either side; plus a near-equal stream (case key "
            "'near'): every leaf entry is a dyadic perturbation (relative 2^-1 .. 2^-45, or exactly "
            "equal) of one or two base fractions whose coefficients are normal, tiny (2^-27..2^-40: "
            "tail, leading or all coefficients) or large (2^10..2^24), used in operator trees, SISO "
            "pairs, near-singular feedback loops (H ~ sign/G), near-cancelling differences as "
            "divisors, and row*column products; plus a shared-object stream (case key 'alias'): "
            "let-bound operands used several times (the same TransferFunction object on both sides of "
            "an operator, operands used again after an operator has seen them), systems several "
            "entries of which are the same coefficient array objects (append(G,G), combine_tf([[G,G]]), "
            "2x2 blocks of G, G[[0,0],[1,1]], tf([[n,n]],[[d,d]]) with one ndarray n; even and odd "
            "numbers of aliases) followed by neg / sub / the other operators; plus a dispatch stream "
            "(case key 'dispatch'): one operator (/, **k incl. negative k, feedback, + - *, append, "
            "hcat, vcat) on every combination of operand classes (scalar, 2-D array, SISO, row, "
            "column, square and non-square MIMO system; literal or assembled), including the "
            "combinations the code rejects; plus a call-form stream (case key 'call'): the operators "
            "called through the wrappers of bdalg.py - ct.feedback(sys1[, sys2][, sign | sign=..]) with "
            "sign in {-1, 1, 2, -2, 1/2, -1/2, 3, 0} as int / float / NumPy number, passed positionally, "
            "by keyword or defaulted, sys2 defaulted, scalar / array / MIMO first arguments; "
            "ct.series / ct.parallel / ct.append with 1-4 arguments (blocks, SISO systems, scalars, "
            "arrays); ct.negate; ct.combine_tf with 1-3 blocks - each with and without the naming "
            "keywords name= / inputs= / outputs= (strings and lists), the result used by one more "
            "operator, and the call forms substituted into trees of the other streams; a case is non-trivial when it has a "
            "dynamic leaf, at least one binary operator, and the model result is a non-constant system; "
            "distinct = distinct canonical serialisation")

    # ---- generation -------------------------------------------------------
    def rnd_coeffs(self, rng, deg, nonzero=True, big=False):
        if big:
            c = [rng.choice([-1, 1]) * rng.randint(2 ** 31, 2 ** 40) for _ in range(deg + 1)]
        else:
            c = [rng.randint(-4, 4) for _ in range(deg + 1)]
        if nonzero and all(x == 0 for x in c):
            c[rng.randrange(len(c))] = rng.choice([-2, -1, 1, 2, 3])
        if rng.random() < 0.8 and c[0] == 0 and nonzero:
            c[0] = rng.choice([-2, -1, 1, 2])
        return [str(x) for x in c]

    # -- near-equal / small-magnitude coefficients (dyadic, so the arithmetic stays exact) --
    def near_poly(self, rng, deg, nonzero):
        """small-integer polynomial whose coefficients are moved to a magnitude class"""
        c = [Fraction(int(x)) for x in self.rnd_coeffs(rng, deg, nonzero)]
        mode = rng.choice(["normal"] * 6 + ["tiny_tail", "tiny_tail", "all_tiny", "large",
                                             "large_tail", "tiny_lead"])
        s = Fraction(2) ** rng.choice([27, 28, 30, 33, 36, 40])
        L = Fraction(2) ** rng.choice([10, 16, 20, 24])
        if mode == "tiny_tail":
            c = c[:1] + [x / s for x in c[1:]]
        elif mode == "all_tiny":
            c = [x / s for x in c]
        elif mode == "large":
            c = [x * L for x in c]
        elif mode == "large_tail":
            c = c[:1] + [x * L for x in c[1:]]
        elif mode == "tiny_lead":
            c = [c[0] / s] + c[1:]
        return c

    def near_ctx(self, rng, kmax=45):
        """one or two base fractions; every leaf entry of the tree is a small perturbation of one.
        `kmax` bounds the relative fineness 2^-k so that the arithmetic of the template mostly
        stays within 53 bits (the model's audit decides case by case)"""
        bases = []
        for _ in range(rng.choice([1, 1, 2])):
            dn = rng.choice([1, 1, 1, 2, 2, 3])
            nn = rng.choice([0, 0, 0, 1, 1, 2])
            bases.append((self.near_poly(rng, nn, True), self.near_poly(rng, dn, True)))
        ks = [k for k in NEAR_K if k <= kmax]
        return {"bases": bases, "ks": ks, "k": rng.choice(ks), "fixk": rng.random() < 0.7}

    def near_perturb(self, rng, poly, ctx, force=True):
        out = list(poly)
        if rng.random() < 0.5:
            idx = [rng.randrange(len(out))]
        else:
            idx = [i for i in range(len(out)) if rng.random() < 0.6]
        if force and not idx:
            idx = [rng.randrange(len(out))]
        for i in idx:
            k = ctx["k"] if ctx["fixk"] else rng.choice(ctx["ks"])
            j = rng.choice([-3, -1, 1, 1, 3, 5])
            if out[i] == 0:
                if rng.random() < 0.5:       # a zero coefficient becomes a tiny one
                    out[i] = Fraction(j) / 2 ** rng.choice([27, 30, 36, 45])
            else:
                out[i] = out[i] + Fraction(j) * Fraction(2) ** (floor_log2(out[i]) - k)
        return out

    def near_entry(self, rng, ctx):
        num, den = ctx["bases"][0] if rng.random() < 0.75 else rng.choice(ctx["bases"])
        r = rng.random()
        if ctx.get("plain"):
            pass
        elif r < 0.55 or ctx.get("den_only"):
            den = self.near_perturb(rng, den, ctx)
        elif r < 0.7:
            num = self.near_perturb(rng, num, ctx)
        elif r < 0.85:
            num, den = self.near_perturb(rng, num, ctx), self.near_perturb(rng, den, ctx)
        if rng.random() < 0.04:
            num = [Fraction(0)] * len(num)
        return [[tok(x) for x in num], [tok(x) for x in den]]

    def near_leaf(self, rng, shape, dt, ctx):
        p, m = shape
        ents = [self.near_entry(rng, ctx) for _ in range(p * m)]
        ldt = dt if rng.random() < 0.8 else "N"
        # float storage only: the exactness audit of the model is about binary64 arithmetic
        return ["T", p, m, ldt, ents, rng.choice(["float", "ndarray_float", "nested"])]

    def near_case(self, rng, tier):
        """trees whose leaves have near-equal (or exactly equal) denominators / numerators, tiny or
        large coefficients, near-singular loops and near-cancelling differences"""
        dt = rng.choice(["C", "C", "C", "N", "T", DT01, "D1/4"])
        r = rng.random()
        if r < 0.35:     # any operator tree over near-equal leaves
            depth = rng.choice([1, 1, 1, 2]) if tier == "quick" else rng.choice([1, 1, 2, 2, 3])
            ctx = self.near_ctx(rng, 24 if depth == 1 else 12)
            shape = (1, 1) if rng.random() < 0.4 else self.rshape(rng)
            t = self.gen(rng, depth, shape, dt, {"near": ctx})
            if t[0] == "T":
                t = [rng.choice(["add", "sub"]), t, self.near_leaf(rng, shape, dt, ctx)]
            return t
        if r < 0.6:      # one operator on a near-equal SISO pair
            op = rng.choice(["add", "add", "add", "sub", "sub", "mul", "div", "fb"])
            ctx = self.near_ctx(rng, 45 if op in ("add", "sub") else 24)
            a, b = (self.near_leaf(rng, (1, 1), dt, ctx) for _ in range(2))
            if op == "fb":
                return ["fb", rng.choice(["-1", "1", "2", "-1/2"]), rng.choice(["method", "func"]), a, b]
            return [op, a, b]
        if r < 0.73:     # near-singular loop: H ~ sign / G, so 1 - sign*H*G is tiny but not zero
            ctx = self.near_ctx(rng, 45)
            sign = rng.choice(["1", "-1", "-1", "2", "-1/2"])
            a = self.near_leaf(rng, (1, 1), dt, ctx)
            n, d = ([Fraction(x) for x in v] for v in a[4][0])
            if all(x == 0 for x in n):
                n = [Fraction(1)]
                a = ["T", 1, 1, a[3], [[["1"], a[4][0][1]]], a[5]]
            hn = [x / Fraction(sign) for x in d]
            if rng.random() < 0.85:
                hn = self.near_perturb(rng, hn, ctx)
            h = ["T", 1, 1, a[3], [[[tok(x) for x in hn], [tok(x) for x in n]]], "float"]
            return ["fb", sign, rng.choice(["method", "func"]), a, h]
        if r < 0.86:     # a near-cancelling difference used as divisor / operand
            ctx = self.near_ctx(rng, 14)
            g = lambda: self.near_leaf(rng, (1, 1), dt, ctx)
            d1 = ["sub", g(), g()]
            q = rng.random()
            if q < 0.35:
                return ["div", g(), d1]
            if q < 0.55:
                return ["pow", -1, d1]
            if q < 0.8:
                return ["div", d1, ["sub", g(), g()]]
            return [rng.choice(["mul", "add"]), d1, g()]
        # row * column / matrix sum: the entry sums meet near-equal denominators
        ctx = self.near_ctx(rng, 22)
        k = rng.choice([2, 2, 2, 3])
        p, m = rng.choice([(1, 1), (1, 1), (2, 1), (1, 2), (2, 2)])
        other = dict(ctx, plain=True) if rng.random() < 0.7 else dict(ctx, den_only=True)
        G = self.near_leaf(rng, (p, k), dt, dict(ctx, den_only=True))
        H = self.near_leaf(rng, (k, m), dt, other)
        if rng.random() < 0.25:
            H = self.array(rng, (k, m))
        return ["mul", G, H] if rng.random() < 0.7 else ["mul", H, self.near_leaf(
            rng, (m, k), dt, dict(ctx, den_only=True))]

    # ---- [u01] begin: operands with a history (shared objects); operator x operand-class dispatch ----
    def alias_leaf(self, rng, shape, dt, shared=False):
        """small leaf, mostly without leading zeros; `shared`: the entries are drawn from a pool of
        one or two fractions and built from the very same ndarray objects (tf([[n, n]], [[d, d]]))"""
        p, m = shape
        def ent():
            num = self.rnd_coeffs(rng, rng.choice([0, 1, 1, 2]), True)
            den = self.rnd_coeffs(rng, rng.choice([0, 1, 1, 2]), True)
            if rng.random() < 0.85:
                if num[0] == "0":
                    num[0] = rng.choice(["1", "-2", "3"])
                if den[0] == "0":
                    den[0] = rng.choice(["1", "2", "-1"])
            if rng.random() < 0.15:
                num = [tok(Fraction(x) / 4) for x in num]
            return [num, den]
        ldt = dt if rng.random() < 0.85 else "N"
        if shared:
            pool = [ent() for _ in range(rng.choice([1, 1, 2]))]
            if len(pool) == 2 and rng.random() < 0.3:
                pool[1] = [pool[0][0], pool[1][1]]      # same numerator array, another denominator
            ents = [rng.choice(pool) for _ in range(p * m)]
            return ["T", p, m, ldt, ents, rng.choice(["shared", "shared", "shared_int"])]
        ents = [ent() for _ in range(p * m)]
        return ["T", p, m, ldt, ents,
                rng.choice(["float", "int", "ndarray_int", "ndarray_float", "nested", "shared"])]

    def assemble(self, rng, g, shape, dt):
        """a system several entries of which ARE the same coefficient objects: built from the block
        `g` (a ["var", name] of shape `shape`) by append / combine_tf / indexing.
        Returns (tree, shape of the tree)."""
        p, m = shape
        r = rng.random()
        if r < 0.2:
            return ["append", g, g], (2 * p, 2 * m)
        if r < 0.36:
            return ["hcat", g, g], (p, 2 * m)
        if r < 0.5:
            return ["vcat", g, g], (2 * p, m)
        if r < 0.6:         # four aliases
            return ["vcat", ["hcat", g, g], ["hcat", g, g]], (2 * p, 2 * m)
        if r < 0.68:        # an odd number of aliases
            return ["hcat", ["hcat", g, g], g], (p, 3 * m)
        if r < 0.76:        # two aliases around a different block
            h = self.alias_leaf(rng, shape, dt)
            if rng.random() < 0.5:
                return ["hcat", ["hcat", g, h], g], (p, 3 * m)
            return ["vcat", ["vcat", g, h], g], (3 * p, m)
        # indexing with repeated rows / columns: G[[0, 0], [1, 1]]
        rows = [rng.randrange(p) for _ in range(rng.choice([1, 2, 2, 3]))]
        cols = [rng.randrange(m) for _ in range(rng.choice([1, 2, 2]))]
        if len(rows) * len(cols) == 1:
            rows = rows * 2
        return ["sel", rows, cols, g], (len(rows), len(cols))

    def alias_case(self, rng, tier):
        """operands that have a HISTORY: the same system object / the same coefficient array
        objects occur several times (let-bound blocks, append(G, G), combine_tf([[G, G]]),
        G[[0, 0], 0], tf([[n, n]], [[d, d]])), then negation, subtraction and the other operators"""
        dt = rng.choice(["C", "C", "C", "N", "T", DT01, "D1/4"])
        r = rng.random()
        if r < 0.5:
            # (1) assemble, then negate / subtract (the operators that work on a copy of the arrays)
            if rng.random() < 0.2:      # the aliases are made by one constructor call
                ashape = rng.choice([(1, 2), (2, 1), (2, 2), (2, 2), (2, 3), (3, 2)])
                lets = [("a", self.alias_leaf(rng, ashape, dt, shared=True))]
            else:
                shape = rng.choice([(1, 1), (1, 1), (1, 1), (1, 2), (2, 1), (2, 2)])
                gdef = self.alias_leaf(rng, shape, dt) if rng.random() < 0.75 else \
                    self.gen(rng, 1, shape, dt, {})
                A, ashape = self.assemble(rng, ["var", "g"], shape, dt)
                lets = [("g", gdef), ("a", A)]
            a = ["var", "a"]
            B = lambda: self.alias_leaf(rng, ashape, dt)
            q = rng.randrange(13)
            if q == 0 or q == 1:
                t = ["neg", a]
            elif q == 2:
                t = ["sub", B(), a]
            elif q == 3:
                t = ["sub", a, B()]
            elif q == 4:
                t = ["sub", self.scalar(rng) if rng.random() < 0.5 else self.array(rng, ashape), a]
            elif q == 5:
                t = ["sub", a, a]
            elif q == 6:
                t = ["add", ["neg", a], a]
            elif q == 7:
                t = ["sub", self.alias_leaf(rng, (1, 1), dt), a]
            elif q == 8:
                t = ["neg", ["neg", a]]
            elif q == 9:
                t = ["mul", ["neg", a], self.alias_leaf(rng, (ashape[1], rng.choice([1, 2])), dt)]
            elif q == 10:
                t = ["sub", ["mul", self.scalar(rng), a], a]
            elif q == 11:
                t = [rng.choice(["hcat", "vcat"]), ["neg", a], a]
            else:
                t = ["div", ["neg", a], self.alias_leaf(rng, (1, 1), dt)]
            if rng.random() < 0.25 and t[0] not in ("hcat", "vcat") and \
                    not (t[0] == "mul" and t[1][0] == "neg"):
                t = [rng.choice(["add", "sub"]), t, B()] if rng.random() < 0.6 else \
                    ["mul", self.scalar(rng), t]
            for (name, d) in reversed(lets):
                t = ["let", name, d, t]
            return t
        if r < 0.78:
            # (2) the same object on both sides of one operator: op(f(G), h(G))
            shape = rng.choice([(1, 1), (1, 1), (1, 1), (1, 2), (2, 1), (2, 2), (2, 2), (3, 3)])
            gdef = self.alias_leaf(rng, shape, dt, shared=rng.random() < 0.15) \
                if rng.random() < 0.8 else self.gen(rng, 1, shape, dt, {})
            g = ["var", "g"]
            def f():
                q = rng.random()
                if q < 0.55:
                    return g
                if q < 0.75:
                    return ["neg", g]
                if q < 0.85:
                    return ["mul", self.scalar(rng), g]
                if q < 0.93 and shape[0] == shape[1]:
                    return ["pow", rng.choice([1, 2]), g]
                return ["sel", list(range(shape[0])), list(range(shape[1])), g]
            ops = ["add", "sub", "sub", "append", "hcat", "vcat"]
            if shape[0] == shape[1]:
                ops += ["mul", "mul"]
            if shape == (1, 1):
                ops += ["div", "div", "fb", "fb"]
            op = rng.choice(ops)
            if op == "fb":
                t = ["fb", rng.choice(["-1", "1", "2", "-1/2"]), rng.choice(["method", "func"]), f(), f()]
            else:
                t = [op, f(), f()]
            if rng.random() < 0.3:      # ... and the operand once more afterwards
                t = [rng.choice(["add", "sub"]), t, g] if op in ("add", "sub", "mul", "div", "fb") \
                    else ["neg", t]
            return ["let", "g", gdef, t]
        # (3) random operator trees over let-bound operands
        shape = self.rshape(rng)
        shapes = [shape, (1, 1), (shape[1], shape[0]), self.rshape(rng)]
        lets = []
        for i, shp in enumerate(shapes[:rng.choice([2, 3, 4])]):
            d = self.alias_leaf(rng, shp, dt, shared=rng.random() < 0.15) if rng.random() < 0.8 \
                else self.gen(rng, 1, shp, dt, {})
            lets.append(("v%d" % i, shp, d))
        depth = rng.choice([2, 2, 3]) if tier == "quick" else rng.choice([2, 3, 3, 4])
        t = self.gen(rng, depth, shape, dt, {"alias": [(n, shp) for (n, shp, _) in lets]})
        if t[0] in ("var", "T"):
            t = [rng.choice(["add", "sub", "sub"]), t, ["var", "v0"]]
        for (name, _, d) in reversed(lets):
            t = ["let", name, d, t]
        return t

    def dispatch_operand(self, rng, dt, mimo=False, sys_only=False):
        """one operand of a given class: scalar, array, SISO / row / column / square / non-square
        system, from literals or assembled"""
        r = rng.random()
        if not sys_only and not mimo and r < 0.1:
            return self.scalar(rng)
        if not sys_only and r < 0.2:
            return self.array(rng, rng.choice([(1, 2), (2, 1), (2, 2), (2, 3), (3, 3)] +
                                               ([] if mimo else [(1, 1)])))
        shapes = [(1, 2), (2, 1), (2, 2), (2, 2), (2, 2), (2, 3), (3, 2), (3, 3)]
        if not mimo:
            shapes += [(1, 1)] * 4
        shape = rng.choice(shapes)
        q = rng.random()
        if q < 0.55 or shape == (1, 1):
            return self.alias_leaf(rng, shape, dt, shared=rng.random() < 0.15)
        if q < 0.8:
            # assembled from one SISO block (append / combine_tf / indexing)
            g = self.alias_leaf(rng, (1, 1), dt)
            for _ in range(6):
                t, shp = self.assemble(rng, ["var", "b"], (1, 1), dt)
                if shp == shape:
                    return ["let", "b", g, t]
            if shape == (2, 2):
                return ["let", "b", g, ["append", ["var", "b"], ["var", "b"]]]
        return self.gen(rng, 1, shape, dt, {})

    def dispatch_case(self, rng, tier):
        """one operator applied to every combination of operand classes (also the combinations
        the code rejects: MIMO divisor, negative power of a MIMO system, MIMO feedback, shape
        mismatches)"""
        dt = rng.choice(["C", "C", "C", "N", "T", DT01])
        op = rng.choice(["div"] * 6 + ["pow"] * 4 + ["fb"] * 3 +
                        ["add", "sub", "mul", "mul", "append", "hcat", "vcat"])
        if op == "pow":
            return ["pow", rng.choice([-3, -2, -1, -1, -1, 0, 1, 2]),
                    self.dispatch_operand(rng, dt, mimo=rng.random() < 0.75, sys_only=True)]
        if op == "fb":
            a = self.dispatch_operand(rng, dt, mimo=rng.random() < 0.6, sys_only=True)
            b = self.dispatch_operand(rng, dt, mimo=rng.random() < 0.5)
            return ["fb", rng.choice(["-1", "-1", "1", "2", "-1/2"]), rng.choice(["method", "func"]), a, b]
        if op == "div":
            b = self.dispatch_operand(rng, dt, mimo=rng.random() < 0.8)
            a = self.dispatch_operand(rng, dt, mimo=rng.random() < 0.3, sys_only=b[0] in ("S", "A"))
            return ["div", a, b]
        if op in ("append", "hcat", "vcat"):
            a = self.dispatch_operand(rng, dt, sys_only=True)
            b = self.dispatch_operand(rng, dt, mimo=rng.random() < 0.3)
            if b[0] == "S":
                b = self.array(rng, (1, 1))
            return [op, a, b]
        a = self.dispatch_operand(rng, dt)
        b = self.dispatch_operand(rng, dt, sys_only=a[0] in ("S", "A"))
        return [op, a, b]
    # ---- [u01] end ----------------------------------------------------------------------------

    # ---- [v01] begin: function-call forms of the operators (calling conventions) ----------------
    KW_NAMES = ("T", "loop", "sys_cl", "P1", "G", "sys[3]")

    def naming_kw(self, rng, shape, none_ok=True):
        """naming keywords of a wrapper call.  `shape` = (outputs, inputs) of the result if it is
        certain (then inputs= / outputs= are drawn too: a string stands for ONE signal, so it is
        used only for a count of 1, otherwise a list of that many names), or None (name= only)"""
        r = rng.random()
        if none_ok and r < 0.2:
            return {}
        kw = {}
        def labels(n, stem):
            if n == 1 and rng.random() < 0.6:
                return rng.choice([stem, stem + "1", "sig"])
            pre = rng.choice([stem, stem + "_", "w"])
            return ["%s%d" % (pre, i) for i in range(n)]
        if shape is None:
            return {"name": rng.choice(self.KW_NAMES)}
        which = rng.choice(["name", "name", "in", "out", "io", "io", "all", "all"])
        if which in ("name", "all"):
            kw["name"] = rng.choice(self.KW_NAMES)
        if which in ("in", "io", "all"):
            kw["inputs"] = labels(shape[1], "r")
        if which in ("out", "io", "all"):
            kw["outputs"] = labels(shape[0], "y")
        return kw

    def fb_spec(self, rng, has_b=True):
        """calling convention of ct.feedback: the value of sign, its number type, how it is passed
        (positionally, as a keyword, left to the default) and the naming keywords"""
        sign = rng.choice(["1", "1", "1", "-1", "-1", "2", "-2", "-1/2", "1/2", "3", "0"])
        how = rng.choice(["pos", "pos", "kw", "kw"])
        if sign == "-1" and rng.random() < 0.5:
            how = "default"
        if not has_b and how == "pos":
            how = "kw"
        return {"f": "feedback", "sign": sign, "pass": how,
                "skind": rng.choice(["int", "int", "float", "npfloat", "npint"]),
                "kw": self.naming_kw(rng, (1, 1))}

    def call_operand(self, rng, shape, dt, lets):
        """operand of certain shape: literal leaf (80 %), a let-bound literal used again, or a
        literal in another input form"""
        if lets is not None and rng.random() < 0.25:
            cands = [n for (n, shp, _) in lets if shp == shape]
            if cands and rng.random() < 0.6:
                return ["var", rng.choice(cands)]
            name = "c%d" % len(lets)
            lets.append((name, shape, self.alias_leaf(rng, shape, dt, shared=rng.random() < 0.2)))
            return ["var", name]
        if rng.random() < 0.25:
            return self.leaf(rng, shape, dt)
        return self.alias_leaf(rng, shape, dt, shared=rng.random() < 0.1)

    def call_case(self, rng, tier):
        """the operators called through the wrappers of bdalg.py, with every calling convention:
        sign passed positionally / by keyword / defaulted, sys2 defaulted, scalar and array first
        arguments, one to four arguments of the n-ary forms, with and without naming keywords"""
        dt = rng.choice(["C", "C", "C", "N", "T", DT01, "D1/4"])
        lets = []
        r = rng.random()
        known = True        # the shape of the root result is certain
        if r < 0.42:
            # (a) ct.feedback(sys1[, sys2][, sign], **naming)
            q = rng.random()
            if q < 0.74:
                a = self.call_operand(rng, (1, 1), dt, lets)
            elif q < 0.8:
                a = self.gen(rng, 1, (1, 1), dt, {})
            elif q < 0.88:
                a = self.scalar(rng)
            elif q < 0.92:
                a = self.array(rng, (1, 1))
            else:
                a = self.call_operand(rng, rng.choice([(1, 2), (2, 1), (2, 2)]), dt, lets)
            q = rng.random()
            if q < 0.58:
                b = self.call_operand(rng, (1, 1), dt, lets)
            elif q < 0.72:
                b = self.scalar(rng)
            elif q < 0.78:
                b = self.array(rng, (1, 1))
            elif q < 0.9:
                b = None        # sys2 left to its default (unity feedback)
            elif q < 0.95:
                b = self.gen(rng, 1, (1, 1), dt, {})
            else:
                b = self.call_operand(rng, rng.choice([(1, 2), (2, 1), (2, 2)]), dt, lets)
            t = ["call", self.fb_spec(rng, b is not None), a] + ([b] if b is not None else [])
            shape = (1, 1)
        elif r < 0.75:
            # (b) n-ary series / parallel / append
            f = rng.choice(["series", "series", "parallel", "parallel", "append"])
            n = rng.choice([1, 2, 2, 2, 3, 3, 4])
            if f == "series":
                dims = [rng.choice([1, 1, 2, 2, 3]) for _ in range(n + 1)]
                args = []
                for i in range(n):
                    shp = (dims[i + 1], dims[i])
                    q = rng.random()
                    if i > 0 and q < 0.12:      # a SISO system / scalar between the blocks
                        dims[i + 1] = dims[i]
                        args.append(self.call_operand(rng, (1, 1), dt, lets) if q < 0.07
                                    else self.scalar(rng))
                    elif i > 0 and q < 0.22:
                        args.append(self.array(rng, shp))
                    else:
                        args.append(self.call_operand(rng, shp, dt, lets))
                shape = (dims[n], dims[0])
            elif f == "parallel":
                shape = self.rshape(rng)
                args = [self.call_operand(rng, shape, dt, lets)]
                for i in range(1, n):
                    q = rng.random()
                    args.append(self.call_operand(rng, (1, 1), dt, lets) if q < 0.1 else
                                self.scalar(rng) if q < 0.2 else
                                self.array(rng, shape) if q < 0.3 else
                                self.call_operand(rng, shape, dt, lets))
            else:
                shp = self.rshape(rng) if rng.random() < 0.5 else (1, 1)
                args = [self.call_operand(rng, shp, dt, lets)]
                shape = shp
                for i in range(1, n):
                    shp = rng.choice([(1, 1), (1, 1), (1, 2), (2, 1), (2, 2)])
                    q = rng.random()
                    args.append(self.array(rng, shp) if q < 0.15 else
                                self.call_operand(rng, shp, dt, lets))
                    if q >= 0.15 and q < 0.25:
                        args[-1], shp = self.scalar(rng), (1, 1)
                    shape = (shape[0] + shp[0], shape[1] + shp[1])
            t = ["call", {"f": f, "kw": self.naming_kw(rng, shape)}] + args
        elif r < 0.87:
            # (c) ct.negate(G, **naming), ct.combine_tf(blocks, **naming)
            if rng.random() < 0.35:
                shape = self.rshape(rng)
                t = ["call", {"f": "negate", "kw": self.naming_kw(rng, shape)},
                     self.call_operand(rng, shape, dt, lets)]
            else:
                f = rng.choice(["hcat", "vcat"])
                n = rng.choice([1, 2, 2, 3])
                c = rng.choice([1, 1, 2, 3])      # the common dimension
                ks = [rng.choice([1, 1, 2]) for _ in range(n)]
                args = [self.call_operand(rng, (c, k) if f == "hcat" else (k, c), dt, lets) for k in ks]
                for i in range(1, n):
                    if rng.random() < 0.12:
                        args[i] = self.array(rng, (c, ks[i]) if f == "hcat" else (ks[i], c))
                shape = (c, sum(ks)) if f == "hcat" else (sum(ks), c)
                t = ["call", {"f": f, "kw": self.naming_kw(rng, shape)}] + args
        else:
            # (d) the call forms anywhere in a tree of one of the other streams
            for _ in range(20):
                q = rng.random()
                base = self.gen(rng, rng.choice([1, 2, 2, 3]), self.rshape(rng), dt, {}) if q < 0.5 \
                    else self.alias_case(rng, tier) if q < 0.8 else self.dispatch_case(rng, tier)
                t = self.callify(rng, base, 0.7)
                if any(o.startswith("call:") for o in ops_in(t)):
                    break
            return t
        # the result of the call used by one more operator (the wrapper must hand back a proper,
        # independent system), possibly next to the same operand object
        q = rng.random()
        if q < 0.3:
            o = self.call_operand(rng, shape, dt, lets)
            t = [rng.choice(["add", "sub", "sub"]), t, o] if rng.random() < 0.6 else \
                ["sub", o, t]
        elif q < 0.4:
            t = ["mul", self.scalar(rng), t] if rng.random() < 0.5 else ["neg", t]
        elif q < 0.48 and shape == (1, 1):
            t = ["call", self.fb_spec(rng), t, self.call_operand(rng, (1, 1), dt, lets)] \
                if rng.random() < 0.5 else ["div", self.call_operand(rng, (1, 1), dt, lets), t]
        for (name, _, d) in reversed(lets):
            t = ["let", name, d, t]
        return t

    def callify(self, rng, t, prob):
        """the same tree with operators replaced by their function-call forms where one exists
        (a + b -> parallel(a, b), a * b -> series(b, a), -a -> negate(a), feedback, append,
        combine_tf), nested same operators merged into one n-ary call now and then; the shapes of
        the results are not known here, so only name= is passed (feedback: the result is 1x1)"""
        k = t[0]
        if k in ("T", "S", "A", "var"):
            return t
        t2 = list(t)
        for i in children(t):
            t2[i] = self.callify(rng, t[i], prob)
        if rng.random() >= prob:
            return t2
        plain = lambda x: peel(x)[1][0] in ("S", "A")
        kw = lambda: self.naming_kw(rng, None) if rng.random() < 0.7 else {}
        if k == "fb":
            sp = self.fb_spec(rng)
            sp["sign"] = t[1]
            if sp["pass"] == "default" and Fraction(t[1]) != -1:
                sp["pass"] = "kw"
            b = t2[4]
            if b[0] == "S" and Fraction(b[1]) == 1 and rng.random() < 0.5:
                if sp["pass"] == "pos":
                    sp["pass"] = "kw"
                return ["call", sp, t2[3]]
            return ["call", sp, t2[3], b]
        if k == "neg" and not plain(t2[1]):
            return ["call", {"f": "negate", "kw": kw()}, t2[1]]
        if k == "add" and not plain(t2[1]):
            a, b = t2[1], t2[2]
            if a[0] == "call" and a[1]["f"] == "parallel" and rng.random() < 0.5:
                return ["call", {"f": "parallel", "kw": kw()}] + a[2:] + [b]
            return ["call", {"f": "parallel", "kw": kw()}, a, b]
        if k == "mul" and not plain(t2[2]):
            a, b = t2[1], t2[2]         # a * b = series(b, a)
            if b[0] == "call" and b[1]["f"] == "series" and rng.random() < 0.5:
                return ["call", {"f": "series", "kw": kw()}] + b[2:] + [a]
            return ["call", {"f": "series", "kw": kw()}, b, a]
        if k == "append" and not plain(t2[1]):
            a, b = t2[1], t2[2]
            if a[0] == "call" and a[1]["f"] == "append" and rng.random() < 0.5:
                return ["call", {"f": "append", "kw": kw()}] + a[2:] + [b]
            return ["call", {"f": "append", "kw": kw()}, a, b]
        if k in ("hcat", "vcat"):
            return ["call", {"f": k, "kw": kw()}, t2[1], t2[2]]
        return t2
    # ---- [v01] end ----------------------------------------------------------------------------

    def leaf(self, rng, shape, dt, big=False):
        p, m = shape
        static = rng.random() < 0.12
        ents = []
        for _ in range(p * m):
            if static:
                num, den = self.rnd_coeffs(rng, 0, False), self.rnd_coeffs(rng, 0)
            else:
                dn = rng.choice([0, 1, 1, 2, 2, 3])
                nn = rng.choice([0, 0, 1, 1, 2, 3])
                if rng.random() < 0.1:
                    num = ["0"] * (nn + 1)
                else:
                    num = self.rnd_coeffs(rng, nn, False, big)
                den = self.rnd_coeffs(rng, dn, True, big)
                if rng.random() < 0.05:
                    num = ["0"] + num
                if rng.random() < 0.05:
                    den = ["0"] + den
                if rng.random() < 0.15:   # dyadic non-integers
                    num = [tok(Fraction(x) / 4) for x in num]
            ents.append([num, den])
        ldt = dt if rng.random() < 0.8 else "N"
        form = rng.choice(["float", "int", "ndarray_int", "ndarray_float", "nested"])
        return ["T", p, m, ldt, ents, form]

    def scalar(self, rng):
        kind = rng.choice(["int", "float", "npfloat", "npint"])
        v = rng.choice([-3, -2, -1, 1, 2, 3, 0]) if rng.random() < 0.9 else 0
        if kind in ("float", "npfloat") and rng.random() < 0.4:
            return ["S", tok(Fraction(v, 2)), kind]
        return ["S", str(v), kind]

    def array(self, rng, shape):
        p, m = shape
        return ["A", p, m, [str(rng.randint(-3, 3)) for _ in range(p * m)], rng.choice(["int", "float"])]

    def rshape(self, rng):
        return (rng.choice([1, 1, 2, 2, 3]), rng.choice([1, 1, 2, 2, 3]))

    def gen(self, rng, depth, shape, dt, st):
        """tree of the requested shape (mostly valid)"""
        p, m = shape
        if st.get("alias"):     # [u01] let-bound operands of the alias stream (own rng draws)
            cands = [n for (n, shp) in st["alias"] if shp == shape]
            if cands and rng.random() < (0.7 if depth <= 0 else 0.3):
                return ["var", rng.choice(cands)]
        if depth <= 0 or rng.random() < 0.2:
            if st.get("near"):
                return self.near_leaf(rng, shape, dt, st["near"])
            return self.leaf(rng, shape, dt, st.get("big", False))
        ops = ["add", "add", "sub", "mul", "mul", "neg", "div", "sel"]
        if p == m:
            ops += ["pow"]
        if p == 1 and m == 1:
            ops += ["fb", "fb", "div", "pow"]
        if p >= 2 and m >= 2:
            ops += ["append", "append"]
        if m >= 2:
            ops += ["hcat"]
        if p >= 2:
            ops += ["vcat"]
        op = rng.choice(ops)
        d = depth - 1
        bad = rng.random() < 0.04   # deliberately wrong shapes
        if op in ("add", "sub"):
            r = rng.random()
            other = self.rshape(rng) if bad else shape
            if r < 0.55:
                a, b = self.gen(rng, d, shape, dt, st), self.gen(rng, d, other, dt, st)
            elif r < 0.7:
                a, b = self.gen(rng, d, shape, dt, st), self.gen(rng, d, (1, 1), dt, st)
            elif r < 0.8:
                a, b = self.gen(rng, d, (1, 1), dt, st), self.gen(rng, d, shape, dt, st)
            elif r < 0.9:
                a, b = self.gen(rng, d, shape, dt, st), (self.scalar(rng) if rng.random() < 0.5
                                                         else self.array(rng, other))
            else:
                a, b = (self.scalar(rng) if rng.random() < 0.5 else self.array(rng, other)), \
                    self.gen(rng, d, shape, dt, st)
            return [op, a, b]
        if op == "mul":
            k = rng.choice([1, 2, 2, 3])
            r = rng.random()
            k2 = rng.choice([1, 2, 3]) if bad else k
            if r < 0.5:
                return [op, self.gen(rng, d, (p, k), dt, st), self.gen(rng, d, (k2, m), dt, st)]
            if r < 0.6:
                return [op, self.gen(rng, d, shape, dt, st), self.gen(rng, d, (1, 1), dt, st)]
            if r < 0.7:
                return [op, self.gen(rng, d, (1, 1), dt, st), self.gen(rng, d, shape, dt, st)]
            if r < 0.78:
                return [op, self.gen(rng, d, shape, dt, st), self.scalar(rng)]
            if r < 0.86:
                return [op, self.scalar(rng), self.gen(rng, d, shape, dt, st)]
            if r < 0.93:
                return [op, self.gen(rng, d, (p, k), dt, st), self.array(rng, (k2, m))]
            return [op, self.array(rng, (p, k)), self.gen(rng, d, (k2, m), dt, st)]
        if op == "neg":
            return [op, self.gen(rng, d, shape, dt, st)]
        if op == "div":
            r = rng.random()
            if r < 0.55:
                return [op, self.gen(rng, d, shape, dt, st), self.gen(rng, min(d, 1), (1, 1), dt, st)]
            if r < 0.75:
                return [op, self.gen(rng, d, shape, dt, st), self.scalar(rng)]
            if r < 0.85 and shape == (1, 1):
                return [op, self.scalar(rng), self.gen(rng, d, shape, dt, st)]
            if r < 0.92:
                return [op, self.array(rng, shape), self.gen(rng, min(d, 1), (1, 1), dt, st)]
            return [op, self.gen(rng, d, shape, dt, st), self.gen(rng, d, self.rshape(rng), dt, st)]
        if op == "pow":
            if shape == (1, 1):
                k = rng.choice([-2, -1, -1, 0, 1, 2, 3])
            else:
                k = rng.choice([0, 1, 2, 2, 3, -1])
            return [op, k, self.gen(rng, min(d, 1), shape, dt, st)]
        if op == "fb":
            sign = rng.choice(["-1", "-1", "1", "1", "2", "-1/2"])
            other = self.gen(rng, min(d, 1), (1, 1), dt, st) if rng.random() < 0.75 else self.scalar(rng)
            via = rng.choice(["method", "func"])
            return [op, sign, via, self.gen(rng, d, (1, 1), dt, st), other]
        if op == "sel":
            P, M = p + rng.choice([0, 1]), m + rng.choice([0, 1])
            rows = rng.sample(range(P), p)
            cols = rng.sample(range(M), m)
            if bad:
                rows[0] = P + 1
            return [op, rows, cols, self.gen(rng, d, (P, M), dt, st)]
        if op == "append":
            p1, m1 = rng.randint(1, p - 1), rng.randint(1, m - 1)
            b = self.gen(rng, d, (p - p1, m - m1), dt, st) if rng.random() < 0.8 else \
                self.array(rng, (p - p1, m - m1))
            return [op, self.gen(rng, d, (p1, m1), dt, st), b]
        if op == "hcat":
            m1 = rng.randint(1, m - 1)
            p2 = rng.choice([1, 2, 3]) if bad else p
            b = self.gen(rng, d, (p2, m - m1), dt, st) if rng.random() < 0.8 else self.array(rng, (p2, m - m1))
            return [op, self.gen(rng, d, (p, m1), dt, st), b]
        if op == "vcat":
            p1 = rng.randint(1, p - 1)
            m2 = rng.choice([1, 2, 3]) if bad else m
            b = self.gen(rng, d, (p - p1, m2), dt, st) if rng.random() < 0.8 else self.array(rng, (p - p1, m2))
            return [op, self.gen(rng, d, (p1, m), dt, st), b]
        raise AssertionError(op)

    def special(self, rng):
        """streams that need something specific: zero function divisors, singular loops, big ints"""
        dt = rng.choice(["C", "C", "N", "T", DT01])
        r = rng.random()
        g = self.leaf(rng, (1, 1), dt)
        if r < 0.2:   # division by the zero function
            z = ["T", 1, 1, dt, [[["0", "0"], self.rnd_coeffs(rng, 1)]], "float"]
            return ["div", g, z] if rng.random() < 0.7 else ["pow", -1, z]
        if r < 0.4:   # 1 - sign*H*G == 0:  H = sign / G
            sign = rng.choice(["1", "-1"])
            n, d = g[4][0]
            if all(Fraction(x) == 0 for x in n):
                n = ["1"]
            gg = ["T", 1, 1, dt, [[n, d]], "float"]
            h = ["T", 1, 1, dt, [[[tok(Fraction(sign) * Fraction(x)) for x in d], n]], "float"]
            return ["fb", sign, "method", gg, h]
        if r < 0.6:   # large integer coefficients
            a = self.leaf(rng, (1, 1), dt, big=True)
            b = self.leaf(rng, (1, 1), dt, big=True)
            a[5] = rng.choice(["int", "ndarray_int", "float"])
            b[5] = rng.choice(["int", "ndarray_int", "float"])
            return [rng.choice(["mul", "add", "div"]), a, b]
        if r < 0.8:   # MIMO / SISO and MIMO / scalar, non-square
            shape = rng.choice([(2, 3), (3, 2), (2, 2), (1, 2), (2, 1), (3, 1)])
            den = self.scalar(rng) if rng.random() < 0.5 else self.leaf(rng, (1, 1), dt)
            return ["div", self.leaf(rng, shape, dt), den]
        # zero-denominator leaf
        return ["T", 1, 1, dt, [[self.rnd_coeffs(rng, 1, False), ["0", "0"]]], "float"]

    def generate(self, rng, tier):
        n = 450 if tier == "quick" else 8000
        maxd = 3 if tier == "quick" else 5
        out = []
        for i in range(n):
            if i % 6 == 5:
                out.append({"tree": self.special(rng)})
                continue
            dt = rng.choice(["C", "C", "C", "N", "T", DT01, "D1/4"])
            depth = rng.choice([1, 2, 2, 3, 3]) if maxd == 3 else rng.choice([1, 2, 3, 3, 4, 5])
            out.append({"tree": self.gen(rng, depth, self.rshape(rng), dt, {})})
        # near-equal / small-magnitude stream (own generator state: the streams above are unchanged)
        rng2 = __import__("random").Random(rng.random())
        for i in range(170 if tier == "quick" else 2600):
            out.append({"tree": self.near_case(rng2, tier), "near": True})
        # [u01] shared-object stream and dispatch stream (own generator state, drawn after the others)
        rng3 = __import__("random").Random(rng.random())
        for i in range(150 if tier == "quick" else 2400):
            out.append({"tree": prune_lets(self.alias_case(rng3, tier)), "alias": True})
        for i in range(90 if tier == "quick" else 1200):
            out.append({"tree": prune_lets(self.dispatch_case(rng3, tier)), "dispatch": True})
        # [v01] function-call forms / calling conventions (own generator state, drawn last)
        rng4 = __import__("random").Random(rng.random())
        for i in range(140 if tier == "quick" else 2200):
            out.append({"tree": prune_lets(self.call_case(rng4, tier)), "call": True})
        return out

    def corpus(self):
        # minimised past disagreements (run first)
        f = lambda n, d, form="int", dt="C": ["T", 1, 1, dt, [[n, d]], form]
        G23 = ["T", 2, 3, "C", [[["1"], ["1", str(k + 1)]] for k in range(6)], "float"]
        G22 = ["T", 2, 2, "C", [[["1"], ["1", str(k + 1)]] for k in range(4)], "float"]
        big = str(2 ** 40)
        return [
            {"tree": ["mul", f([big], ["1"]), f([big], ["1"])]},
            {"tree": ["div", G23, f(["1"], ["1", "5"])]},
            {"tree": ["div", G22, ["S", "2", "float"]]},
            {"tree": ["mul", f([big, "1"], ["1"], "ndarray_int"), f([big], ["1", "1"], "ndarray_int")]},
        ]

    # ---- execution ----------------------------------------------------------
    def line(self, case):
        main = "tf " + flatten(case["tree"])
        # [u01] division / negative power / feedback: also the operands, so that compare can
        # evaluate the property on a returned system where the model answers notImplemented
        ops = operand_trees(case["tree"])
        if ops is None:
            return main
        return [main] + ["tf " + flatten(o) for o in ops]

    def impl(self, case):
        try:
            r = run_tree(case["tree"])
        except Exception as e:  # noqa
            return {"err": classify_exc(e), "exc": "%s: %s" % (type(e).__name__, str(e)[:200])}
        try:
            return canon_result(r)
        except ValueError:
            return {"ok": {"type": "nonfinite"}}

    def parse_model(self, case, out):
        if isinstance(out, list):       # [u01] main line + operand lines
            res = self.parse_model(case, out[0])
            res["operands"] = [self.parse_model(case, o) for o in out[1:]]
            return res
        if out.startswith("err "):
            w = out.split()
            return {"err": w[1], "fx": w[2] == "fx=1"}
        tk = Tokens(out)
        assert tk.next() == "ok"
        bits = int(tk.next().split("=")[1])
        fx = tk.next()
        assert fx in ("fx=0", "fx=1"), out[:80]
        res = self._parse_ok(tk, bits)
        res["fx"] = fx == "fx=1"
        return res

    def _parse_ok(self, tk, bits):
        kind = tk.next()
        if kind == "tf":
            p, m, dt = tk.nat(), tk.nat(), tk.next()
            ents = []
            for _ in range(p * m):
                n = [tok(x) for x in tk.rats()]
                d = [tok(x) for x in tk.rats()]
                ents.append([n, d])
            return {"ok": {"type": "tf", "p": p, "m": m, "dt": dt, "ent": ents}, "bits": bits}
        if kind == "scalar":
            return {"ok": {"type": "scalar", "v": tk.next()}, "bits": bits}
        if kind == "array":
            p, m = tk.nat(), tk.nat()
            return {"ok": {"type": "array", "p": p, "m": m, "v": [tk.next() for _ in range(p * m)]}, "bits": bits}
        raise ValueError(kind)

    def features(self, case, kind, impl, model=None):
        t = case["tree"]
        feat = {"kind": kind}
        if "err" in impl:
            feat["exc"] = impl["exc"].split(":")[0]
            import re
            feat["msg"] = re.sub(r"[0-9]+", "#", impl["exc"].split(":", 1)[1].strip())[:60]
        else:
            feat["ops"] = "+".join(sorted(set(ops_in(t)))) or "leaf"
        if case.get("near"):
            feat["cls"] = "near"
        elif case.get("alias"):         # [u01]
            feat["cls"] = "alias"
        elif case.get("dispatch"):      # [u01]
            feat["cls"] = "dispatch"
        elif case.get("call"):          # [v01]
            feat["cls"] = "call"
        if kind == "value-big":
            # integer-dtype coefficient arrays whose exact product leaves the int64 range
            feat["int64_overflow"] = bool(int_leaf(t) and model is not None and model.get("bits", 0) > 62)
        return feat

    def exact_regime(self, case, model):
        """the implementation's arithmetic cannot have rounded: the model-side audit passed
        (`fx`, Driver/TFAudit.lean); where an integer-dtype array is involved (int64 arithmetic,
        known finding C01-int64-wrap) additionally every intermediate stays below 2^50"""
        return bool(model.get("fx")) and (model.get("bits", 0) <= 50 or not int_leaf(case["tree"]))

    def undecided(self, case, model):
        """near-equal stream with rounding in the implementation: a fixed tolerance is not sound
        for near-cancelling data (tiny differences, exact zero tests), so the case is not judged"""
        return bool(case.get("near")) and not model.get("fx")

    def compare(self, case, impl, model):
        t = case["tree"]
        if self.undecided(case, model):
            return Verdict(AGREE)
        if "err" in model:
            if "err" in impl:
                return Verdict(AGREE)
            if model["err"] == "zeroDen" and not model.get("fx"):
                # an exact cancellation of the model met rounded arithmetic: not judged
                return Verdict(AGREE)
            if model["err"] in ("shape", "zeroDen", "indexRange"):
                return Verdict(VIOLATES, "a system was returned where the result does not exist "
                               "(model: %s)" % model["err"],
                               self.features(case, "returns-" + model["err"], impl))
            # [u01] notImplemented in the model, a result in the implementation: evaluate the
            # property itself on the returned system where the operator is at the root
            v = self.judge_not_implemented(case, impl, model)
            if v is not None:
                return v
            return Verdict(DIFFERS, "model raises %s, implementation returns" % model["err"],
                           self.features(case, "returns-" + model["err"], impl))
        if "err" in impl:
            if impl["err"] == "zeroDen" and not model.get("fx"):
                # rounded arithmetic may cancel to an exact zero where the exact result is tiny
                return Verdict(AGREE)
            return Verdict(VIOLATES, "implementation raises %s where the result exists" % impl["exc"],
                           self.features(case, "raises", impl))
        a, b = impl["ok"], model["ok"]
        if a["type"] == "nonfinite" and not model.get("fx"):
            # [u01] inf / nan coefficients where the audit does not bound the binary64 arithmetic
            # (it requires every term and partial sum below 2^1000): overflow of a mathematically
            # finite result is rounding, not a wrong result - not judged
            return Verdict(AGREE)
        if a["type"] != b["type"]:
            return Verdict(VIOLATES, "result type %s vs %s" % (a["type"], b["type"]),
                           self.features(case, "type", impl))
        if a["type"] != "tf":
            same = a == b
            return Verdict(AGREE if same else DIFFERS, "non-system result differs")
        if (a["p"], a["m"]) != (b["p"], b["m"]):
            return Verdict(VIOLATES, "shape %dx%d vs model %dx%d" % (a["p"], a["m"], b["p"], b["m"]),
                           self.features(case, "shape", impl))
        exact_regime = self.exact_regime(case, model)
        for k, ((n1, d1), (n2, d2)) in enumerate(zip(a["ent"], b["ent"])):
            n1, d1, n2, d2 = ([Fraction(x) for x in v] for v in (n1, d1, n2, d2))
            if exact.pzero(d1):
                return Verdict(VIOLATES, "entry %d has a zero denominator" % k,
                               self.features(case, "value", impl))
            lhs, rhs = exact.pmul(n1, d2), exact.pmul(n2, d1)
            diff = exact.padd(lhs, exact.pscale(Fraction(-1), rhs))
            if exact_regime:
                ok = exact.pzero(diff)
            else:
                scale = max([abs(x) for x in lhs + rhs] + [Fraction(1)])
                ok = all(abs(x) <= Fraction(1, 10 ** 9) * scale for x in diff)
            if not ok:
                return Verdict(VIOLATES, "entry (%d,%d): implementation %s/%s, exact %s/%s"
                               % (k // a["m"], k % a["m"], a["ent"][k][0], a["ent"][k][1],
                                  b["ent"][k][0], b["ent"][k][1]),
                               self.features(case, "value" if exact_regime else "value-big", impl, model))
        if a["dt"] != b["dt"]:
            return Verdict(DIFFERS, "timebase %s vs model %s (decided by C05)" % (a["dt"], b["dt"]),
                           self.features(case, "dt", impl))
        return Verdict(AGREE)

    # ---- [u01] begin: the property on a returned system where the model says notImplemented ----
    def judge_not_implemented(self, case, impl, model):
        """The model (= the code as it is) answers notImplemented for a MIMO divisor, a negative
        power of a MIMO system and MIMO feedback.  If the implementation RETURNS a system there,
        the property still says what that system must be: X = A * inv(B) (X * B == A, B square and
        invertible; a SISO / scalar A is a * I), X * M^k == I for M ** -k, and
        (I - sign*G*H) * X == G for feedback.  Returns VIOLATES with the reason if the returned
        system is not that (or no such result exists), None if this cannot be decided here."""
        if model.get("err") != "notImplemented" or "ok" not in impl:
            return None
        ops = model.get("operands")
        if not ops or any("ok" not in o for o in ops):
            return None
        _, core = peel(case["tree"])
        r = impl["ok"]
        def bad(judge, detail):
            f = self.features(case, "returns-notImplemented", impl)
            f["judge"] = judge
            return Verdict(VIOLATES, "a system was returned where the code's own rule says "
                           "notImplemented, and it is not the result the property prescribes: "
                           + detail, f)
        if r.get("type") == "nonfinite":
            return None
        if r.get("type") != "tf":
            v = bad("type", "the result is not a system but a %s" % r.get("repr", r.get("type")))
            v.features["rtype"] = r.get("repr", r.get("type"))
            if core[0] == "div" and "ok" in ops[1]:
                v.features["divisor"] = ops[1]["ok"]["type"]
            return v
        _, X = value_matrix(r)
        if any(exact.pzero(e[1]) for row in X for e in row):
            return bad("zero-den", "an entry of the result has a zero denominator")
        REL = Fraction(1, 10 ** 9)
        def same(P, Q):
            return all(rf_close(P[i][j], Q[i][j], REL) for i in range(len(P)) for j in range(len(P[0])))
        shp = lambda M: "%dx%d" % (len(M), len(M[0]))
        if core[0] == "div":
            ka, A = value_matrix(ops[0]["ok"])
            kb, B = value_matrix(ops[1]["ok"])
            if A is None or B is None or (len(B) == 1 and len(B[0]) == 1):
                return None
            n = len(B)
            if len(B[0]) != n:
                return bad("no-inverse", "the divisor is %s (not square): A*inv(B) does not exist, "
                           "returned a %s system" % (shp(B), shp(X)))
            if n > 4:
                return None
            if len(A) == 1 and len(A[0]) == 1:
                A = rm_eye(n, A[0][0])          # a SISO / scalar dividend is a * I
            if len(A[0]) != n:
                return bad("shape", "dividend %s and divisor %s are incompatible, returned a %s "
                           "system" % (shp(A), shp(B), shp(X)))
            if exact.pzero(rm_det(B)[0]):
                return bad("no-inverse", "the divisor is singular: A*inv(B) does not exist")
            if (len(X), len(X[0])) != (len(A), n):
                return bad("shape", "A*inv(B) is %dx%d, returned a %s system" % (len(A), n, shp(X)))
            if not same(rm_mul(X, B), A):
                return bad("value", "X*B != A for the returned X")
            return None
        if core[0] == "pow":
            _, M = value_matrix(ops[0]["ok"])
            if M is None or (len(M) == 1 and len(M[0]) == 1):
                return None
            n = len(M)
            if len(M[0]) != n:
                return bad("no-inverse", "a negative power of a %s (not square) system does not "
                           "exist, returned a %s system" % (shp(M), shp(X)))
            if n > 4:
                return None
            if (len(X), len(X[0])) != (n, n):
                return bad("shape", "M**%d is %dx%d, returned a %s system" % (core[1], n, n, shp(X)))
            P = X
            for _ in range(-core[1]):
                P = rm_mul(P, M)
            if not same(P, rm_eye(n)):
                return bad("value", "X * M^%d != I for the returned X = M**%d" % (-core[1], core[1]))
            return None
        if core[0] == "call" and core[1]["f"] == "feedback":       # [v01] same judgement
            core = ["fb", core[1]["sign"]]
        if core[0] == "fb":
            _, G = value_matrix(ops[0]["ok"])
            kh, H = value_matrix(ops[1]["ok"])
            if G is None or H is None or ops[0]["ok"]["type"] != "tf":
                return None
            p, m = len(G), len(G[0])
            if (len(H), len(H[0])) != (m, p):
                if len(H) == 1 and len(H[0]) == 1:
                    return None     # a SISO / scalar feedback path might be broadcast: not decided
                return bad("shape", "feedback of a %s system through a %s one has incompatible "
                           "shapes, returned a %s system" % (shp(G), shp(H), shp(X)))
            if p > 4:
                return None
            sign = rf_const(Fraction(core[1]))
            L = rm_mul(G, H)
            L = [[rf_add(RF1 if i == j else RF0, rf_neg(rf_mul(sign, L[i][j]))) for j in range(p)]
                 for i in range(p)]
            if exact.pzero(rm_det(L)[0]):
                return bad("no-inverse", "I - sign*G*H is singular: the closed loop does not exist")
            if (len(X), len(X[0])) != (p, m):
                return bad("shape", "the closed loop is %dx%d, returned a %s system" % (p, m, shp(X)))
            if not same(rm_mul(L, X), G):
                return bad("value", "(I - sign*G*H) * X != G for the returned X")
            return None
        return None
    # ---- [u01] end ----------------------------------------------------------------------------

    def nontrivial(self, case, model):
        t = case["tree"]
        if "ok" not in model or model["ok"]["type"] != "tf":
            return False
        if not has_dynamic_leaf(t) or not any(o in BIN or o == "fb" or o.startswith("call:")
                                              for o in ops_in(t)):
            return False
        return any(len(n) > 1 or len(d) > 1 for (n, d) in model["ok"]["ent"])

    def stats(self, case, impl, model):
        t = case["tree"]
        st = {"root": t[0], "size": min(size(t), 12),
              "outcome": ("err:" + model["err"]) if "err" in model else "ok"}
        if "ok" in model and model["ok"]["type"] == "tf":
            st["shape"] = "%dx%d" % (model["ok"]["p"], model["ok"]["m"])
            st["constant"] = not any(len(n) > 1 or len(d) > 1 for (n, d) in model["ok"]["ent"])
            st["regime"] = "E" if self.exact_regime(case, model) else "T"
            if "ok" in impl and impl["ok"].get("type") == "tf":
                st["repr_equal"] = impl["ok"]["ent"] == model["ok"]["ent"]
        if "err" in model and "err" in impl:
            st["errkind_equal"] = impl["err"] == model["err"]
        if case.get("near"):
            st["near"] = "not-judged(rounding)" if self.undecided(case, model) else (
                "err:" + model["err"] if "err" in model else
                "exact" if self.exact_regime(case, model) else "tolerance")
            st["near_root"] = t[0]
        # [u01] begin
        if "ok" in impl and impl["ok"].get("type") == "nonfinite" and "ok" in model:
            st["nonfinite"] = "not-judged(overflow)" if not model.get("fx") else "judged"
        for key in ("alias", "dispatch"):
            if case.get(key):
                core = peel(t)[1]
                st[key + "_root"] = core[0] if core[0] != "pow" else ("pow-" if core[1] < 0 else "pow+")
                st[key + "_outcome"] = ("err:" + model["err"]) if "err" in model else "ok"
        if case.get("alias"):
            st["alias_lets"] = sum(1 for o in ops_in(t) if o == "let")
        # [u01] end
        if case.get("call"):            # [v01] which calling conventions were exercised
            core = peel(t)[1]
            st["call_outcome"] = ("err:" + model["err"]) if "err" in model else "ok"
            def calls(x):
                if x[0] == "call":
                    yield x
                for i in children(x):
                    yield from calls(x[i])
            cs = list(calls(t))
            st["call_root"] = ("call:" + core[1]["f"]) if core[0] == "call" else core[0]
            if cs:
                c = cs[0]
                kws = "+".join(sorted(c[1].get("kw") or {})) or "none"
                st["call_form"] = "%s/%d" % (c[1]["f"], len(c) - 2)
                st["call_kw"] = kws
                if c[1]["f"] == "feedback":
                    sg = Fraction(c[1]["sign"])
                    st["call_fb"] = "sign%s/%s/%s/first=%s" % (
                        "=-1" if sg == -1 else "=+1" if sg == 1 else "=other", c[1].get("pass"),
                        "kw" if c[1].get("kw") else "nokw",
                        {"S": "scalar", "A": "array"}.get(peel(c[2])[1][0], "sys"))
        return st

    # ---- shrinking / search ----------------------------------------------------
    def shrink(self, case):
        for c in self._shrink(case):
            if free_vars(c["tree"]):        # [u01] a candidate must be a closed tree ...
                continue
            c["tree"] = prune_lets(c["tree"])       # ... without unused definitions
            for key in ("near", "alias", "dispatch", "call"):
                if case.get(key):
                    c[key] = True
            yield c

    def _shrink(self, case):
        t = case["tree"]
        # replace the tree by a sub-tree
        for s in closed_subtrees(t):       # [u01] sub-trees keep the lets they refer to
            if s[0] not in ("S", "A", "var"):
                yield {"tree": s}
        # [u01] a let whose name is not used / used once: drop it / inline it
        def unlet(t):
            if t[0] == "let":
                uses = sum(1 for _ in var_uses(t[3], t[1]))
                if uses <= 1:
                    yield subst(t[3], t[1], t[2])
            for i in children(t):
                for c in unlet(t[i]):
                    t2 = list(t)
                    t2[i] = c
                    yield t2
        for c in unlet(t):
            yield {"tree": c}
        # replace a non-root subtree by a simple leaf of ... (keep shapes unknown: try SISO 1/(s+1))
        def rebuild(t, path, new):
            if not path:
                return new
            t = list(t)
            t[path[0]] = rebuild(t[path[0]], path[1:], new)
            return t
        def paths(t, pre=()):
            for i in children(t):
                yield pre + (i,)
                yield from paths(t[i], pre + (i,))
        for pth in paths(t):
            sub = t
            for i in pth:
                sub = sub[i]
            if sub[0] == "T":
                # simplify leaf coefficients
                _, p, m, dt, ents, form = sub
                simple = [[["1"], ["1", str(k + 1)]] for k in range(p * m)]
                if form in SHARED_FORMS:        # [u01] keep the shared arrays
                    same = [[["1"], ["1", "2"]]] * (p * m)
                    if ents != same:
                        yield {"tree": rebuild(t, list(pth), ["T", p, m, dt, same, form])}
                if ents != simple:
                    yield {"tree": rebuild(t, list(pth), ["T", p, m, dt, simple, "float"])}
                if dt != "C":
                    yield {"tree": rebuild(t, list(pth), ["T", p, m, "C", ents, form])}
            elif sub[0] not in ("S", "A"):
                for i in children(sub):
                    yield {"tree": rebuild(t, list(pth), sub[i])}

    def search(self, rng, case, tier):
        # [u01] first the sub-trees of the disagreeing case: an operator that the model rejects
        # (notImplemented) below the root is judged where it is the root of a case
        out = [dict({k: v for k, v in case.items() if k != "tree"}, tree=prune_lets(s))
               for s in closed_subtrees(case["tree"]) if s[0] not in ("S", "A", "T", "var")]
        for _ in range(300):
            dt = rng.choice(["C", "N", "T", DT01])
            t = self.gen(rng, 2, self.rshape(rng), dt, {})
            out.append({"tree": t})
        return out


FAMILY = C01
