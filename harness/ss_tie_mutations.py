"""Demonstration for the source-text tie of C02 (tag py2lean-ss, notes/NOTES-py2lean-ss.md): apply
semantic mutations / meaning-preserving refactorings of `StateSpace` arithmetic to a SCRATCH worktree
of /repo, run `check.py C02 --tier quick` against it (VERIF_REPO, VERIF_NO_EVIDENCE=1) and report
which proof obligations break and whether a VIOLATION with a failing input is reported.

    git -C /repo worktree add --detach /tmp/w/g4_repo HEAD
    /venv/bin/python harness/ss_tie_mutations.py /tmp/w/g4_repo [name ...]
    git -C /repo worktree remove --force /tmp/w/g4_repo

Never run against /repo itself.  The generated Lean files are left as the LAST run wrote them; the
script finishes with a regeneration from the unchanged /repo."""
import json
import os
import re
import subprocess
import sys
import time

HERE = os.path.dirname(os.path.abspath(__file__))
VERIF = os.path.dirname(HERE)

# (name, kind, method, old text, new text); kind: 'mutation' (must be caught) | 'refactor' (must pass)
EDITS = [
    ("neg-lost-sign", "mutation", "__neg__",
     "return StateSpace(self.A, self.B, -self.C, -self.D, self.dt)",
     "return StateSpace(self.A, self.B, self.C, -self.D, self.dt)"),
    ("add-D-minus", "mutation", "__add__",
     "            D = self.D + other.D\n",
     "            D = self.D - other.D\n"),
    ("add-promote-transposed", "mutation", "__add__",
     "                self = np.ones((other.noutputs, other.ninputs)) * self",
     "                self = np.ones((other.ninputs, other.noutputs)) * self"),
    ("mul-offdiag-other-block", "mutation", "__mul__",
     """                (concatenate((other.A,
                              zeros((other.A.shape[0], self.A.shape[1]))),
                             axis=1),
                 concatenate((self.B @ other.C, self.A), axis=1)),""",
     """                (concatenate((other.A, (self.B @ other.C).T), axis=1),
                 concatenate((zeros((self.A.shape[0], other.A.shape[1])),
                              self.A), axis=1)),"""),
    ("mul-B-order", "mutation", "__mul__",
     "            B = concatenate((other.B, self.B @ other.D), axis=0)",
     "            B = concatenate((self.B @ other.D, other.B), axis=0)"),
    ("rmul-broadcast-inputs", "mutation", "__rmul__",
     "            other = bdalg.append(*([other] * self.noutputs))",
     "            other = bdalg.append(*([other] * self.ninputs))"),
    ("append-zeros-swapped", "mutation", "append",
     "        B = zeros((n, m))",
     "        B = zeros((m, n))"),
    ("append-block-misplaced", "mutation", "append",
     "        C[self.noutputs:, self.nstates:] = other.C",
     "        C[self.noutputs:, :other.nstates] = other.C"),
    # (an EQUIVALENT rewriting by the push-through identity D1 (I + s E D2 D1) = (I + s D1 E D2) D1: no failing
    #  input exists; the tie reports `no-failing-input-found`, DESIGN 2.4)
    ("feedback-T1-T2-exchanged", "mutation", "feedback",
     "        B = concatenate((B1 @ T2, B2 @ D1 @ T2), axis=0)",
     "        B = concatenate((B1 @ T2, B2 @ T1 @ D1), axis=0)"),
    ("feedback-T2-sign", "mutation", "feedback",
     "        T2 = eye(self.ninputs) + sign * E_D2 @ D1",
     "        T2 = eye(self.ninputs) - sign * E_D2 @ D1"),
    ("feedback-lost-sign", "mutation", "feedback",
     "        T1 = eye(self.noutputs) + sign * D1 @ E_D2",
     "        T1 = eye(self.noutputs) + D1 @ E_D2"),
    ("feedback-slice-off-by-block", "mutation", "feedback",
     "        E_C2 = E_D2_C2[:, other.ninputs:]",
     "        E_C2 = E_D2_C2[:, other.noutputs:]"),
    ("pow-lost-sign", "mutation", "__pow__",
     "            Ci = -Di @ self.C",
     "            Ci = Di @ self.C"),
    ("pow-off-by-one", "mutation", "__pow__",
     "            return self * (self**(other - 1))",
     "            return self * (self**(other - 2))"),
    ("rsub-operands", "mutation", "__rsub__",
     "        return other + (-self)",
     "        return self + (-other)"),
    ("lft-H11-D21", "mutation", "lft",
     "            [Bbar1 @ H11, Bbar2 + Bbar1 @ H12]",
     "            [Bbar1 @ D21, Bbar2 + Bbar1 @ H12]"),
    ("lft-F-sign", "mutation", "lft",
     "        F = np.block([[np.eye(ny), -D22], [-Dbar11, np.eye(nu)]])",
     "        F = np.block([[np.eye(ny), D22], [-Dbar11, np.eye(nu)]])"),
    # ---- meaning-preserving refactorings: every obligation must stay discharged -----------------
    ("r-mul-named-temporary", "refactor", "__mul__",
     "            B = concatenate((other.B, self.B @ other.D), axis=0)",
     "            BD = self.B @ other.D\n            B = concatenate((other.B, BD), axis=0)"),
    ("r-add-renamed", "refactor", "__add__",
     "            B = concatenate((self.B, other.B), axis=0)\n            C = concatenate((self.C, other.C), axis=1)",
     "            Bnew = concatenate((self.B, other.B), axis=0)\n            C = concatenate((self.C, other.C), axis=1)\n            B = Bnew"),
    ("r-feedback-np-eye", "refactor", "feedback",
     "        T2 = eye(self.ninputs) + sign * E_D2 @ D1",
     "        T2 = np.eye(self.ninputs) + (sign * E_D2) @ D1"),
    ("r-feedback-order-of-statements", "refactor", "feedback",
     "        T1 = eye(self.noutputs) + sign * D1 @ E_D2\n        T2 = eye(self.ninputs) + sign * E_D2 @ D1\n",
     "        T2 = eye(self.ninputs) + sign * E_D2 @ D1\n        T1 = eye(self.noutputs) + sign * D1 @ E_D2\n"),
    ("r-neg-locals", "refactor", "__neg__",
     "return StateSpace(self.A, self.B, -self.C, -self.D, self.dt)",
     "C = -self.C\n        return StateSpace(self.A, self.B, C, -self.D, self.dt)"),
    ("r-append-np-zeros", "refactor", "append",
     "        A = zeros((n, n))",
     "        A = np.zeros((n, n))"),
    ("r-lft-zeros-and-names", "refactor", "lft",
     "        TH = np.linalg.solve(F, np.block(\n            [[C2, np.zeros((ny, other.nstates)),",
     "        Z12 = zeros((ny, other.nstates))\n        TH = np.linalg.solve(F, np.block(\n            [[C2, Z12,"),
    ("r-lft-slice-rewritten", "refactor", "lft",
     "        T12 = TH[:ny, self.nstates: self.nstates + other.nstates]",
     "        T12 = TH[:ny, self.nstates:other.nstates + self.nstates]"),
    # ---- outside the translator's subset (meaning kept): the translation fails, reported as a broken
    #      obligation without a failing input ------------------------------------------------------
    ("x-add-np-add", "outside", "__add__",
     "            D = self.D + other.D\n",
     "            D = np.add(self.D, other.D)\n"),
    ("r-pow-elif-to-if", "refactor", "__pow__",
     "        elif other == 0:",
     "        if other == 0:"),
]


def run(repo, name):
    edit = [e for e in EDITS if e[0] == name][0]
    _, kind, method, old, new = edit
    path = os.path.join(repo, "control", "statesp.py")
    subprocess.run(["git", "-C", repo, "checkout", "--", "control/statesp.py"], check=True)
    src = open(path).read()
    if src.count(old) != 1:
        return {"name": name, "error": "pattern occurs %d times" % src.count(old)}
    open(path, "w").write(src.replace(old, new))
    env = dict(os.environ, VERIF_REPO=repo, VERIF_NO_EVIDENCE="1", VERIF_SEED=os.environ.get("VERIF_SEED", "0"))
    t0 = time.time()
    p = subprocess.run(["/venv/bin/python", os.path.join(HERE, "check.py"), "C02", "--tier", "quick"],
                       cwd=VERIF, env=env, text=True, capture_output=True)
    out = p.stdout + p.stderr
    subprocess.run(["git", "-C", repo, "checkout", "--", "control/statesp.py"], check=True)
    viol = [l for l in out.split("\n") if l.startswith("VIOLATION")]
    summ = [l for l in out.split("\n") if l.startswith("C02 tier=")]
    m = re.search(r"obligations=(\d+)/(\d+)", out)
    broken = re.findall(r"error: (CtrlVerif/Props/\S+?\.lean):(\d+)", out)
    return {"name": name, "kind": kind, "method": method, "exit": p.returncode,
            "obligations": m.group(0) if m else None, "violations": len(viol),
            "first_violation": viol[0][:300] if viol else None,
            "no_failing_input": sum("no-failing-input-found" in v for v in viol),
            "broken_at": sorted(set(broken))[:4], "summary": summ[-1] if summ else out[-400:],
            "wall": round(time.time() - t0, 1),
            "problems": [l[:200] for l in out.split("\n") if "cannot be translated" in l][:2],
            "as_expected": (p.returncode == 1 and bool(viol)) if kind in ("mutation", "outside")
            else p.returncode == 0}


if __name__ == "__main__":
    repo = os.path.abspath(sys.argv[1])
    if os.path.realpath(repo) == os.path.realpath("/repo"):
        sys.exit("refusing to edit /repo")
    names = sys.argv[2:] or [e[0] for e in EDITS]
    results = []
    for nm in names:
        r = run(repo, nm)
        results.append(r)
        print(json.dumps(r), flush=True)
    # leave the generated files as the unchanged tree defines them
    sys.path.insert(0, HERE)
    from core import py2lean_ss, leanproj
    py2lean_ss.regenerate("/repo", leanproj.LEAN)
    bad = [r["name"] for r in results if not r.get("as_expected")]
    print("not as expected:", bad)
