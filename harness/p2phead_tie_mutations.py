"""Demonstration for the source-text tie of the head of point_to_point / solve_flat_optimal (C20, tag py2lean-p2phead,
notes/NOTES-py2lean-p2phead.md): apply semantic mutations / meaning-preserving refactorings of the argument
processing statements of control/flatsys/flatsys.py to a SCRATCH worktree of /repo, run `check.py C20 --tier quick`
against it (VERIF_REPO, VERIF_NO_EVIDENCE=1) and report which proof obligations break and whether a VIOLATION with
a failing input is reported.

    git -C /repo worktree add --detach /tmp/w/g25_repo HEAD
    /venv/bin/python harness/p2phead_tie_mutations.py /tmp/w/g25_repo [name ...]
    git -C /repo worktree remove --force /tmp/w/g25_repo

Never run against /repo itself.  The script finishes with a regeneration from the unchanged /repo."""
import json
import os
import sys

HERE = os.path.dirname(os.path.abspath(__file__))
sys.path.insert(0, HERE)
import flat_tie_mutations as base      # noqa: E402  (run / checkout machinery)

FLAT = "control/flatsys/flatsys.py"
CONFIG = "control/config.py"
OPTIMAL = "control/optimal.py"
PAR = "    params = sys.params if params is None else {**sys.params, **params}\n"
DEF = "        basis = PolyFamily(2 * (sys.nstates + sys.ninputs))\n"
ROUTE = "    if cost is not None or trajectory_constraints is not None:\n"
TIME = ("    timepts = np.atleast_1d(timepts)\n    Tf = timepts[-1]\n"
        "    T0 = timepts[0] if len(timepts) > 1 else T0\n")

# (name, kind, file, [(old, new, occurrence index or None = must be unique)])
EDITS = [
    ("params-merge-order-swapped", "mutation", FLAT, [(PAR, PAR.replace("{**sys.params, **params}", "{**params, **sys.params}"), 0)]),
    ("params-or-stored", "mutation", FLAT, [(PAR, "    params = params or sys.params\n", 0)]),
    ("sfo-params-replaced", "mutation", FLAT, [(PAR, "    params = sys.params if params is None else params\n", 1)]),
    ("time-Tf-first-entry", "mutation", FLAT, [("    Tf = timepts[-1]\n", "    Tf = timepts[0]\n", None)]),
    ("time-T0-ignored-for-arrays", "mutation", FLAT, [
        ("    T0 = timepts[0] if len(timepts) > 1 else T0\n", "    T0 = T0\n", None)]),
    ("basis-size-nstates-only", "mutation", FLAT, [(DEF, "        basis = PolyFamily(2 * sys.nstates)\n", 0)]),
    ("route-direct-although-cost", "mutation", FLAT, [(ROUTE, "    if trajectory_constraints is not None:\n", 0)]),
    ("boundary-input-size-from-states", "mutation", FLAT, [
        ("    u0 = _check_convert_array(u0, [(sys.ninputs,), (sys.ninputs, 1)],\n"
         "                              'Initial input: ', squeeze=True)\n"
         "    xf = ", "    u0 = _check_convert_array(u0, [(sys.nstates,), (sys.nstates, 1)],\n"
         "                              'Initial input: ', squeeze=True)\n    xf = ", None)]),
    ("kw-unknown-keywords-accepted", "mutation", FLAT, [
        ("    if kwargs:\n        raise TypeError(\"unrecognized keywords: \", str(kwargs))\n",
         "    if False:\n        raise TypeError(\"unrecognized keywords: \", str(kwargs))\n", 0)]),
    ("alias-value-ignored", "mutation", CONFIG, [("            newval = kwval\n", "            pass\n", 1)]),
    ("alias-not-taken-out", "mutation", CONFIG, [
        ("            kwval = kwargs.pop(kw)\n", "            kwval = kwargs[kw]\n", 1)]),
    ("alias-call-final-state-under-final-input", "mutation", FLAT, [
        ("    xf = _process_param(\n        'final_state', final_state,", "    xf = _process_param(\n        'final_input', final_state,", None)]),
    ("alias-table-T0-renamed", "mutation", OPTIMAL, [
        ("    'initial_time':           (['T0'],", "    'initial_time':           (['t0'],", None)]),
    # ---- meaning-preserving refactorings: every obligation must stay discharged -----------------
    ("r-process-param-renamed", "refactor", CONFIG, [("kwval", "aliasval", "all"), ("newval", "resultval", "all")]),
    ("r-kwargs-pops-reordered", "refactor", FLAT, [
        ("    minimize_kwargs['method'] = kwargs.pop('minimize_method', None)\n"
         "    minimize_kwargs['options'] = kwargs.pop('minimize_options', {})\n",
         "    minimize_kwargs['options'] = kwargs.pop('minimize_options', {})\n"
         "    minimize_kwargs['method'] = kwargs.pop('minimize_method', None)\n", 0)]),
    ("r-params-test-flipped", "refactor", FLAT, [
        (PAR, "    params = {**sys.params, **params} if params is not None else sys.params\n", 0)]),
    ("r-params-named-temporary", "refactor", FLAT, [
        (PAR, "    stored = sys.params\n    params = stored if params is None else {**stored, **params}\n", 0)]),
    ("r-time-renamed-reordered", "refactor", FLAT, [
        (TIME, "    tgrid = np.atleast_1d(timepts)\n    T0 = tgrid[0] if len(tgrid) > 1 else T0\n"
               "    Tf = tgrid[-1]\n    timepts = tgrid\n", None)]),
    ("r-time-named-length", "refactor", FLAT, [
        (TIME, "    timepts = np.atleast_1d(timepts)\n    npts = len(timepts)\n    Tf = timepts[-1]\n"
               "    T0 = timepts[0] if npts > 1 else T0\n", None)]),
    ("r-basis-named-size", "refactor", FLAT, [
        ("    if basis is None:\n" + DEF,
         "    nmin = 2 * (sys.nstates + sys.ninputs)\n    if basis is None:\n        basis = PolyFamily(nmin)\n", 0)]),
    ("r-route-de-morgan", "refactor", FLAT, [
        (ROUTE, "    if not (cost is None and trajectory_constraints is None):\n", 0)]),
]


def apply(src, pairs):
    for old, new, occ in pairs:
        n = src.count(old)
        if occ == "all":
            if n == 0:
                return None, "pattern does not occur: %r" % old[:60]
            src = src.replace(old, new)
            continue
        if (occ is None and n != 1) or (occ is not None and n <= occ):
            return None, "pattern occurs %d times: %r" % (n, old[:60])
        parts = src.split(old)
        k = 0 if occ is None else occ
        src = old.join(parts[:k + 1]) + new + old.join(parts[k + 1:])
    return src, None


if __name__ == "__main__":
    repo = os.path.abspath(sys.argv[1])
    if os.path.realpath(repo) == os.path.realpath("/repo"):
        sys.exit("refusing to edit /repo")
    names = sys.argv[2:] or [e[0] for e in EDITS]
    base.FILES = [FLAT, CONFIG, OPTIMAL]
    results = []
    for nm in names:
        _, kind, rel, pairs = [e for e in EDITS if e[0] == nm][0]
        src0 = open(os.path.join(repo, rel)).read()
        new, err = apply(src0, pairs)
        if err:
            r = {"name": nm, "error": err}
        else:
            # hand the edit to the shared machinery as one unique whole-file replacement
            base.EDITS = [(nm, kind, rel, [(src0, new)])]
            r = base.run(repo, nm)
        results.append(r)
        print(json.dumps(r), flush=True)
    from core import py2lean_flat, py2lean_p2phead, leanproj      # noqa: E402
    py2lean_flat.regenerate("/repo", leanproj.LEAN)
    py2lean_p2phead.regenerate("/repo", leanproj.LEAN)
    print("not as expected:", [r["name"] for r in results if not r.get("as_expected")])
