#!/venv/bin/python
"""Run the repository test-suite (parallel) on a tree and compare with /root/.vp/BASELINE.json.
usage: baseline_check.py [repo_dir]   -> prints failures not in always_fail and missing stable passes"""
import json, os, subprocess, sys, tempfile, xml.etree.ElementTree as ET
repo = sys.argv[1] if len(sys.argv) > 1 else "/repo"
b = json.load(open("/root/.vp/BASELINE.json"))
af, sp = set(b.get("always_fail", [])), set(b["stable_pass"])
x = tempfile.mktemp(suffix=".xml")
env = dict(os.environ, PYTHONPATH=repo)
subprocess.run(["/venv/bin/python", "-m", "pytest", "-q", "-p", "no:cacheprovider", "--timeout=900",
                "--continue-on-collection-errors", "-n", "10", "--junitxml=" + x], cwd=repo, env=env,
               stdout=subprocess.DEVNULL, stderr=subprocess.DEVNULL)
fails, passed = [], set()
for tc in ET.parse(x).iter("testcase"):
    name = tc.get("classname") + "::" + tc.get("name")
    if any(c.tag in ("failure", "error") for c in tc):
        fails.append(name)
    elif not any(c.tag == "skipped" for c in tc):
        passed.add(name)
os.remove(x)
new = [f for f in fails if f not in af]
miss = sorted(sp - passed)
print("failed=%d new_failures=%d missing_stable_pass=%d" % (len(fails), len(new), len(miss)))
for f in new[:20]: print("NEW FAIL", f)
for f in miss[:20]: print("MISSING", f)
sys.exit(1 if new or miss else 0)
