#!/usr/bin/env python3
"""Regenerate section 10 of DESIGN.md (tables from known_findings.json and seeded/RESULTS.json)."""
import json, os
V = os.path.dirname(os.path.dirname(os.path.abspath(__file__)))
d = json.load(open(os.path.join(V, "known_findings.json")))
def clip(s, n):
    s = s.replace("|", "\\|").replace("\n", " ")
    return s if len(s) <= n else s[:n - 1] + "…"
fixed, known = [], []
for e in d["findings"]:
    if e["status"] == "fixed":
        w = e["what"].split(e["commit"], 1)[-1].strip()
        fixed.append("| %s | `%s` | %s |" % (e["property"], e["commit"], clip(w, 240)))
    else:
        known.append("| %s | `%s` | %s | %s |" % (e["property"], e["id"], clip(e["what"], 260), clip(e.get("why_not_fixed", ""), 200)))
seeded = ["| Seed | Property | What the change does / what it needs to manifest | Quick tier | Thorough tier | Reported as |", "|---|---|---|---|---|---|"]
res = {}
p = os.path.join(V, "seeded", "RESULTS.json")
if os.path.exists(p):
    res = json.load(open(p))
sd = os.path.join(V, "seeded")
for sid in sorted(x for x in os.listdir(sd) if os.path.isdir(os.path.join(sd, x))):
    m = json.load(open(os.path.join(sd, sid, "meta.json")))
    r = res.get(sid, {})
    q = t = "not run"; rep = ""
    for k, c in sorted(r.get("checks", {}).items()):
        got = "caught" if (c["rc"] == 1 and c["violations"]) else "missed"
        if c.get("no_failing_input") and got == "caught":
            got = "caught (no-failing-input-found)"
        if "/quick/" in k:
            q = got if q in ("not run", "missed") else q
        if "/thorough/" in k:
            t = got if t in ("not run", "missed") else t
        if got.startswith("caught") and not rep:
            rep = k.split("/")[0]
    seeded.append("| %s | %s | %s | %s | %s | %s |" % (sid, m.get("property", ""), clip(m.get("summary", "") + " — " + m.get("what_it_needs_to_manifest", ""), 330), q, t, rep))
tmpl = open(os.path.join(V, "harness", "design_sec10.template.md")).read()
import re
def _ev(pid):
    try:
        return json.load(open(os.path.join(V, "evidence", pid + ".json")))["coverage"]
    except Exception:
        return {}
tmpl = re.sub(r"@@OBL:(C\d\d)@@", lambda m: str(_ev(m.group(1)).get("obligations", "?")), tmpl)
tmpl = re.sub(r"@@CASES:(C\d\d)@@", lambda m: "{:,}".format(_ev(m.group(1)).get("evaluations", 0)).replace(",", " "), tmpl)
def _wc(root, ext):
    n = 0
    for d, _, fs in os.walk(root):
        if ".lake" in d or "__pycache__" in d:
            continue
        for f in fs:
            if f.endswith(ext):
                n += sum(1 for _ in open(os.path.join(d, f), errors="ignore"))
    return n
tmpl = tmpl.replace("@@LEANLINES@@", "≈ {:,}".format(round(_wc(os.path.join(V, "lean"), ".lean"), -3)).replace(",", " "))
tmpl = tmpl.replace("@@PYLINES@@", "≈ {:,}".format(round(_wc(os.path.join(V, "harness"), ".py"), -3)).replace(",", " "))
tmpl = tmpl.replace("@@OBLTOTAL@@", str(sum(_ev("C%02d" % i).get("obligations", 0) for i in range(1, 21))))
tmpl = tmpl.replace("@@FIXED@@", "\n".join(fixed)).replace("@@KNOWN@@", "\n".join(known)).replace("@@SEEDED@@", "\n".join(seeded))
path = os.path.join(V, "DESIGN.md")
s = open(path).read()
MARK = "\n<!-- SECTION-10-GENERATED: edit harness/design_sec10.template.md, then run harness/gen_design.py -->\n"
if MARK in s:
    s = s[:s.index(MARK)]
s = s.rstrip("\n") + "\n" + MARK + tmpl
open(path, "w").write(s)
print("DESIGN.md section 10 regenerated:", len(fixed), "fixed,", len(known), "known,", len(seeded) - 2, "seeds")
