"""Demonstration for the source-text tie of C14's discretisation code (tag py2lean-sample,
notes/NOTES-py2lean-sample.md): apply semantic mutations / meaning-preserving refactorings of
`StateSpace.sample`, `TransferFunction.sample`, `_c2d_matched` to a SCRATCH worktree of /repo (and of
SciPy's `cont2discrete` to a scratch COPY of scipy/signal/_lti_conversion.py, handed over through the
test-only switch VERIF_SCIPY_SRC), run `check.py C14 --tier quick` against it (VERIF_REPO,
VERIF_NO_EVIDENCE=1) and report which proof obligations break and whether a VIOLATION with a failing
input is reported.

    git -C /repo worktree add --detach /tmp/w/g12_repo HEAD
    /venv/bin/python harness/c2d_tie_mutations.py /tmp/w/g12_repo [--build] [name ...]
    git -C /repo worktree remove --force /tmp/w/g12_repo

`--build`: only regenerate + `lake build` of the tie modules (fast; no correspondence run).
Never run against /repo itself.  The script finishes with a regeneration from the unchanged /repo."""
import json
import os
import re
import shutil
import subprocess
import sys
import time

HERE = os.path.dirname(os.path.abspath(__file__))
VERIF = os.path.dirname(HERE)
SS, TF, SCIPY = "control/statesp.py", "control/xferfcn.py", "scipy"
MODS = ["CtrlVerif.Props.C14GenSample", "CtrlVerif.Props.C14GenTF", "CtrlVerif.Props.C14GenScipy"]

PREWARP_SS = "                Twarp = 2*np.tan(prewarp_frequency*Ts/2)/prewarp_frequency\n"

# (name, kind, file, [(old, new, count)]); kind: 'mutation' (must be caught) | 'refactor' (must pass)
EDITS = [
    # ---- semantic mutations --------------------------------------------------------------------
    ("m-ss-step-not-warped", "mutation", SS,
     [("Ad, Bd, C, D, _ = cont2discrete(sys, Twarp, method, alpha)",
       "Ad, Bd, C, D, _ = cont2discrete(sys, Ts, method, alpha)", 1)]),
    ("m-ss-prewarp-formula", "mutation", SS,
     [(PREWARP_SS, "                Twarp = np.tan(prewarp_frequency*Ts)/prewarp_frequency\n", 1)]),
    ("m-ss-prewarp-any-gbt", "mutation", SS,
     [("                    (method == 'gbt' and alpha == 0.5):\n                Twarp = 2*np.tan(prewarp_frequency*Ts/2)/prewarp_frequency\n",
       "                    (method == 'gbt'):\n                Twarp = 2*np.tan(prewarp_frequency*Ts/2)/prewarp_frequency\n", 1)]),
    ("m-ss-alpha-dropped", "mutation", SS,
     [("Ad, Bd, C, D, _ = cont2discrete(sys, Twarp, method, alpha)",
       "Ad, Bd, C, D, _ = cont2discrete(sys, Twarp, method)", 1)]),
    ("m-ss-dt-is-warped", "mutation", SS,        # leaves the subset (a number as timebase): translation fails
     [("        sysd = StateSpace(Ad, Bd, C, D, Ts)\n", "        sysd = StateSpace(Ad, Bd, C, D, Twarp)\n", 1)]),
    ("m-ss-name-only-with-copy", "mutation", SS,     # the repaired defect C14-ss-sample-name re-introduced
     [("        if name is not None:\n            sysd.name = name\n        # pass desired signal names if names were provided\n        return StateSpace(sysd, **kwargs)",
       "            if name is not None:\n                sysd.name = name\n        # pass desired signal names if names were provided\n        return StateSpace(sysd, **kwargs)", 1)]),
    ("m-tf-prewarp-any-gbt", "mutation", TF,
     [("                    (method == 'gbt' and alpha == 0.5):\n", "                    (method == 'gbt'):\n", 1)]),
    ("m-matched-gain-product", "mutation", TF,
     [("    gain = sysC.dcgain() / zgain\n", "    gain = sysC.dcgain() * zgain\n", 1)]),
    ("m-matched-zeros-mirrored", "mutation", TF,
     [("    for idx, s in enumerate(szeros):\n        sTs = s * Ts\n        z = exp(sTs)\n",
       "    for idx, s in enumerate(szeros):\n        sTs = s * Ts\n        z = exp(-sTs)\n", 1)]),
    ("m-scipy-dd-lost-alpha", "mutation", SCIPY,     # SciPy's text, not /repo: only the tie can see it
     [("        dd = d + alpha*np.dot(c, bd)\n", "        dd = d + np.dot(c, bd)\n", 1)]),
    ("m-scipy-euler-is-backward", "mutation", SCIPY,
     [("        return cont2discrete(system, dt, method=\"gbt\", alpha=0.0)",
       "        return cont2discrete(system, dt, method=\"gbt\", alpha=1.0)", 1)]),
    # ---- meaning-preserving refactorings: every obligation must stay discharged -----------------
    ("r-ss-renamed", "refactor", SS,
     [("Twarp", "h_step", None), ("sysd", "dsys", None)]),
    ("r-ss-named-temporary", "refactor", SS,
     [(PREWARP_SS,
       "                half = prewarp_frequency*Ts/2\n                w = prewarp_frequency\n"
       "                Twarp = 2*np.tan(half)/w\n", 1)]),
    ("r-ss-reordered", "refactor", SS,
     [("        if prewarp_frequency is not None:\n            if method in ('bilinear', 'tustin') or \\\n                    (method == 'gbt' and alpha == 0.5):\n"
       + PREWARP_SS + "            else:\n                warn('prewarp_frequency ignored: incompatible conversion')\n                Twarp = Ts\n        else:\n            Twarp = Ts\n        sys = (self.A, self.B, self.C, self.D)\n",
       "        sys = (self.A, self.B, self.C, self.D)\n        if prewarp_frequency is None:\n            Twarp = Ts\n        else:\n            if method == 'bilinear' or method == 'tustin' or \\\n                    (method == 'gbt' and alpha == 0.5):\n"
       + PREWARP_SS + "            else:\n                Twarp = Ts\n                warn('prewarp_frequency ignored: incompatible conversion')\n", 1)]),
    ("r-tf-reordered-renamed", "refactor", TF,
     [("        sys = (self.num[0][0], self.den[0][0])\n        if prewarp_frequency is not None:\n            if method in ('bilinear', 'tustin') or \\\n                    (method == 'gbt' and alpha == 0.5):\n                Twarp = 2*np.tan(prewarp_frequency*Ts/2)/prewarp_frequency\n            else:\n                warn('prewarp_frequency ignored: incompatible conversion')\n                Twarp = Ts\n        else:\n            Twarp = Ts\n        numd, dend, _ = cont2discrete(sys, Twarp, method, alpha)\n",
       "        if prewarp_frequency is not None:\n            if method in ('bilinear', 'tustin') or \\\n                    (method == 'gbt' and alpha == 0.5):\n                step = 2*np.tan(prewarp_frequency*Ts/2)/prewarp_frequency\n            else:\n                warn('prewarp_frequency ignored: incompatible conversion')\n                step = Ts\n        else:\n            step = Ts\n        num_den = (self.num[0][0], self.den[0][0])\n        numd, dend, _ = cont2discrete(num_den, step, method, alpha)\n", 1)]),
    ("r-matched-renamed-swapped", "refactor", TF,
     [("    for idx, s in enumerate(szeros):\n        sTs = s * Ts\n        z = exp(sTs)\n        zzeros[idx] = z\n        pregainnum[idx] = 1 - z\n",
       "    for k, root in enumerate(szeros):\n        zd = exp(root * Ts)\n        pregainnum[k] = 1 - zd\n        zzeros[k] = zd\n", 1)]),
    ("r-matched-state-order", "refactor", TF,      # renaming changes the order of the loop-state tuple
     [("zzeros", "azeros", None), ("pregainden", "zz_den", None)]),
    ("r-matched-named-temporaries", "refactor", TF,
     [("    zgain = np.multiply.reduce(pregainnum) / np.multiply.reduce(pregainden)\n    gain = sysC.dcgain() / zgain\n",
       "    gn = np.multiply.reduce(pregainnum)\n    gd = np.multiply.reduce(pregainden)\n    zgain = gn / gd\n    dc = sysC.dcgain()\n    gain = dc / zgain\n", 1)]),
]


def scipy_src():
    import importlib.util
    return importlib.util.find_spec("scipy.signal._lti_conversion").origin


def apply(repo, edit, scratch_scipy):
    _, kind, rel, repls = edit
    path = scratch_scipy if rel == SCIPY else os.path.join(repo, rel)
    src = open(path).read()
    for old, new, count in repls:
        n = src.count(old)
        if n == 0 or (count is not None and n != count):
            return "pattern %r occurs %d times" % (old[:40], n)
        src = src.replace(old, new)
    open(path, "w").write(src)
    return None


def reset(repo, scratch_scipy):
    subprocess.run(["git", "-C", repo, "checkout", "--", SS, TF], check=True)
    shutil.copyfile(scipy_src(), scratch_scipy)


def run(repo, name, build_only, scratch_scipy):
    edit = [e for e in EDITS if e[0] == name][0]
    _, kind, rel, _ = edit
    reset(repo, scratch_scipy)
    err = apply(repo, edit, scratch_scipy)
    if err:
        return {"name": name, "error": err}
    env = dict(os.environ, VERIF_REPO=repo, VERIF_NO_EVIDENCE="1", VERIF_SEED=os.environ.get("VERIF_SEED", "0"),
               VERIF_SCIPY_SRC=scratch_scipy)
    t0 = time.time()
    if build_only:
        sys.path.insert(0, HERE)
        from core import py2lean_c2d, leanproj
        os.environ["VERIF_SCIPY_SRC"] = scratch_scipy
        probs, _ = py2lean_c2d.regenerate(repo, leanproj.LEAN)
        p = subprocess.run(["lake", "build"] + MODS, cwd=os.path.join(VERIF, "lean"), text=True, capture_output=True)
        out = p.stdout + p.stderr
        broken = sorted(set(re.findall(r"error: (CtrlVerif/Props/\S+?\.lean):(\d+)", out)))
        reset(repo, scratch_scipy)
        ok = (p.returncode == 0 and not probs)
        return {"name": name, "kind": kind, "file": rel, "build_ok": ok, "problems": [x[:160] for x in probs],
                "broken_at": broken[:4], "wall": round(time.time() - t0, 1),
                "as_expected": ok if kind == "refactor" else not ok}
    p = subprocess.run(["/venv/bin/python", os.path.join(HERE, "check.py"), "C14", "--tier", "quick"],
                       cwd=VERIF, env=env, text=True, capture_output=True)
    out = p.stdout + p.stderr
    reset(repo, scratch_scipy)
    viol = [l for l in out.split("\n") if l.startswith("VIOLATION")]
    summ = [l for l in out.split("\n") if l.startswith("C14 tier=")]
    m = re.search(r"obligations=(\d+)/(\d+)", out)
    first = None
    for v in viol:
        mm = re.search(r"replay=(\S+)", v)
        if mm and "no-failing-input-found" not in v:
            try:
                pay = json.load(open(os.path.join(VERIF, mm.group(1))))
                c = pay.get("case", {})
                first = {"replay": mm.group(1), "detail": str(pay.get("detail", ""))[:160],
                         "case": {k: c.get(k) for k in ("k", "method", "alpha", "pw", "Ts", "num", "den", "names") if k in c}}
            except Exception as e:  # noqa
                first = {"replay": mm.group(1), "error": str(e)}
            break
    return {"name": name, "kind": kind, "file": rel, "exit": p.returncode,
            "obligations": m.group(0) if m else None, "violations": len(viol),
            "no_failing_input": sum("no-failing-input-found" in v for v in viol), "failing_input": first,
            "summary": summ[-1] if summ else out[-400:], "wall": round(time.time() - t0, 1),
            "problems": [l[:200] for l in out.split("\n") if "cannot be translated" in l][:2],
            "as_expected": (p.returncode == 1 and bool(viol)) if kind == "mutation" else p.returncode == 0}


if __name__ == "__main__":
    args = sys.argv[1:]
    build_only = "--build" in args
    args = [a for a in args if a != "--build"]
    repo = os.path.abspath(args[0])
    if os.path.realpath(repo) == os.path.realpath("/repo"):
        sys.exit("refusing to edit /repo")
    scratch_scipy = repo.rstrip("/") + "_lti_conversion.py"
    names = args[1:] or [e[0] for e in EDITS]
    results = []
    for nm in names:
        r = run(repo, nm, build_only, scratch_scipy)
        results.append(r)
        print(json.dumps(r), flush=True)
    # leave the generated files as the unchanged trees define them
    os.environ.pop("VERIF_SCIPY_SRC", None)
    if os.path.exists(scratch_scipy):
        os.remove(scratch_scipy)
    sys.path.insert(0, HERE)
    from core import py2lean_c2d, leanproj
    py2lean_c2d.regenerate("/repo", leanproj.LEAN)
    subprocess.run(["lake", "build"] + MODS, cwd=os.path.join(VERIF, "lean"), capture_output=True)
    print("not as expected:", [r["name"] for r in results if not r.get("as_expected")])
