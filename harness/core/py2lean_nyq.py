"""Fifth translator Python `ast` -> Lean 4 (DESIGN §10.3, notes/NOTES-py2lean-unwrap.md): the
NumPy-vectorised phase unwrapping `control.ctrlutil.unwrap` and the statements of
`control.freqplot.nyquist_response` that compute the encirclement count, decide the side of an
indentation and count `P` / `Z` for the consistency warning (property C13).

On every run of `check.py C13` (hook `Family.pre_build`, `VERIF_REPO` honoured) it rewrites
    lean/CtrlVerif/Generated/NyqUnwrap.lean   unwrapDefaultPeriod, unwrap
    lean/CtrlVerif/Generated/NyqCount.lean    nyquistAngleArg, nyquistCount
    lean/CtrlVerif/Generated/NyqIndent.lean   nyquistIndentSign, nyquistIndentContour
    lean/CtrlVerif/Generated/NyqPZ.lean       nyquistPZ, nyquistCriterionWarn
from the source text of the tree under check; `Props/C13Gen.lean` proves the hand-written model
(`Model/Nyquist.lean`: `unwrap`, `count`, `addOne`, `side`, `indentPoint` = `nearest` + `indentDecision` +
`applyIndent`, `countP`, `countZ`, `criterionOK`) EQUAL to them for all arguments (`Props/C13GenIndent.lean`
for the indentation and P / Z), `Props/C13GenArg.lean` transports `count_continuous`.  A semantic edit of the
source breaks an equality; an edit that leaves the subset, or after which a statement pattern is no
longer found EXACTLY ONCE, makes the translation fail: every definition of that file is then emitted
as a value that cannot equal the model (`.error Err.notImplemented`, `0`) and the problem is returned
to the runner (a broken proof obligation).

Value model (fixed in `lean/CtrlVerif/Model/PyNyq.lean`, hand-written, trusted): float = element of
an ordered field `K` with floor, exact arithmetic; 1-D float array = `List K`; complex scalar =
`K × K`, complex 1-D array = `List (K × K)`; boolean array = `List Bool`; `str` = `String`; the
constant `math.pi` = `np.pi` is a parameter `pi : K` of the generated functions.

How the statements inside the (350-line) function `nyquist_response` are located.  `fn` is the unique
module-level `def nyquist_response`.  A *store* of a name is any `ast.Name` in Store / Del context
(assignment, augmented assignment, loop variable, `with ... as`, walrus), a parameter, an import or
a nested def of that name.
  count   C := the unique store of the name `count` in `fn`; it must be the single target of a plain
          `Assign`.  The *backward slice* of C: every local name read by its right-hand side must
          have exactly one store in `fn`, a plain `Assign` in the SAME statement list before its use,
          and no element / attribute of it may be stored anywhere in `fn`; recursively.  The slice
          stops at the call `np.angle(<arg>)`, which must occur exactly once in it and becomes the
          input list `angles`; `<arg>` must read exactly one local name (singly assigned), which
          becomes the complex array `resp` of `nyquistAngleArg`.  The unique call of
          `NyquistResponseData` in `fn` must receive the name `count` as first argument.
          At HEAD the slice is `phase = -unwrap(np.angle(resp + 1))`, `encirclements =
          np.sum(np.diff(phase)) / np.pi`, `count = int(np.round(encirclements, 0))`.
  indent  the unique `If` of `fn` whose body is one augmented assignment `<contour>[<i>] += <off>`.
          Its `elif` must be `<contour>[<i>] -= <off>` on the same operands and its `else` a `raise
          ValueError`.  In the tests every `X.real` must be on one and the same name X (the nearest
          pole; -> `pre : K`, its real part) and every other name must be one name compared with
          string literals (-> `dir : String`), stored once in `fn`.  Result: the coefficient of
          `<off>` added to the contour point, `1` / `-1`.
  loop    the innermost loop around that `if`: it must be `for <i>, <s> in enumerate(<contour>):` with the
          `<contour>`, `<i>` of the update, and be the only statement of an `if` without `else` (the guard
          `len(splane_poles) > 0`).  In the loop body `<contour>` and `<i>` may occur only as the updated
          element `<contour>[<i>]` (-> the variable `cur`, initially `<s>`), `<s>` is not re-bound; exactly
          one array is subscripted (-> `poles`), the direction is as above, and exactly one further free
          name is read (-> the radius `r : K`); none of them is bound inside the loop.  `np.sqrt` is the
          parameter `sqrt : K → K`.  Result (`nyquistIndentContour`): the contour after the loop,
          `List.mapM` of the body over the contour before it.
  P / Z   the unique `If` of `fn` whose test is `<x>.isctime()` and under which exactly two names are
          stored; the one whose right-hand sides call `.feedback()` is Z, the other P.  Opaque
          inputs: `<x>.isctime()` -> `ctime : Bool`, `<x>.poles()` -> `poles`, `<x>.feedback().poles()`
          -> `clpoles` (complex arrays), the direction name -> `dir : String`.
  warn    the unique `If` of `fn` whose test reads the three names P, Z and `count`; its test, with
          the remaining name as `warn : Bool`, is `nyquistCriterionWarn`.

Supported subset
  statements  docstring; `x = e`; `x[k:] += e` (k a non-negative literal, x an array this function
              has created itself: `np.array(..., dtype=float)` or the result of an array operation -
              an in-place update of something that may alias an argument is refused); `return e`;
              `if/elif/else` (also without `else`) joining the re-bound names; a final `raise
              ValueError(..)` (-> `badArg`); `X[i] += e`, `X[i] -= e` on the loop element (job `loop`)
  expressions int / float / str literals; names; `np.pi`, `math.pi`; `+ - *` on scalars, array∘scalar
              (elementwise), array∘array (`PyNyq.zipB`: broadcasting, shape error), complex array
              + real scalar; `/` (`PyArith.div`, the field's `/` for a non-zero literal divisor);
              `%` (`PyNyq.fmod` / `modS`, sign of the divisor, zero divisor = error); `** k` for a
              literal `k >= 0`; unary `-`; comparisons of scalars / strings, array-with-scalar
              (boolean array), `np.abs(z)` with a non-negative literal; `and / or / not` of pure
              tests; `np.array(x, dtype=float)`, `np.diff`, `np.cumsum`, `np.sum`, `np.round(x[, 0])`,
              `int(x)`, `abs(x)`, `len(a)`, `np.abs(z)`, `np.sqrt(x)` (job `loop`), `z.real`, `z.imag`, `z1 - z2`,
              `A[(np.abs(A - s)).argmin()]` (`PyNyq.nearestTo`), `b.sum()`, `unwrap(a[, period])` (the function
              imported from `.ctrlutil`: the generated `unwrap`; a missing `period` is the translated
              default expression `unwrapDefaultPeriod`), the opaque inputs of the job.
Evaluation order: effectful sub-expressions are bound left to right before the statement.
Python names that are Lean keywords or names the generated code uses itself are primed (`angles'`).
"""
import ast
import hashlib
import os
from fractions import Fraction

from core.py2lean import Unsupported
from core.py2lean_arith import _ind, _do, _paren
from core.py2lean_arith import Translator as _ArithTranslator

K, INT, ARR, CARR, CABS, BARR, CPX, CABSS, STR, PROP, BOOL = (
    "K", "Int", "List K", "List (K × K)", "abs of a complex array", "List Bool", "(K × K)",
    "abs of a complex scalar", "String", "Prop", "Bool")
NUM = (K, INT)
BINDERS = "{K : Type} [Field K] [LinearOrder K] [IsStrictOrderedRing K] [FloorRing K]"
RESERVED = {
    "pi", "angles", "resp", "pre", "dir", "ctime", "poles", "clpoles", "warn", "unwrap", "unwrapDefaultPeriod",
    "nyquistCount", "nyquistAngleArg", "nyquistIndentSign", "nyquistPZ", "nyquistCriterionWarn", "K", "List",
    "Int", "Nat", "String", "Bool", "Prop", "Type", "Sort", "Err", "Except", "PyNyq", "PyArith", "pure", "decide",
    "at", "from", "end", "do", "fun", "let", "open", "in", "if", "then", "else", "match", "with", "show", "have",
    "by", "def", "theorem", "lemma", "namespace", "section", "variable", "where", "instance", "class", "structure",
    "deriving", "import", "export", "universe", "mutual", "private", "protected", "return", "for", "calc", "using",
    "suffices", "obtain", "nomatch", "nofun", "macro", "syntax", "notation", "infix", "infixl", "infixr", "prefix",
    "postfix", "attribute", "local", "set_option", "extends", "example", "axiom", "abbrev", "inductive",
    "noncomputable", "partial", "unsafe", "opaque", "mut", "unless", "forall", "exists", "this", "true", "false",
    "mod", "div", "fst", "snd", "cur", "sqrt", "r", "s", "p", "contour"}
BUILTINS = ("int", "abs", "len")
RAISED = object()


class Val:
    def __init__(self, code, ty, lit=None, fresh=False):
        # lit: the Fraction value of a numeric literal; fresh: a newly created array (not a view)
        self.code, self.ty, self.lit, self.fresh = code, ty, lit, fresh


def lean_name(name):
    """the Lean identifier of a Python local: itself, primed when it would be captured by a Lean
    keyword / a name the generated code uses (a Python identifier never contains a prime)"""
    if not name.isidentifier() or not name.isascii():
        raise Unsupported("the variable name `%s` cannot be used in the generated code" % name)
    if name.startswith("_"):
        return "u" + name + "'"
    if name in RESERVED or (name[:1] == "t" and name[1:].isdigit()):
        return name + "'"
    return name


def klit(q):
    q = Fraction(q)
    if q.denominator == 1:
        return "(%d : K)" % q.numerator
    return "((%d : K) / %d)" % (q.numerator, q.denominator)


# ------------------------------------------------------------------------------------------------
# names, stores, statement lists
# ------------------------------------------------------------------------------------------------
def parents(root):
    par = {}
    for node in ast.walk(root):
        for ch in ast.iter_child_nodes(node):
            par[ch] = node
    return par


def stores(fn, name):
    """every node that binds `name` inside `fn` (see the module docstring)"""
    out = []
    for node in ast.walk(fn):
        if isinstance(node, ast.Name) and node.id == name and isinstance(node.ctx, (ast.Store, ast.Del)):
            out.append(node)
        elif isinstance(node, ast.arg) and node.arg == name:
            out.append(node)
        elif isinstance(node, (ast.Import, ast.ImportFrom)):
            out.extend(a for a in node.names if (a.asname or a.name.split(".")[0]) == name)
        elif isinstance(node, (ast.FunctionDef, ast.AsyncFunctionDef, ast.ClassDef)) and node is not fn \
                and node.name == name:
            out.append(node)
        elif isinstance(node, ast.ExceptHandler) and node.name == name:
            out.append(node)
        elif isinstance(node, (ast.Global, ast.Nonlocal)) and name in node.names:
            out.append(node)
    return out


def element_stores(fn, name):
    """stores into `name[...]` / `name.attr` anywhere in fn"""
    out = []
    for node in ast.walk(fn):
        if isinstance(node, (ast.Subscript, ast.Attribute)) and isinstance(node.ctx, (ast.Store, ast.Del)):
            root = node
            while isinstance(root, (ast.Subscript, ast.Attribute)):
                root = root.value
            if isinstance(root, ast.Name) and root.id == name:
                out.append(node)
    return out


def local_names(fn):
    names = {a.arg for a in ast.walk(fn) if isinstance(a, ast.arg)}
    for node in ast.walk(fn):
        if isinstance(node, ast.Name) and isinstance(node.ctx, (ast.Store, ast.Del)):
            names.add(node.id)
    return names


def single_assign(fn, par, name):
    """the plain `name = e` that is the only store of `name` in fn"""
    st = stores(fn, name)
    if len(st) != 1:
        raise Unsupported("the name `%s` is stored %d times in the function, expected exactly once" % (name, len(st)))
    a = par.get(st[0])
    if not (isinstance(a, ast.Assign) and len(a.targets) == 1 and a.targets[0] is st[0]):
        raise Unsupported("`%s` is not bound by a plain assignment `%s = ...`" % (name, name))
    if element_stores(fn, name):
        raise Unsupported("an element / attribute of `%s` is assigned" % name)
    return a


def stmt_list_of(par, stmt):
    p = par[stmt]
    for field in ("body", "orelse", "finalbody"):
        lst = getattr(p, field, None)
        if isinstance(lst, list) and any(x is stmt for x in lst):
            return lst
    raise Unsupported("statement list of line %d not found" % stmt.lineno)


def find_function(module, name):
    found = [n for n in module.body if isinstance(n, ast.FunctionDef) and n.name == name]
    if len(found) != 1:
        raise Unsupported("%d module-level definitions of %s" % (len(found), name))
    if found[0].decorator_list:
        raise Unsupported("decorated function")
    return found[0]


# ------------------------------------------------------------------------------------------------
class Tr(_ArithTranslator):
    """expressions and straight-line / if-else blocks of the subset"""

    def __init__(self, module, fn, opaque=None, has_pi=True, angle_input=False, unwrap_default=None,
                 has_sqrt=False, elem_key=None):
        _ArithTranslator.__init__(self, {}, module)
        self.fn = fn
        self.locals = local_names(fn)
        self.names = set(self.locals)
        self.opaque = opaque or {}              # source text -> (lean name, type)
        self.has_pi = has_pi
        self.angle_input = angle_input          # np.angle(arg) is the input `angles`
        self.angle_args = []
        self.unwrap_default = unwrap_default    # Lean code of the default period (a function of pi)
        self.has_sqrt = has_sqrt                # np.sqrt is the parameter `sqrt : K → K`
        self.elem_key = elem_key                # source text of the loop element `X[i]` (-> variable `cur`)
        for b in BUILTINS:
            if b in self.locals or not self.unbound_at_module_level(b):
                raise Unsupported("the builtin `%s` is re-bound" % b)

    def unbound_at_module_level(self, name):
        for node in self.module.body:
            if isinstance(node, (ast.FunctionDef, ast.ClassDef)) and node.name == name:
                return False
            if isinstance(node, ast.Assign) and any(isinstance(t, ast.Name) and t.id == name for t in node.targets):
                return False
            if isinstance(node, (ast.Import, ast.ImportFrom)) and \
                    any((a.asname or a.name.split(".")[0]) == name for a in node.names):
                return False
        return True

    # -- module-level names -----------------------------------------------------------------------
    def is_np(self, node):
        return isinstance(node, ast.Name) and node.id not in self.locals and self.check_numpy(node.id) \
            and self.module_binds_once(node.id)

    def is_math(self, node):
        if not (isinstance(node, ast.Name) and node.id == "math" and node.id not in self.locals):
            return False
        ok = any(isinstance(n, ast.Import) and any(a.name == "math" and a.asname is None for a in n.names)
                 for n in self.module.body)
        return ok and self.module_binds_once("math")

    def module_binds_once(self, name):
        n = 0
        for node in self.module.body:
            if isinstance(node, (ast.Import, ast.ImportFrom)):
                n += sum(1 for a in node.names if (a.asname or a.name.split(".")[0]) == name)
            elif isinstance(node, (ast.FunctionDef, ast.ClassDef)) and node.name == name:
                n += 1
            elif isinstance(node, ast.Assign):
                n += sum(1 for t in node.targets if isinstance(t, ast.Name) and t.id == name)
        return n == 1

    def np_attr(self, node):
        """`np.<attr>` -> attr, else None"""
        if isinstance(node, ast.Attribute) and self.is_np(node.value):
            return node.attr
        return None

    # -- helpers ----------------------------------------------------------------------------------
    def kcast(self, v):
        if v.ty == K:
            return v
        if v.ty == INT:
            if v.lit is not None:
                return Val(klit(v.lit), K, lit=v.lit)
            return Val("((%s : Int) : K)" % v.code, K)
        raise Unsupported("a value of type %s where a float is needed" % v.ty)

    def bind(self, binds, rhs, ty, fresh=False):
        t = self.fresh()
        binds.append("let %s ← %s" % (t, rhs))
        return Val(t, ty, fresh=fresh)

    # -- expressions ------------------------------------------------------------------------------
    def expr(self, node, env, binds):
        src = ast.unparse(node)
        if src in self.opaque:
            nm, ty = self.opaque[src]
            root = node
            while isinstance(root, (ast.Attribute, ast.Call, ast.Subscript)):
                root = root.func if isinstance(root, ast.Call) else root.value
            if isinstance(root, ast.Name) and len(stores(self.fn, root.id)) != 1:
                raise Unsupported("`%s` is stored more than once in the function" % root.id)
            return Val(nm, ty)
        if isinstance(node, ast.Constant):
            v = node.value
            if type(v) is int:
                return Val(str(v) if v >= 0 else "(%d)" % v, INT, lit=Fraction(v))
            if type(v) is float:
                q = Fraction(repr(v))
                if float(q) != v or Fraction(v) != q:
                    raise Unsupported("float literal %r is not an exact binary fraction" % v)
                return Val(klit(q), K, lit=q)
            if type(v) is str:
                if '"' in v or "\\" in v or not v.isprintable():
                    raise Unsupported("string literal %r" % v)
                return Val('"%s"' % v, STR)
            raise Unsupported("constant %r" % (v,))
        if isinstance(node, ast.Name):
            if node.id not in env:
                raise Unsupported("the name `%s` is not a value of the translated fragment here" % node.id)
            e = env[node.id]
            return Val(e[2] if len(e) > 2 else lean_name(node.id), e[0], fresh=False)
        if isinstance(node, ast.Attribute):
            if node.attr == "pi" and (self.is_np(node.value) or self.is_math(node.value)):
                if not self.has_pi:
                    raise Unsupported("pi in a fragment without the parameter pi")
                return Val("pi", K)
            if node.attr in ("real", "imag"):
                v = self.expr(node.value, env, binds)
                if v.ty == CPX:
                    return Val("%s.%d" % (_paren(v.code), 1 if node.attr == "real" else 2), K)
                if v.ty == CARR and node.attr == "real":
                    return Val("(PyNyq.real %s)" % v.code, ARR, fresh=False)
            raise Unsupported("attribute %s" % src[:60])
        if isinstance(node, ast.UnaryOp) and isinstance(node.op, ast.USub):
            v = self.expr(node.operand, env, binds)
            if v.ty == INT and v.lit is not None:
                return Val("(%d)" % (-v.lit), INT, lit=-v.lit)
            if v.ty == K and v.lit is not None:
                return Val(klit(-v.lit), K, lit=-v.lit)
            if v.ty in NUM:
                return Val("(-%s)" % v.code, v.ty)
            if v.ty == ARR:
                return Val("(List.map (fun x => -x) %s)" % v.code, ARR, fresh=True)
            raise Unsupported("negation of %s" % v.ty)
        if isinstance(node, ast.UnaryOp) and isinstance(node.op, ast.Not):
            v = self.prop(self.expr(node.operand, env, binds))
            return Val("(¬ %s)" % v.code, PROP)
        if isinstance(node, ast.BinOp):
            return self.binop(node, env, binds)
        if isinstance(node, ast.Compare):
            return self.compare(node, env, binds)
        if isinstance(node, ast.BoolOp):
            vs = []
            for i, x in enumerate(node.values):
                b = [] if i else binds
                v = self.prop(self.expr(x, env, b))
                if i and b:
                    raise Unsupported("an operand of and/or after the first that can fail: %s" % ast.unparse(x)[:60])
                vs.append(v.code)
            return Val("(" + (" ∧ " if isinstance(node.op, ast.And) else " ∨ ").join(vs) + ")", PROP)
        if isinstance(node, ast.Subscript) and isinstance(node.ctx, ast.Load):
            # A[(np.abs(A - s)).argmin()]: the first entry of A nearest to s
            sl = node.slice
            if isinstance(node.value, ast.Name) and isinstance(sl, ast.Call) and not sl.args and not sl.keywords \
                    and isinstance(sl.func, ast.Attribute) and sl.func.attr == "argmin":
                inner = sl.func.value
                if isinstance(inner, ast.Call) and self.np_attr(inner.func) == "abs" and len(inner.args) == 1 \
                        and not inner.keywords and isinstance(inner.args[0], ast.BinOp) \
                        and isinstance(inner.args[0].op, ast.Sub) and isinstance(inner.args[0].left, ast.Name) \
                        and inner.args[0].left.id == node.value.id:
                    a = self.expr(node.value, env, binds)
                    z = self.expr(inner.args[0].right, env, binds)
                    if a.ty == CARR and z.ty == CPX:
                        return self.bind(binds, "PyNyq.nearestTo %s %s" % (a.code, z.code), CPX)
            raise Unsupported("subscript %s" % src[:80])
        if isinstance(node, ast.Call):
            return self.call(node, env, binds)
        raise Unsupported("expression %s" % src[:80])

    def prop(self, v):
        if v.ty == PROP:
            return v
        if v.ty == BOOL:
            return Val("(%s = true)" % v.code, PROP)
        raise Unsupported("a %s used as a truth value" % v.ty)

    def binop(self, node, env, binds):
        op = node.op
        a = self.expr(node.left, env, binds)
        b = self.expr(node.right, env, binds)
        sym = {ast.Add: "+", ast.Sub: "-", ast.Mult: "*"}.get(type(op))
        if sym:
            if a.ty in NUM and b.ty in NUM:
                if a.ty == INT and b.ty == INT:
                    return Val("(%s %s %s)" % (a.code, sym, b.code), INT)
                a, b = self.kcast(a), self.kcast(b)
                return Val("(%s %s %s)" % (a.code, sym, b.code), K)
            if a.ty == ARR and b.ty in NUM:
                return Val("(List.map (fun x => x %s %s) %s)" % (sym, self.kcast(b).code, a.code), ARR, fresh=True)
            if a.ty in NUM and b.ty == ARR:
                return Val("(List.map (fun x => %s %s x) %s)" % (self.kcast(a).code, sym, b.code), ARR, fresh=True)
            if a.ty == ARR and b.ty == ARR:
                return self.bind(binds, "PyNyq.zipB (fun x y => x %s y) %s %s" % (sym, a.code, b.code), ARR, True)
            if a.ty == CARR and b.ty in NUM and sym == "+":
                return Val("(PyNyq.caddS %s %s)" % (a.code, self.kcast(b).code), CARR, fresh=True)
            if a.ty == CPX and b.ty == CPX and sym == "-":
                return Val("(PyNyq.csub %s %s)" % (a.code, b.code), CPX)
            raise Unsupported("`%s` on %s, %s" % (sym, a.ty, b.ty))
        if isinstance(op, ast.Div):
            if a.ty in NUM and b.ty in NUM:
                a, b = self.kcast(a), self.kcast(b)
                if b.lit is not None and b.lit != 0:
                    return Val("(%s / %s)" % (a.code, b.code), K)
                return self.bind(binds, "PyArith.div %s %s" % (a.code, b.code), K)
            raise Unsupported("`/` on %s, %s" % (a.ty, b.ty))
        if isinstance(op, ast.Mod):
            if a.ty in NUM and b.ty in NUM and K in (a.ty, b.ty):
                return self.bind(binds, "PyNyq.fmod %s %s" % (self.kcast(a).code, self.kcast(b).code), K)
            if a.ty == ARR and b.ty in NUM:
                return self.bind(binds, "PyNyq.modS %s %s" % (a.code, self.kcast(b).code), ARR, True)
            raise Unsupported("`%%` on %s, %s" % (a.ty, b.ty))
        if isinstance(op, ast.Pow):
            if a.ty in NUM and b.ty == INT and b.lit is not None and b.lit >= 0:
                return Val("(%s ^ (%d : Nat))" % (a.code, b.lit), a.ty)
            raise Unsupported("`**` with base %s and exponent %s" % (a.ty, ast.unparse(node.right)))
        raise Unsupported("operator %s" % type(op).__name__)

    def compare(self, node, env, binds):
        if len(node.ops) != 1:
            raise Unsupported("chained comparison")
        op = node.ops[0]
        a = self.expr(node.left, env, binds)
        b = self.expr(node.comparators[0], env, binds)
        rel = {ast.Lt: ("%s < %s", 0), ast.LtE: ("%s ≤ %s", 0), ast.Gt: ("%s < %s", 1), ast.GtE: ("%s ≤ %s", 1),
               ast.Eq: ("%s = %s", 0), ast.NotEq: ("%s ≠ %s", 0)}.get(type(op))
        if rel is None:
            raise Unsupported("comparison %s" % type(op).__name__)
        fmt, swap = rel
        if a.ty in NUM and b.ty in NUM:
            if not (a.ty == INT and b.ty == INT):
                a, b = self.kcast(a), self.kcast(b)
            x, y = (b, a) if swap else (a, b)
            return Val("(" + fmt % (x.code, y.code) + ")", PROP)
        if a.ty == STR and b.ty == STR and isinstance(op, (ast.Eq, ast.NotEq)):
            return Val("(" + fmt % (a.code, b.code) + ")", PROP)
        if a.ty == ARR and b.ty in NUM and isinstance(op, (ast.Gt, ast.GtE)):
            f = "PyNyq.gtS" if isinstance(op, ast.Gt) else "PyNyq.geS"
            return Val("(%s %s %s)" % (f, a.code, self.kcast(b).code), BARR, fresh=True)
        if a.ty == CABS and b.ty in NUM and isinstance(op, (ast.Gt, ast.GtE)):
            if b.lit is None or b.lit < 0:
                raise Unsupported("np.abs(z) compared with something that is not a non-negative literal")
            f = "PyNyq.absGtS" if isinstance(op, ast.Gt) else "PyNyq.absGeS"
            return Val("(%s %s %s)" % (f, a.code, self.kcast(b).code), BARR, fresh=True)
        if a.ty == CABSS and b.ty in NUM and isinstance(op, ast.Lt):
            return Val("(PyNyq.absLt %s %s)" % (a.code, self.kcast(b).code), PROP)
        raise Unsupported("comparison of %s with %s" % (a.ty, b.ty))

    def call(self, node, env, binds):
        f = node.func
        src = ast.unparse(node)
        npf = self.np_attr(f)
        kw = {k.arg: k.value for k in node.keywords}
        if None in kw:
            raise Unsupported("**kwargs in %s" % src[:60])
        if npf == "angle" and self.angle_input:
            if len(node.args) != 1 or kw:
                raise Unsupported("np.angle with other than one argument")
            self.angle_args.append(node.args[0])
            return Val("angles", ARR, fresh=True)
        if npf == "array":
            if len(node.args) != 1 or set(kw) != {"dtype"} or ast.unparse(kw["dtype"]) != "float":
                raise Unsupported("np.array other than np.array(x, dtype=float)")
            v = self.expr(node.args[0], env, binds)
            if v.ty != ARR:
                raise Unsupported("np.array of a %s" % v.ty)
            return Val("(PyNyq.arrayCopy %s)" % v.code, ARR, fresh=True)
        if npf in ("diff", "cumsum", "sum", "abs"):
            if len(node.args) != 1 or kw:
                raise Unsupported("np.%s with other than one argument" % npf)
            v = self.expr(node.args[0], env, binds)
            if npf == "abs":
                if v.ty == CARR:
                    return Val(v.code, CABS)
                raise Unsupported("np.abs of a %s" % v.ty)
            if v.ty != ARR:
                raise Unsupported("np.%s of a %s" % (npf, v.ty))
            if npf == "sum":
                return Val("(List.sum %s)" % v.code, K)
            return Val("(PyNyq.%s %s)" % (npf, v.code), ARR, fresh=True)
        if npf == "sqrt" and self.has_sqrt:
            if len(node.args) != 1 or kw:
                raise Unsupported("np.sqrt with other than one argument")
            v = self.expr(node.args[0], env, binds)
            if v.ty not in NUM:
                raise Unsupported("np.sqrt of a %s" % v.ty)
            return Val("(sqrt %s)" % self.kcast(v).code, K)
        if npf == "round":
            if kw or len(node.args) not in (1, 2) or \
                    (len(node.args) == 2 and not (isinstance(node.args[1], ast.Constant)
                                                  and type(node.args[1].value) is int and node.args[1].value == 0)):
                raise Unsupported("np.round other than np.round(x) / np.round(x, 0)")
            v = self.expr(node.args[0], env, binds)
            if v.ty != K:
                raise Unsupported("np.round of a %s" % v.ty)
            return Val("(PyNyq.round0 %s)" % v.code, K)
        if isinstance(f, ast.Name) and f.id in BUILTINS and f.id not in self.locals:
            if len(node.args) != 1 or kw:
                raise Unsupported("%s with other than one argument" % f.id)
            v = self.expr(node.args[0], env, binds)
            if f.id == "int":
                if v.ty == K:
                    return Val("(PyNyq.toInt %s)" % v.code, INT)
                if v.ty == INT:
                    return v
            if f.id == "len" and v.ty in (ARR, CARR, BARR):
                return Val("((List.length %s : Nat) : Int)" % v.code, INT)
            if f.id == "abs":
                if v.ty in NUM:
                    return Val("|%s|" % v.code, v.ty)
                if v.ty == CPX:
                    return Val(v.code, CABSS)
            raise Unsupported("%s of a %s" % (f.id, v.ty))
        if isinstance(f, ast.Name) and f.id == "unwrap" and f.id not in self.locals and self.unwrap_default is not None:
            if not self.check_import("unwrap", "ctrlutil"):
                raise Unsupported("`unwrap` is not (only) `from .ctrlutil import unwrap`")
            args = list(node.args)
            if set(kw) - {"period"} or len(args) not in (1, 2) or (len(args) == 2 and kw):
                raise Unsupported("call %s" % src[:60])
            v = self.expr(args[0], env, binds)
            if v.ty != ARR:
                raise Unsupported("unwrap of a %s" % v.ty)
            pnode = args[1] if len(args) == 2 else kw.get("period")
            period = self.kcast(self.expr(pnode, env, binds)).code if pnode is not None else self.unwrap_default
            return self.bind(binds, "unwrap %s %s" % (v.code, period), ARR, True)
        if isinstance(f, ast.Attribute) and f.attr == "sum" and not node.args and not kw:
            v = self.expr(f.value, env, binds)
            if v.ty == BARR:
                return Val("(PyNyq.countTrue %s)" % v.code, INT)
            if v.ty == ARR:
                return Val("(List.sum %s)" % v.code, K)
            raise Unsupported(".sum() of a %s" % v.ty)
        raise Unsupported("call %s" % src[:80])

    # -- statements -------------------------------------------------------------------------------
    @staticmethod
    def is_doc(s):
        return isinstance(s, ast.Expr) and isinstance(s.value, ast.Constant) and isinstance(s.value.value, str)

    def check_name(self, name):
        lean_name(name)

    def block(self, stmts, env, result):
        """straight-line statements; `result(env, items)` appends the final expression"""
        items = []
        env = dict(env)
        for idx, s in enumerate(stmts):
            if self.is_doc(s) or isinstance(s, ast.Pass):
                continue
            if isinstance(s, ast.Assign):
                if len(s.targets) != 1 or not isinstance(s.targets[0], ast.Name):
                    raise Unsupported("assignment target %s" % ast.unparse(s.targets[0])[:40])
                name = s.targets[0].id
                self.check_name(name)
                if isinstance(s.value, ast.Name) and env.get(s.value.id, (None,))[0] in (ARR, CARR, BARR):
                    raise Unsupported("`%s = %s` makes two names for one array" % (name, s.value.id))
                binds = []
                v = self.expr(s.value, env, binds)
                if v.ty not in (K, INT, ARR, CARR, BARR, CPX, STR):
                    raise Unsupported("assignment of a %s" % v.ty)
                items.extend(binds)
                items.append("let %s : %s := %s" % (lean_name(name), v.ty, v.code))
                env[name] = (v.ty, v.fresh)
                continue
            if isinstance(s, ast.AugAssign) and self.elem_key is not None \
                    and ast.unparse(s.target) == self.elem_key and isinstance(s.op, (ast.Add, ast.Sub)):
                binds = []
                v = self.expr(s.value, env, binds)
                if v.ty not in NUM:
                    raise Unsupported("`%s` updated by a %s" % (self.elem_key, v.ty))
                items.extend(binds)
                cur = env[self.elem_key]
                items.append("let %s : %s := (PyNyq.%s %s %s)" % (
                    cur[2], CPX, "caddR" if isinstance(s.op, ast.Add) else "csubR", cur[2], self.kcast(v).code))
                continue
            if isinstance(s, ast.Raise):
                if idx != len(stmts) - 1 or not _is_valueerror(self, s):
                    raise Unsupported("raise that is not a final `raise ValueError(...)`")
                items.append("(.error Err.badArg)")
                result(env, items, RAISED)
                return items
            if isinstance(s, ast.AugAssign) and isinstance(s.target, ast.Subscript):
                t = s.target
                sl = t.slice
                if not (isinstance(t.value, ast.Name) and isinstance(sl, ast.Slice) and sl.upper is None
                        and sl.step is None and isinstance(sl.lower, ast.Constant)
                        and type(sl.lower.value) is int and sl.lower.value >= 0 and isinstance(s.op, ast.Add)):
                    raise Unsupported("in-place update %s" % ast.unparse(s)[:60])
                name = t.value.id
                if name not in env or env[name][0] != ARR:
                    raise Unsupported("in-place update of `%s`, which is not an array of this fragment" % name)
                if not env[name][1]:
                    raise Unsupported("in-place update of `%s`, which may alias an argument of the function "
                                      "(no copy was made)" % name)
                binds = []
                v = self.expr(s.value, env, binds)
                if v.ty != ARR:
                    raise Unsupported("`%s[%d:] += ` a %s" % (name, sl.lower.value, v.ty))
                items.extend(binds)
                items.append("let %s ← PyNyq.iaddFrom %d %s %s" % (lean_name(name), sl.lower.value, lean_name(name), v.code))
                continue
            if isinstance(s, ast.Return):
                if idx != len(stmts) - 1 or s.value is None:
                    raise Unsupported("return that is not the last statement / returns nothing")
                binds = []
                v = self.expr(s.value, env, binds)
                items.extend(binds)
                result(env, items, v)
                return items
            if isinstance(s, ast.If):
                binds = []
                c = self.prop(self.expr(s.test, env, binds))
                items.extend(binds)
                outs = []

                def keep(e, its, v, outs=outs):
                    if v is not None and v is not RAISED:
                        raise Unsupported("return inside an if")
                    outs.append((e, its, v is RAISED))
                self.block(s.body, env, keep)
                self.block(s.orelse, env, keep)
                (e1, i1, r1), (e2, i2, r2) = outs
                if r1 and r2:
                    raise Unsupported("an if that raises on both paths")
                live = [e for e, r in ((e1, r1), (e2, r2)) if not r]
                asg = self.assigned(s.body, self.elem_key) | self.assigned(s.orelse, self.elem_key)

                def joinable(e, n):
                    return n in e and (len(e[n]) == 2 or (len(e[n]) == 4 and e[n][3] == "elem"))
                changed = [n for n in sorted(asg) if all(joinable(e, n) for e in live)
                           and len({e[n][0] for e in live}) == 1]
                for n in asg - set(changed):
                    env.pop(n, None)          # bound on one path only: not a value afterwards
                if not changed:
                    raise Unsupported("an if that binds nothing on both paths")
                e0 = live[0]

                def lname(n):
                    return e0[n][2] if len(e0[n]) > 2 else lean_name(n)
                tup = "(" + ", ".join(lname(n) for n in changed) + ")"
                ty = " × ".join(e0[n][0] for n in changed)
                t = self.fresh()
                c1 = _do(i1) if r1 else _do(i1 + ["pure " + tup])
                c2 = _do(i2) if r2 else _do(i2 + ["pure " + tup])
                items.append("let %s ← ((if %s then\n%s\n  else\n%s) : Except Err (%s))" % (
                    t, c.code, _ind(c1, 4), _ind(c2, 4), ty))
                for k, n in enumerate(changed):
                    proj = t if len(changed) == 1 else t + ".2" * k + ("" if k == len(changed) - 1 else ".1")
                    items.append("let %s : %s := %s" % (lname(n), e0[n][0], proj))
                    if len(e0[n]) == 2:
                        env[n] = (e0[n][0], all(e[n][1] for e in live))
                continue
            raise Unsupported("statement %s" % ast.unparse(s).split("\n")[0][:70])
        result(env, items, None)
        return items

    @staticmethod
    def assigned(stmts, elem_key=None):
        out = set()
        for s in stmts:
            for node in ast.walk(s):
                if isinstance(node, ast.Name) and isinstance(node.ctx, ast.Store):
                    out.add(node.id)
                elif elem_key is not None and isinstance(node, ast.Subscript) and isinstance(node.ctx, ast.Store) \
                        and ast.unparse(node) == elem_key:
                    out.add(elem_key)
        return out


# ------------------------------------------------------------------------------------------------
# the jobs
# ------------------------------------------------------------------------------------------------
def _sha(text):
    return hashlib.sha256(text.encode()).hexdigest()


def _parse(repo, rel):
    src = open(os.path.join(repo, rel)).read()
    return src, ast.parse(src)


def _unwrap_parts(repo):
    """(module source, module, fn, default-period Lean code, sha of the function text)"""
    src, module = _parse(repo, "control/ctrlutil.py")
    fn = find_function(module, "unwrap")
    a = fn.args
    if a.vararg or a.kwarg or a.kwonlyargs or a.posonlyargs or [x.arg for x in a.args] != ["angle", "period"]:
        raise Unsupported("signature of unwrap: expected (angle, period=...)")
    if len(a.defaults) != 1:
        raise Unsupported("unwrap: expected exactly one default value (period)")
    tr = Tr(module, fn)
    binds = []
    d = tr.kcast(tr.expr(a.defaults[0], {}, binds))
    if binds:
        raise Unsupported("default period %s can fail" % ast.unparse(a.defaults[0]))
    return src, module, fn, d.code, ast.unparse(a.defaults[0])


def translate_unwrap(repo):
    src, module, fn, dcode, dsrc = _unwrap_parts(repo)
    tr = Tr(module, fn)
    env = {"angle": (ARR, False), "period": (K, False)}

    def result(env, items, v):
        if v is None or v is RAISED:
            raise Unsupported("a path falls off the end of the function / raises unconditionally")
        if v.ty != ARR:
            raise Unsupported("unwrap returns a %s" % v.ty)
        items.append("pure %s" % v.code)
    items = tr.block(fn.body, env, result)
    text = ast.get_source_segment(src, fn)
    sha = _sha(text)
    lean = ("/-- default value of `period` in `control/ctrlutil.py:unwrap`: `%s` (`math.pi` = `np.pi` is the "
            "parameter `pi`). -/\n"
            "def unwrapDefaultPeriod %s (pi : K) : K := %s\n\n"
            "/-- `control/ctrlutil.py:unwrap` as the source text says it (sha256 of the function text\n%s). -/\n"
            "def unwrap %s (angle : List K) (period : K) :\n    Except Err (List K) :=\n%s\n") % (
        dsrc, BINDERS, dcode, sha, BINDERS, _ind(_do(items), 2))
    return lean, {"sha": sha, "lines": fn.end_lineno - fn.lineno + 1, "temporaries": tr.ntmp}


def failed_unwrap(msg):
    return ("/-- translation FAILED: %s -/\ndef unwrapDefaultPeriod %s (pi : K) : K := 0\n\n"
            "/-- translation FAILED: %s -/\ndef unwrap %s (angle : List K) (period : K) :\n"
            "    Except Err (List K) :=\n  .error Err.notImplemented\n") % (msg, BINDERS, msg, BINDERS)


def _nyquist_fn(repo):
    src, module = _parse(repo, "control/freqplot.py")
    fn = find_function(module, "nyquist_response")
    return src, module, fn, parents(fn)


def _free_locals(tr, node, stop_angle=True):
    """local names read by `node`; the argument of np.angle(...) is not entered"""
    out = []

    def walk(n):
        if stop_angle and isinstance(n, ast.Call) and tr.np_attr(n.func) == "angle":
            return
        if isinstance(n, ast.Name) and isinstance(n.ctx, ast.Load) and n.id in tr.locals and n.id not in out:
            out.append(n.id)
        for ch in ast.iter_child_nodes(n):
            walk(ch)
    walk(node)
    return out


def count_slice(tr, fn, par, name="count"):
    """the backward slice of the assignment to `count` (module docstring), in source order"""
    c = single_assign(fn, par, name)
    lst = stmt_list_of(par, c)
    chosen = {id(c): c}
    todo = [c]
    while todo:
        s = todo.pop()
        for nm in _free_locals(tr, s.value):
            a = single_assign(fn, par, nm)
            if not any(x is a for x in lst):
                raise Unsupported("`%s` is not assigned in the statement list of the `%s` assignment" % (nm, name))
            if a.lineno >= s.lineno:
                raise Unsupported("`%s` is assigned after its use" % nm)
            if id(a) not in chosen:
                chosen[id(a)] = a
                todo.append(a)
    return [s for s in lst if id(s) in chosen]


def translate_count(repo):
    _, umod, ufn, dcode, _ = _unwrap_parts(repo)       # the default period of the callee
    src, module, fn, par = _nyquist_fn(repo)
    tr = Tr(module, fn, angle_input=True, unwrap_default="(unwrapDefaultPeriod pi)")
    sl = count_slice(tr, fn, par)
    # the count must be what the response object receives
    calls = [n for n in ast.walk(fn) if isinstance(n, ast.Call) and isinstance(n.func, ast.Name)
             and n.func.id == "NyquistResponseData"]
    if len(calls) != 1 or not calls[0].args or not (isinstance(calls[0].args[0], ast.Name)
                                                     and calls[0].args[0].id == "count"):
        raise Unsupported("`count` is not the first argument of the unique call of NyquistResponseData")

    def result(env, items, v):
        if v is not None:
            raise Unsupported("the slice of `count` raises")
        if env.get("count", (None,))[0] != INT:
            raise Unsupported("`count` is a %s, expected an int" % (env.get("count", ("nothing",))[0]))
        items.append("pure count")
    items = tr.block(sl, {}, result)
    if len(tr.angle_args) != 1:
        raise Unsupported("%d calls of np.angle in the slice of `count`, expected exactly one" % len(tr.angle_args))
    arg = tr.angle_args[0]
    names = _free_locals(tr, arg, stop_angle=False)
    if len(names) != 1:
        raise Unsupported("the argument of np.angle reads the locals %s, expected exactly one" % names)
    single_assign(fn, par, names[0])
    tr2 = Tr(module, fn)
    b2 = []
    v2 = tr2.expr(arg, {names[0]: (CARR, False, "resp")}, b2)
    if b2 or v2.ty != CARR:
        raise Unsupported("the argument of np.angle is not a pure complex-array expression")
    # rename the one local to the parameter name `resp`
    acode = v2.code
    text = "\n".join(ast.get_source_segment(src, s) for s in sl)
    sha = _sha(text)
    srcdoc = "\n".join("    " + ast.unparse(s) for s in sl)
    lean = ("/-- the argument of `np.angle` in the slice below, as a function of the frequency response\n"
            "`%s` (complex array): `%s`. -/\n"
            "def nyquistAngleArg %s (resp : List (K × K)) : List (K × K) :=\n  %s\n\n"
            "/-- the statements of `control/freqplot.py:nyquist_response` that compute `count` (backward slice of\n"
            "the unique assignment to `count`; sha256 of their text\n%s):\n%s\n"
            "`np.angle(..)` is the input `angles`, `np.pi` the parameter `pi`. -/\n"
            "def nyquistCount %s (pi : K) (angles : List K) :\n    Except Err Int :=\n%s\n") % (
        names[0], ast.unparse(arg), BINDERS, acode, sha, srcdoc.replace("-/", "- /"), BINDERS, _ind(_do(items), 2))
    return lean, {"sha": sha, "lines": len(sl), "temporaries": tr.ntmp, "at": [s.lineno for s in sl]}


def failed_count(msg):
    return ("/-- translation FAILED: %s -/\ndef nyquistAngleArg %s (resp : List (K × K)) : List (K × K) :=\n  []\n\n"
            "/-- translation FAILED: %s -/\ndef nyquistCount %s (pi : K) (angles : List K) :\n"
            "    Except Err Int :=\n  .error Err.notImplemented\n") % (msg, BINDERS, msg, BINDERS)


# -- indentation side -----------------------------------------------------------------------------
def _is_valueerror(tr, stmt):
    return (isinstance(stmt, ast.Raise) and stmt.cause is None and isinstance(stmt.exc, ast.Call)
            and isinstance(stmt.exc.func, ast.Name) and stmt.exc.func.id == "ValueError"
            and "ValueError" not in tr.locals and tr.unbound_at_module_level("ValueError"))


def _direction_name(tr, fn, tests):
    """the one name that the tests compare with string literals"""
    names = set()
    for t in tests:
        for node in ast.walk(t):
            if isinstance(node, ast.Compare) and len(node.ops) == 1 and isinstance(node.left, ast.Name) \
                    and isinstance(node.comparators[0], ast.Constant) and type(node.comparators[0].value) is str:
                names.add(node.left.id)
    if len(names) != 1:
        raise Unsupported("names compared with string literals: %s, expected exactly one" % sorted(names))
    d = names.pop()
    if len(stores(fn, d)) != 1:
        raise Unsupported("the direction `%s` is stored %d times in the function" % (d, len(stores(fn, d))))
    return d


def _find_indent(fn, tr):
    """(top `if`, its `elif`, the `+=` statement, name of the pole, name of the direction)"""
    def aug(stmts, op):
        return (len(stmts) == 1 and isinstance(stmts[0], ast.AugAssign) and isinstance(stmts[0].op, op)
                and isinstance(stmts[0].target, ast.Subscript))
    found = [n for n in ast.walk(fn) if isinstance(n, ast.If) and aug(n.body, ast.Add)]
    if len(found) != 1:
        raise Unsupported("%d `if` statements whose body is `<contour>[<i>] += <offset>`, expected exactly one"
                          % len(found))
    top = found[0]
    if not (len(top.orelse) == 1 and isinstance(top.orelse[0], ast.If) and aug(top.orelse[0].body, ast.Sub)):
        raise Unsupported("the `elif` of the indentation decision is not `<contour>[<i>] -= <offset>`")
    second = top.orelse[0]
    plus, minus = top.body[0], second.body[0]
    if ast.unparse(plus.target) != ast.unparse(minus.target) or ast.unparse(plus.value) != ast.unparse(minus.value):
        raise Unsupported("`+=` and `-=` of the indentation decision act on different operands")
    if not (isinstance(plus.value, ast.Name) and isinstance(plus.target.value, ast.Name)
            and isinstance(plus.target.slice, ast.Name)):
        raise Unsupported("indentation update %s" % ast.unparse(plus)[:60])
    if not (len(second.orelse) == 1 and _is_valueerror(tr, second.orelse[0])):
        raise Unsupported("the `else` of the indentation decision is not `raise ValueError(...)`")
    tests = [top.test, second.test]
    pole = set()
    for t in tests:
        for node in ast.walk(t):
            if isinstance(node, ast.Attribute) and node.attr == "real":
                if not isinstance(node.value, ast.Name):
                    raise Unsupported("`.real` of %s" % ast.unparse(node.value)[:40])
                pole.add(node.value.id)
    if len(pole) != 1:
        raise Unsupported("`.real` is taken of %s, expected exactly one name (the nearest pole)" % sorted(pole))
    return top, second, plus, pole.pop(), _direction_name(tr, fn, tests)


def translate_indent(repo):
    src, module, fn, par = _nyquist_fn(repo)
    tr = Tr(module, fn, has_pi=False)
    top, second, plus, pname, dname = _find_indent(fn, tr)
    env = {pname: (CPX, False, "p"), dname: (STR, False, "dir")}
    codes = []
    for t in (top.test, second.test):
        b = []
        c = tr.prop(tr.expr(t, env, b))
        if b:
            raise Unsupported("a test of the indentation decision can fail")
        codes.append(c.code)
    text = ast.get_source_segment(src, top)
    sha = _sha(text)
    lean = ("/-- the indentation decision of `control/freqplot.py:nyquist_response` (the unique `if` whose body is\n"
            "`<contour>[<i>] += <offset>`; sha256 of its text\n%s): the coefficient of `%s` that is added to\n"
            "`%s` (`+=`: `1`, `-=`: `-1`), `raise ValueError` = `badArg`.  `p` is `%s` (the nearest pole),\n"
            "`dir` is `%s`. -/\n"
            "def nyquistIndentSign %s (p : K × K) (dir : String) :\n    Except Err Int :=\n"
            "  if %s then .ok 1\n  else if %s then .ok (-1)\n  else .error Err.badArg\n") % (
        sha, ast.unparse(plus.value), ast.unparse(plus.target), pname, dname, BINDERS, codes[0], codes[1])
    lean2, inf2 = translate_indent_loop(src, module, fn, par)
    return lean + "\n" + lean2, {"sha": sha, "lines": top.end_lineno - top.lineno + 1, "at": [top.lineno],
                                 "loop": inf2}


def translate_indent_loop(src, module, fn, par):
    """the loop `for i, s in enumerate(X): ...` around the indentation decision, with its guard"""
    tr0 = Tr(module, fn, has_pi=False)
    top, second, plus, pname, dname = _find_indent(fn, tr0)
    xname, iname = plus.target.value.id, plus.target.slice.id
    loop = None
    for a in _ancestors(par, top):
        if isinstance(a, (ast.For, ast.While, ast.FunctionDef)):
            loop = a
            break
    if not (isinstance(loop, ast.For) and not loop.orelse and isinstance(loop.target, ast.Tuple)
            and len(loop.target.elts) == 2 and all(isinstance(e, ast.Name) for e in loop.target.elts)
            and loop.target.elts[0].id == iname and isinstance(loop.iter, ast.Call)
            and isinstance(loop.iter.func, ast.Name) and loop.iter.func.id == "enumerate"
            and "enumerate" not in tr0.locals and tr0.unbound_at_module_level("enumerate")
            and len(loop.iter.args) == 1 and not loop.iter.keywords
            and isinstance(loop.iter.args[0], ast.Name) and loop.iter.args[0].id == xname):
        raise Unsupported("the indentation decision is not inside `for %s, <s> in enumerate(%s):`" % (iname, xname))
    sname = loop.target.elts[1].id
    key = ast.unparse(plus.target)
    # X and i occur in the body only as the updated element X[i]; s and i are not re-bound
    for st in loop.body:
        for node in ast.walk(st):
            if isinstance(node, ast.Name) and node.id in (xname, iname):
                sub = par.get(node)
                if not (isinstance(sub, ast.Subscript) and ast.unparse(sub) == key
                        and isinstance(par.get(sub), ast.AugAssign) and par[sub].target is sub):
                    raise Unsupported("`%s` is used in the loop body other than as the updated element `%s`"
                                      % (node.id, key))
            if isinstance(node, ast.Name) and node.id == sname and not isinstance(node.ctx, ast.Load):
                raise Unsupported("the loop variable `%s` is re-bound in the loop body" % sname)
    # roles of the free names: the pole array (subscripted with argmin), the direction, the radius
    arrs = {n.value.id for st in loop.body for n in ast.walk(st)
            if isinstance(n, ast.Subscript) and isinstance(n.ctx, ast.Load) and isinstance(n.value, ast.Name)}
    if len(arrs) != 1:
        raise Unsupported("arrays subscripted in the loop body: %s, expected exactly one (the poles)" % sorted(arrs))
    aname = arrs.pop()
    bound = Tr.assigned(loop.body)
    free = []
    for st in loop.body:
        for nm in _free_locals(tr0, st, stop_angle=False):
            if nm not in bound and nm not in (xname, iname, sname, aname, dname) and nm not in free:
                free.append(nm)
    if len(free) != 1:
        raise Unsupported("free names of the loop body besides contour, poles and direction: %s, expected "
                          "exactly one (the radius)" % free)
    rname = free[0]
    for nm in (aname, dname, rname):
        if nm in bound:
            raise Unsupported("`%s` is re-bound inside the loop" % nm)
    guard = par.get(loop)
    if not (isinstance(guard, ast.If) and not guard.orelse and len(guard.body) == 1 and guard.body[0] is loop):
        raise Unsupported("the indentation loop is not the only statement of an `if` without `else`")
    env = {aname: (CARR, False, "poles"), dname: (STR, False, "dir"), rname: (K, False, "r")}
    tr = Tr(module, fn, has_pi=False, has_sqrt=True, elem_key=key)
    b = []
    g = tr.prop(tr.expr(guard.test, env, b))
    if b:
        raise Unsupported("the guard of the indentation loop can fail")
    env[sname] = (CPX, False, "s")
    env[key] = (CPX, False, "cur", "elem")
    out = []

    def result(e, items, v):
        if v is not None:
            raise Unsupported("the loop body raises unconditionally / returns")
        out.append(e)
    items = tr.block(loop.body, env, result)
    text = ast.get_source_segment(src, guard)
    sha = _sha(text)
    body = _do(["let cur : %s := s" % CPX] + items + ["pure cur"])
    lean = ("/-- the indentation loop of `control/freqplot.py:nyquist_response` (the `for %s, %s in enumerate(%s):`\n"
            "around the indentation decision, with its guard `if %s:`; sha256 of the text of that `if`\n%s).\n"
            "`contour` is `%s` before the loop, the result is `%s` after it; `s` is `%s`, `cur` the element\n"
            "`%s`; `poles` is `%s`, `r` is `%s`, `dir` is `%s`, `sqrt` is `np.sqrt`. -/\n"
            "def nyquistIndentContour %s (sqrt : K → K) (r : K) (dir : String)\n"
            "    (poles contour : List (K × K)) : Except Err (List (K × K)) :=\n"
            "  if %s then\n    List.mapM (fun (s : K × K) =>\n%s) contour\n  else pure contour\n") % (
        iname, sname, xname, ast.unparse(guard.test), sha, xname, xname, sname, key, aname, rname, dname,
        BINDERS, g.code, _ind("(" + body + " : Except Err (K × K))", 6))
    return lean, {"sha": sha, "at": [guard.lineno], "temporaries": tr.ntmp}


def failed_indent(msg):
    return ("/-- translation FAILED: %s -/\ndef nyquistIndentSign %s (p : K × K) (dir : String) :\n"
            "    Except Err Int :=\n  .error Err.notImplemented\n\n"
            "/-- translation FAILED: %s -/\ndef nyquistIndentContour %s (sqrt : K → K) (r : K) (dir : String)\n"
            "    (poles contour : List (K × K)) : Except Err (List (K × K)) :=\n  .error Err.notImplemented\n"
            ) % (msg, BINDERS, msg, BINDERS)


# -- P / Z and the consistency warning --------------------------------------------------------------
def translate_pz(repo):
    src, module, fn, par = _nyquist_fn(repo)
    tr0 = Tr(module, fn, has_pi=False)
    found = []
    for n in ast.walk(fn):
        if isinstance(n, ast.If) and isinstance(n.test, ast.Call) and isinstance(n.test.func, ast.Attribute) \
                and n.test.func.attr == "isctime" and isinstance(n.test.func.value, ast.Name) \
                and not n.test.args and not n.test.keywords \
                and len(Tr.assigned(n.body) | Tr.assigned(n.orelse)) == 2:
            found.append(n)
    if len(found) != 1:
        raise Unsupported("%d statements `if <sys>.isctime():` that bind exactly two names, expected exactly one"
                          % len(found))
    top = found[0]
    x = top.test.func.value.id
    two = sorted(Tr.assigned(top.body) | Tr.assigned(top.orelse))
    fb = {}
    for n in ast.walk(top):
        if isinstance(n, ast.Assign) and len(n.targets) == 1 and isinstance(n.targets[0], ast.Name):
            has = any(isinstance(c, ast.Attribute) and c.attr == "feedback" for c in ast.walk(n.value))
            fb.setdefault(n.targets[0].id, set()).add(has)
    zs = [n for n in two if fb.get(n) == {True}]
    ps = [n for n in two if fb.get(n) == {False}]
    if len(zs) != 1 or len(ps) != 1:
        raise Unsupported("cannot tell P from Z among %s (Z: every right-hand side calls .feedback())" % two)
    zname, pname = zs[0], ps[0]
    for nm in (zname, pname):
        if any(par.get(st) is None or not any(a is top for a in _ancestors(par, st)) for st in stores(fn, nm)):
            raise Unsupported("`%s` is also bound outside the `if %s.isctime()` statement" % (nm, x))
        tr0.check_name(nm)
    tests = [n.test for n in ast.walk(top) if isinstance(n, ast.If) and n is not top]
    dname = _direction_name(tr0, fn, tests)
    opaque = {"%s.isctime()" % x: ("ctime", BOOL), "%s.poles()" % x: ("poles", CARR),
              "%s.feedback().poles()" % x: ("clpoles", CARR)}
    tr = Tr(module, fn, opaque=opaque, has_pi=False)

    def result(env, items, v):
        if v is not None:
            raise Unsupported("the P / Z statement raises")
        for nm in (pname, zname):
            if env.get(nm, (None,))[0] != INT:
                raise Unsupported("`%s` is not an integer after the statement" % nm)
        items.append("pure (%s, %s)" % (lean_name(pname), lean_name(zname)))
    items = tr.block([top], {dname: (STR, False, "dir")}, result)
    # the consistency test
    cands = []
    for n in ast.walk(fn):
        if isinstance(n, ast.If):
            names = {m.id for m in ast.walk(n.test) if isinstance(m, ast.Name)}
            if {pname, zname, "count"} <= names:
                cands.append((n, names))
    if len(cands) != 1:
        raise Unsupported("%d `if` statements whose test reads %s, %s and count, expected exactly one"
                          % (len(cands), pname, zname))
    wif, names = cands[0]
    rest = sorted(n for n in names - {pname, zname, "count"} if n in tr.locals)
    if len(rest) != 1 or names - {pname, zname, "count"} - set(rest):
        raise Unsupported("the consistency test reads %s besides P, Z, count; expected exactly one flag"
                          % sorted(names - {pname, zname, "count"}))
    if len(stores(fn, rest[0])) != 1:
        raise Unsupported("the flag `%s` is stored %d times" % (rest[0], len(stores(fn, rest[0]))))
    single_assign(fn, par, "count")
    if not (wif.lineno > top.end_lineno):
        raise Unsupported("the consistency test precedes the computation of P and Z")
    tr2 = Tr(module, fn, has_pi=False)
    b = []
    w = tr2.prop(tr2.expr(wif.test, {pname: (INT, False, "P"), zname: (INT, False, "Z"),
                                     "count": (INT, False, "count"), rest[0]: (BOOL, False, "warn")}, b))
    if b:
        raise Unsupported("the consistency test can fail")
    text = ast.get_source_segment(src, top) + "\n" + ast.get_source_segment(src, wif.test)
    sha = _sha(text)
    lean = ("/-- the statement of `control/freqplot.py:nyquist_response` that counts `%s` and `%s` (the unique\n"
            "`if %s.isctime():` binding exactly two names; sha256 of its text and of the test below\n%s).\n"
            "`ctime` is `%s.isctime()`, `poles` is `%s.poles()`, `clpoles` is `%s.feedback().poles()`, `dir` is `%s`;\n"
            "the result is the pair (%s, %s). -/\n"
            "def nyquistPZ %s (ctime : Bool) (dir : String)\n    (poles clpoles : List (K × K)) : Except Err (Int × Int) :=\n%s\n\n"
            "/-- the test of the unique `if` that reads `%s`, `%s` and `count` (the consistency warning):\n"
            "`%s`, with `warn` for `%s`. -/\n"
            "def nyquistCriterionWarn (Z count P : Int) (warn : Bool) : Bool :=\n  decide %s\n") % (
        pname, zname, x, sha, x, x, x, dname, pname, zname, BINDERS, _ind(_do(items), 2),
        pname, zname, ast.unparse(wif.test), rest[0], w.code)
    return lean, {"sha": sha, "lines": top.end_lineno - top.lineno + 1, "at": [top.lineno, wif.lineno],
                  "temporaries": tr.ntmp}


def _ancestors(par, node):
    while node in par:
        node = par[node]
        yield node


def failed_pz(msg):
    return ("/-- translation FAILED: %s -/\ndef nyquistPZ %s (ctime : Bool) (dir : String)\n"
            "    (poles clpoles : List (K × K)) : Except Err (Int × Int) :=\n  .error Err.notImplemented\n\n"
            "/-- translation FAILED: %s -/\n"
            "def nyquistCriterionWarn (Z count P : Int) (warn : Bool) : Bool :=\n  decide (Z = count + P + 1 ∧ warn = false)\n"
            ) % (msg, BINDERS, msg)


JOBS = [
    # key, output file, imports, translate, failed, description
    ("unwrap", "NyqUnwrap.lean", ["CtrlVerif.Model.PyNyq"], translate_unwrap, failed_unwrap,
     "control/ctrlutil.py:unwrap"),
    ("count", "NyqCount.lean", ["CtrlVerif.Model.PyNyq", "CtrlVerif.Generated.NyqUnwrap"], translate_count,
     failed_count, "control/freqplot.py:nyquist_response (count)"),
    ("indent", "NyqIndent.lean", ["CtrlVerif.Model.PyNyq"], translate_indent, failed_indent,
     "control/freqplot.py:nyquist_response (indentation)"),
    ("pz", "NyqPZ.lean", ["CtrlVerif.Model.PyNyq"], translate_pz, failed_pz,
     "control/freqplot.py:nyquist_response (P, Z, consistency test)"),
]


def regenerate(repo, lean_dir, keys=None):
    """Rewrite Generated/Nyq*.lean; returns (list of problems, info dict).  Deterministic (no
    timestamps), rewritten only when changed."""
    problems, info = [], {}
    os.makedirs(os.path.join(lean_dir, "CtrlVerif", "Generated"), exist_ok=True)
    for key, out, imports, translate, failed, where in JOBS:
        if keys is not None and key not in keys:
            continue
        try:
            lean, inf = translate(repo)
            info[key] = inf
            head = "-- GENERATED on every run by harness/core/py2lean_nyq.py from %s (sha256 %s).  Do not edit.\n" % (
                where, inf["sha"])
        except (Unsupported, SyntaxError, OSError) as e:
            msg = str(e).replace("\n", " ").replace("-/", "- /").replace("/-", "/ -")[:200]
            problems.append("py2lean_nyq: %s cannot be translated: %s" % (where, msg))
            head = "-- GENERATED by harness/core/py2lean_nyq.py: translation of %s FAILED.  Do not edit.\n" % where
            lean = failed(msg)
        text = (head + "".join("import %s\n" % m for m in imports)
                + "\nnamespace CtrlVerif.Generated\n\nopen CtrlVerif\n\n" + lean + "\nend CtrlVerif.Generated\n")
        path = os.path.join(lean_dir, "CtrlVerif", "Generated", out)
        old = open(path).read() if os.path.exists(path) else None
        if old != text:
            with open(path, "w") as f:
                f.write(text)
    return problems, info


if __name__ == "__main__":
    import sys
    for key, out, imports, translate, failed, where in JOBS:
        if len(sys.argv) > 2 and key not in sys.argv[2:]:
            continue
        try:
            lean, inf = translate(sys.argv[1])
            print(lean)
            print("--", inf)
        except Unsupported as e:
            print("-- %s FAILED: %s" % (key, e))
