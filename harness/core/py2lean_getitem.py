"""Translator Python `ast` -> Lean 4 for the INDEXING METHODS of the three LTI classes (property C17,
tag py2lean-getitem; DESIGN 10.3, notes/NOTES-py2lean-getitem.md):

    StateSpace.__getitem__            control/statesp.py   -> Generated/GetitemSS.lean   (ssGetitem)
    TransferFunction.__getitem__      control/xferfcn.py   -> Generated/GetitemTF.lean   (tfGetitem)
    FrequencyResponseData.__getitem__ control/frdata.py    -> Generated/GetitemFRD.lean  (frdGetitem)

The files are rewritten from the source text of the tree under check on every run of the C17 check
(`Family.pre_build`; deterministic, sha256 of the function text in the header, rewritten only when
changed); `Props/C17GenItem*.lean` prove the hand-written model (`Index.getitem` with `ssCtor / tfCtor /
frdCtor`, Model/Index.lean) EQUAL to the generated functions.  A semantic edit of a method breaks a proof
obligation, an edit that leaves the supported subset makes the translation fail (the emitted definition is
then `throw Err.notImplemented`, which cannot equal the model).

This module reuses the statement / expression translator `Tr` of `py2lean_select.py` (dynamically typed
Python values `PyVal`, ints, bools, strings, `if`, `raise`, `return`, short-circuit `or`) and adds a domain
for what the three methods need.  The meaning of every primitive it emits is fixed in
`lean/CtrlVerif/Model/PyGet.lean` (+ `Model/PyVal.lean`, `PyMat.lean`, `PyTF.lean`): hand-written, trusted.

Static types added (tag -> Lean type)
  SS / TF / FRD  the receiver `self` (`PyGet.SSObj K`, `PyGet.TFObj K`, `PyGet.FRDObj K β`)
  Mat            2-D float array (`PMat K`);  Arr3  3-D array (`PyGet.Arr3 β`);  ListK  1-D array (`List K`)
  PolyArr        2-D object array of coefficient arrays (`PyTF.PolyArr K`);  Poly  coefficient array (`List K`)
  NS             a NamedSignal object (`PyGet.NamedSignal`);  Dt  a timebase
  Shape          an array known only through its shape (argument of `NamedSignal(...)`), a `PyVal` tuple
  Shape2         a pair of ints written `(a, b)` or `x.shape` (argument of `_create_poly_array`)
  FRDItem        result of `FrequencyResponseData.__getitem__` (`PyGet.FRDItem K β`)

Constructs added (anything else raises `Unsupported`)
  isinstance(x, Iterable)                       -> PyGet.isIterable            (Iterable from collections.abc)
  raise IOError(...)                            -> Err.badArg
  NamedSignal(arr, labels1, labels2)            -> PyGet.namedSignal <shape of arr> ...   (from .iosys)
      arr: a Mat attribute (`self.D`), `np.empty((a, b))`, `self.frdata[:, :, 0]`
  ns._parse_key(key[, labels][, level])         -> Generated.parseKey fuel ns.signal_labels ns.trace_labels ns.data_shape ...
      (the function regenerated from control/iosys.py by py2lean_select; `fuel` is the recursion budget)
  a, b = _process_subsys_index(idx, labels[, slice_to_list=...]) -> Generated.processSubsysIndex (from .iosys)
  config.defaults['<literal key>']              -> PyGet.Defaults.getStr defaults "<key>"   (`from . import config`)
  self.A/.B/.C/.D, self.dt, self.name, self.input_labels, self.output_labels, self.ninputs, self.noutputs,
  self.num_array, self.den_array, self.frdata, self.omega
  X[:, idx] / X[idx, :] on a Mat / Arr3         -> PyGet.takeCols / takeRows (takeCols3 / takeRows3)
  X[:, :, 0] on an Arr3                         -> PyGet.slice0Shape (only as the array of NamedSignal)
  _create_poly_array(<Shape2>)                  -> PyTF.createPolyArray a b none      (module-level function)
  a.shape on a PolyArr
  for r, i in enumerate(x): body                -> List.foldlM over PyGet.enumerate x with the tuple of the
      variables the body re-assigns as state (no break / continue / return inside)
  `v += c` as the LAST statement of a loop body on a loop variable that is read nowhere outside that
      loop's body: a dead store (the next round re-binds it) - dropped, noted
  num[r, c] = P on a PolyArr local              -> PyTF.PolyArr.setItem
  self.num_array[i, j]                          -> PyTF.PolyArr.getItem (indices through PyGet.asIndex)
  StateSpace(A, B, C, D, dt, name=, inputs=, outputs=)           -> PyGet.mkStateSpace
  TransferFunction(num, den, dt, inputs=, outputs=, name=)       -> PyGet.mkTransferFunction
  FrequencyResponseData(data, omega, dt, inputs=, outputs=, name=) -> PyGet.mkFRD
  list(self.__iter__())[key]  (FRD, legacy interface)            -> PyGet.FRDItem.legacy key
Every name above is checked to be bound at module level as expected and not re-bound inside the function.
Evaluation order: effects appear left to right in Python's order (keyword arguments with effects must be
written in the constructor's parameter order).
"""
import ast
import hashlib
import os

from .py2lean import Unsupported
from .py2lean_select import Tr, Domain, E, _paren, _lean_str, find_def, check_signature, terminates, \
    message_only_names, write_if_changed

RESERVED = {"end", "at", "from", "fun", "open", "do", "then", "else", "if", "let", "have", "show", "match",
            "with", "where", "in", "by", "def", "theorem", "namespace", "section", "variable", "import",
            "instance", "structure", "class", "inductive", "mutual", "private", "protected", "return",
            "for", "unless", "try", "catch", "finally", "macro", "syntax", "notation", "universe", "deriving",
            "Type", "Prop", "Sort", "K", "β", "fuel", "defaults", "st", "it", "prefix", "infix", "infixl", "infixr",
            "postfix", "local", "scoped", "set_option", "attribute", "export", "mut", "nomatch", "nofun", "using",
            "from", "extends", "abbrev", "example", "axiom", "opaque", "instance", "noncomputable", "partial",
            "unsafe", "omit", "include", "calc", "suffices", "obtain", "exact", "this", "sorry", "admit"}

FIELDS = {
    "SS": {"A": ("PySS.A %s.sys", "Mat"), "B": ("PySS.B %s.sys", "Mat"), "C": ("PySS.C %s.sys", "Mat"),
           "D": ("PySS.D %s.sys", "Mat"), "dt": ("%s.sys.dt", "Dt"), "name": ("%s.name", "S"),
           "input_labels": ("%s.input_labels", "V"), "output_labels": ("%s.output_labels", "V"),
           "ninputs": ("(%s.sys.m : Int)", "I"), "noutputs": ("(%s.sys.p : Int)", "I"),
           "nstates": ("(%s.sys.n : Int)", "I")},
    "TF": {"num_array": ("PyTF.numArray %s.sys", "PolyArr"), "den_array": ("PyTF.denArray %s.sys", "PolyArr"),
           "dt": ("%s.sys.dt", "Dt"), "name": ("%s.name", "S"),
           "input_labels": ("%s.input_labels", "V"), "output_labels": ("%s.output_labels", "V"),
           "ninputs": ("PyTF.ninputs %s.sys", "I"), "noutputs": ("PyTF.noutputs %s.sys", "I")},
    "FRD": {"frdata": ("%s.frdata", "Arr3"), "omega": ("%s.omega", "ListK"), "dt": ("%s.dt", "Dt"),
            "name": ("%s.name", "S"), "input_labels": ("%s.input_labels", "V"),
            "output_labels": ("%s.output_labels", "V"),
            "ninputs": ("(%s.frdata.c : Int)", "I"), "noutputs": ("(%s.frdata.r : Int)", "I")},
}

LEAN_TYPES = {"SS": "PyGet.SSObj K", "TF": "PyGet.TFObj K", "FRD": "PyGet.FRDObj K β", "Mat": "PMat K",
              "Arr3": "PyGet.Arr3 β", "ListK": "List K", "PolyArr": "PyTF.PolyArr K", "Poly": "List K",
              "NS": "PyGet.NamedSignal", "Dt": "Dt", "Shape": "PyVal", "FRDItem": "PyGet.FRDItem K β"}

# constructor name -> (class tag, Lean primitive, positional parameters, keyword parameters) ; the Lean
# primitive takes the arguments in the order positional ++ LEAN_KW
CTORS = {
    "StateSpace": ("SS", "PyGet.mkStateSpace", [("A", "Mat"), ("B", "Mat"), ("C", "Mat"), ("D", "Mat"), ("dt", "Dt")],
                   [("name", "S"), ("inputs", "V"), ("outputs", "V")]),
    "TransferFunction": ("TF", "PyGet.mkTransferFunction", [("num", "PolyArr"), ("den", "PolyArr"), ("dt", "Dt")],
                         [("inputs", "V"), ("outputs", "V"), ("name", "S")]),
    "FrequencyResponseData": ("FRD", "PyGet.mkFRD", [("data", "Arr3"), ("omega", "ListK"), ("dt", "Dt")],
                              [("inputs", "V"), ("outputs", "V"), ("name", "S")]),
}


def _is_full_slice(n):
    return isinstance(n, ast.Slice) and n.lower is None and n.upper is None and n.step is None


def _loads(node, name):
    return [n for n in ast.walk(node) if isinstance(n, ast.Name) and n.id == name and isinstance(n.ctx, ast.Load)]


class ModuleEnv:
    """how the names the methods use are bound at module level"""

    def __init__(self, tree):
        self.imports = {}       # local name -> (module, original name)
        self.defs = set()       # module-level function / class names
        for node in tree.body:
            if isinstance(node, ast.ImportFrom):
                for a in node.names:
                    self.imports[a.asname or a.name] = ("." * node.level + (node.module or ""), a.name)
            elif isinstance(node, ast.Import):
                for a in node.names:
                    self.imports[a.asname or a.name.split(".")[0]] = (a.name, None)
            elif isinstance(node, (ast.FunctionDef, ast.ClassDef)):
                self.defs.add(node.name)

    def require_import(self, name, module, orig=None):
        if self.imports.get(name) != (module, orig if orig is not None else name) or name in self.defs:
            raise Unsupported("the name %s is not bound by `from %s import %s`" % (name, module, orig or name))

    def require_numpy(self, name):
        if self.imports.get(name) != ("numpy", None) or name in self.defs:
            raise Unsupported("the name %s is not `import numpy as %s`" % (name, name))

    def require_def(self, name):
        if name not in self.defs or name in self.imports:
            raise Unsupported("the name %s is not defined at module level" % name)


class GetDomain(Domain):
    lean_types = LEAN_TYPES

    def __init__(self, env, fn, cls_tag):
        self.env, self.fn, self.cls_tag = env, fn, cls_tag
        # names the function binds itself (they must not shadow the primitives)
        self.bound = {n.id for n in ast.walk(fn) if isinstance(n, ast.Name) and isinstance(n.ctx, ast.Store)}
        self.bound |= {a.arg for a in fn.args.args}

    def prim(self, name):
        if name in self.bound:
            raise Unsupported("the function re-binds the name %s" % name)

    # ---- attributes ----------------------------------------------------------------------------
    def attribute(self, tr, node):
        if isinstance(node.value, ast.Name):
            ty = tr.lookup(node.value.id)
            if ty in FIELDS:
                f = FIELDS[ty].get(node.attr)
                if f is None:
                    raise Unsupported("attribute %s.%s" % (node.value.id, node.attr))
                return E(f[0] % node.value.id, f[1])
            if ty == "PolyArr" and node.attr == "shape":
                e = E("((%s.p : Int), (%s.m : Int))" % (node.value.id, node.value.id), "Shape2")
                e.parts = ("(%s.p : Int)" % node.value.id, "(%s.m : Int)" % node.value.id)
                return e
        return None

    # ---- subscripts ---------------------------------------------------------------------------
    def subscript(self, tr, node):
        sl = node.slice
        # config.defaults['key']
        v = node.value
        if isinstance(v, ast.Attribute) and isinstance(v.value, ast.Name) and v.value.id == "config" \
                and v.attr == "defaults":
            self.prim("config")
            self.env.require_import("config", ".", "config")
            if not (isinstance(sl, ast.Constant) and isinstance(sl.value, str)):
                raise Unsupported("config.defaults[...] with a key that is not a string literal")
            tr.raises.add(("KeyError", "unknownName"))
            return E("(← PyGet.Defaults.getStr defaults %s)" % _lean_str(sl.value), "S", True)
        # list(self.__iter__())[key]
        if isinstance(v, ast.Call) and isinstance(v.func, ast.Name) and v.func.id == "list" and len(v.args) == 1 \
                and not v.keywords and ast.unparse(v.args[0]) == "self.__iter__()" and self.cls_tag == "FRD":
            self.prim("list")
            key = tr.to(tr.expr(sl), "V")
            tr.notes.append("`list(self.__iter__())[key]` (legacy tuple interface) is kept symbolic: FRDItem.legacy")
            return E("PyGet.FRDItem.legacy %s" % _paren(key.code), "FRDItem", key.mon)
        if isinstance(sl, ast.Tuple):
            base = tr.expr(v)
            if base.ty in ("Mat", "Arr3") and len(sl.elts) == 2:
                a, b = sl.elts
                suffix = "3" if base.ty == "Arr3" else ""
                if _is_full_slice(a) and not isinstance(b, ast.Slice):
                    idx = tr.to(tr.expr(b), "V")
                    tr.raises |= {("IndexError", "indexRange"), ("ValueError", "badArg")}
                    return E("(← PyGet.takeCols%s %s %s)" % (suffix, _paren(base.code), _paren(idx.code)),
                             base.ty, True)
                if _is_full_slice(b) and not isinstance(a, ast.Slice):
                    idx = tr.to(tr.expr(a), "V")
                    tr.raises |= {("IndexError", "indexRange"), ("ValueError", "badArg")}
                    return E("(← PyGet.takeRows%s %s %s)" % (suffix, _paren(base.code), _paren(idx.code)),
                             base.ty, True)
                raise Unsupported("array subscript %s (only X[:, idx] and X[idx, :])" % ast.unparse(node)[:60])
            if base.ty == "Arr3" and len(sl.elts) == 3 and _is_full_slice(sl.elts[0]) and _is_full_slice(sl.elts[1]) \
                    and isinstance(sl.elts[2], ast.Constant) and sl.elts[2].value == 0 \
                    and type(sl.elts[2].value) is int:
                tr.raises.add(("IndexError", "indexRange"))
                return E("(← PyGet.slice0Shape %s)" % _paren(base.code), "Shape", True)
            if base.ty == "PolyArr" and len(sl.elts) == 2:
                i, j = [self.index(tr, x) for x in sl.elts]
                tr.raises |= {("IndexError", "indexRange"), ("TypeError", "badArg")}
                return E("(← PyTF.PolyArr.getItem %s %s %s)" % (_paren(base.code), _paren(i.code), _paren(j.code)),
                         "Poly", True)
            raise Unsupported("subscript %s" % ast.unparse(node)[:60])
        return None

    def index(self, tr, node):
        """an integer subscript of a NumPy array"""
        e = tr.expr(node)
        if e.ty == "I":
            return e
        if e.ty == "V":
            tr.raises.add(("IndexError", "indexRange"))
            return E("(← PyGet.asIndex %s)" % _paren(e.code), "I", True)
        raise Unsupported("array index of type %s" % e.ty)

    # ---- calls -----------------------------------------------------------------------------------
    def shape2(self, tr, node):
        """`(a, b)` with int components, or a `.shape` attribute"""
        if isinstance(node, ast.Tuple) and len(node.elts) == 2:
            a, b = [tr.to(tr.expr(x), "I") for x in node.elts]
            e = E("(%s, %s)" % (a.code, b.code), "Shape2", a.mon or b.mon)
            e.parts = (a.code, b.code)
            return e
        e = tr.expr(node)
        if e.ty != "Shape2":
            raise Unsupported("shape %s" % ast.unparse(node)[:60])
        return e

    def call_args(self, node, pos, kw, what):
        """match the arguments of a call against positional + keyword parameter names; returns name -> ast"""
        names = [n for n, _ in pos] + [n for n, _ in kw]
        given = {}
        if len(node.args) > len(names):
            raise Unsupported("too many arguments in %s" % what)
        for n, a in zip(names, node.args):
            if isinstance(a, ast.Starred):
                raise Unsupported("starred argument in %s" % what)
            given[n] = a
        order = [n for n, _ in zip(names, node.args)]
        for k in node.keywords:
            if k.arg is None or k.arg in given or k.arg not in names:
                raise Unsupported("keyword argument %s in %s" % (k.arg, what))
            given[k.arg] = k.value
            order.append(k.arg)
        return given, order

    def call(self, tr, node):
        f = node.func
        if isinstance(f, ast.Name):
            if f.id == "isinstance" and len(node.args) == 2 and isinstance(node.args[1], ast.Name) \
                    and node.args[1].id == "Iterable":
                self.prim("Iterable")
                self.prim("isinstance")
                self.env.require_import("Iterable", "collections.abc")
                x = tr.to(tr.expr(node.args[0]), "V")
                tr.raises.add(("<unknown>", "notImplemented"))
                return E("(← PyGet.isIterable %s)" % _paren(x.code), "B", True)
            if f.id == "NamedSignal":
                self.prim("NamedSignal")
                self.env.require_import("NamedSignal", ".iosys")
                given, _ = self.call_args(node, [("input_array", None)],
                                          [("signal_labels", None), ("trace_labels", None)], "NamedSignal(...)")
                if "input_array" not in given:
                    raise Unsupported("NamedSignal without an array")
                arr = tr.expr(given["input_array"])
                if arr.ty == "Mat":
                    shp = E("PyGet.shape2 %s" % _paren(arr.code), "Shape", arr.mon)
                elif arr.ty == "Shape":
                    shp = arr
                else:
                    raise Unsupported("NamedSignal of a %s" % arr.ty)
                labs = [tr.to(tr.expr(given[n]), "V") if n in given else E("PyVal.none", "V")
                        for n in ("signal_labels", "trace_labels")]
                return E("PyGet.namedSignal %s %s %s" % (_paren(shp.code), _paren(labs[0].code), _paren(labs[1].code)),
                         "NS", shp.mon or labs[0].mon or labs[1].mon)
            if f.id == "_create_poly_array":
                self.prim("_create_poly_array")
                self.env.require_def("_create_poly_array")
                if len(node.args) != 1 or node.keywords:
                    raise Unsupported("_create_poly_array with a default entry")
                shp = self.shape2(tr, node.args[0])
                tr.raises.add(("ValueError", "badArg"))
                return E("(← PyTF.createPolyArray (K := K) %s %s none)" % (_paren(shp.parts[0]), _paren(shp.parts[1])),
                         "PolyArr", True)
            if f.id in CTORS and CTORS[f.id][0] == self.cls_tag:
                self.prim(f.id)
                self.env.require_def(f.id)
                tag, lean, pos, kw = CTORS[f.id]
                given, order = self.call_args(node, pos, kw, "%s(...)" % f.id)
                missing = [n for n, _ in pos + kw if n not in given]
                if missing or len(node.args) != len(pos):
                    raise Unsupported("%s(...): expected %d positional arguments and the keywords %s"
                                      % (f.id, len(pos), ", ".join(n for n, _ in kw)))
                vals = {n: tr.to(tr.expr(given[n]), t) for n, t in pos + kw}
                canon = [n for n, _ in pos + kw]
                effect_order = [n for n in order if vals[n].mon]
                if effect_order != [n for n in canon if vals[n].mon]:
                    raise Unsupported("%s(...): arguments with effects are not in parameter order" % f.id)
                tr.raises |= {("ControlDimension", "shape"), ("IndexError", "indexRange"), ("ValueError", "shape"),
                              ("TypeError", "badArg")}
                return E("(← %s %s)" % (lean, " ".join(_paren(vals[n].code) for n in canon)), tag, True)
        if isinstance(f, ast.Attribute) and isinstance(f.value, ast.Name) and f.value.id == "np" and f.attr == "empty":
            self.prim("np")
            self.env.require_numpy("np")
            if len(node.args) != 1 or node.keywords:
                raise Unsupported("np.empty with a dtype")
            shp = self.shape2(tr, node.args[0])
            tr.raises.add(("ValueError", "badArg"))
            return E("(← PyGet.npEmptyShape %s %s)" % (_paren(shp.parts[0]), _paren(shp.parts[1])), "Shape", True)
        if isinstance(f, ast.Attribute) and f.attr == "_parse_key" and isinstance(f.value, ast.Name) \
                and tr.lookup(f.value.id) == "NS":
            ns = f.value.id
            given, _ = self.call_args(node, [("key", "V")], [("labels", "V"), ("level", "I")], "_parse_key(...)")
            if "key" not in given:
                raise Unsupported("_parse_key without a key")
            key = tr.to(tr.expr(given["key"]), "V")
            labels = tr.to(tr.expr(given["labels"]), "V") if "labels" in given else E("PyVal.none", "V")
            level = tr.to(tr.expr(given["level"]), "I") if "level" in given else E("(0 : Int)", "I")
            tr.raises |= {("ValueError", "unknownName"), ("ControlIndexError", "indexRange"), ("TypeError", "badArg"),
                          ("<unknown>", "notImplemented")}
            return E("(← Generated.parseKey fuel %s.signal_labels %s.trace_labels %s.data_shape %s %s %s)"
                     % (ns, ns, ns, _paren(key.code), _paren(labels.code), _paren(level.code)), "V", True)
        return None

    # ---- statements ------------------------------------------------------------------------------
    def assign_target(self, tr, target, value, indent):
        pad = "  " * indent
        # a, b = _process_subsys_index(...)
        if isinstance(target, ast.Tuple) and len(target.elts) == 2 and all(isinstance(x, ast.Name) for x in target.elts) \
                and isinstance(value, ast.Call) and isinstance(value.func, ast.Name) \
                and value.func.id == "_process_subsys_index":
            self.prim("_process_subsys_index")
            self.env.require_import("_process_subsys_index", ".iosys")
            given, _ = self.call_args(value, [("idx", "V"), ("sys_labels", "V")], [("slice_to_list", "B")],
                                      "_process_subsys_index(...)")
            if "idx" not in given or "sys_labels" not in given:
                raise Unsupported("_process_subsys_index needs idx and sys_labels")
            idx = tr.to(tr.expr(given["idx"]), "V")
            labs = tr.to(tr.expr(given["sys_labels"]), "V")
            stl = tr.to(tr.expr(given["slice_to_list"]), "B") if "slice_to_list" in given else E("false", "B")
            tr.raises |= {("TypeError", "badArg"), ("IndexError", "indexRange"), ("ValueError", "badArg")}
            a, b = [x.id for x in target.elts]
            if a == b:
                raise Unsupported("the same name twice in a tuple target")
            fresh = [n for n in (a, b) if tr.lookup(n) is None]
            call = "Generated.processSubsysIndex %s %s %s" % (_paren(idx.code), _paren(labs.code), _paren(stl.code))
            if len(fresh) == 2:
                tr.scopes[-1][a] = "V"
                tr.scopes[-1][b] = "V"
                return pad + "let mut (%s, %s) ← %s" % (a, b, call)
            if not fresh and tr.lookup(a) == "V" and tr.lookup(b) == "V":
                return pad + "(%s, %s) ← %s" % (a, b, call)
            raise Unsupported("tuple target %s mixes new and existing names" % ast.unparse(target))
        # num[r, c] = poly
        if isinstance(target, ast.Subscript) and isinstance(target.value, ast.Name) \
                and tr.lookup(target.value.id) == "PolyArr" and isinstance(target.slice, ast.Tuple) \
                and len(target.slice.elts) == 2:
            name = target.value.id
            v = tr.expr(value)
            if v.ty != "Poly":
                raise Unsupported("array entry assigned a %s" % v.ty)
            i, j = [self.index(tr, x) for x in target.slice.elts]
            tr.raises.add(("IndexError", "indexRange"))
            return pad + "%s := (← PyTF.PolyArr.setItem %s %s %s %s)" % (
                name, name, _paren(i.code), _paren(j.code), _paren(v.code))
        return None

    def coerce(self, tr, e, ty):
        if ty == "FRDItem" and e.ty == "FRD":
            return E("PyGet.FRDItem.sys %s" % _paren(e.code), "FRDItem", e.mon)
        return None

    def for_loop(self, tr, s, indent):
        """for a, b in enumerate(x): body"""
        it = s.iter
        if not (isinstance(it, ast.Call) and isinstance(it.func, ast.Name) and it.func.id == "enumerate"):
            return None
        self.prim("enumerate")
        pad = "  " * indent
        if s.orelse or len(it.args) != 1 or it.keywords or not (
                isinstance(s.target, ast.Tuple) and len(s.target.elts) == 2
                and all(isinstance(x, ast.Name) for x in s.target.elts)):
            raise Unsupported("for loop %s" % ast.unparse(s).split("\n")[0][:70])
        cnt, elt = [x.id for x in s.target.elts]
        if cnt == elt or tr.lookup(cnt) is not None or tr.lookup(elt) is not None:
            raise Unsupported("loop variables %s, %s are already in use" % (cnt, elt))
        for n in ast.walk(s):
            if isinstance(n, (ast.Break, ast.Continue, ast.Return)):
                raise Unsupported("break / continue / return inside a loop")
        body = list(s.body)
        # dead stores to a loop variable at the end of the body
        while body and isinstance(body[-1], ast.AugAssign) and isinstance(body[-1].target, ast.Name) \
                and body[-1].target.id in (cnt, elt):
            v = body[-1].target.id
            inside = sum(len(_loads(b, v)) for b in s.body)
            if len(_loads(self.fn, v)) != inside or _loads(body[-1].value, v):
                raise Unsupported("the loop variable %s is re-assigned and read afterwards" % v)
            tr.notes.append("`%s` at the end of the loop body is a dead store (the loop re-binds %s): dropped"
                            % (ast.unparse(body[-1]), v))
            body.pop()
        src = tr.to(tr.expr(it.args[0]), "V")
        tr.raises.add(("TypeError", "badArg"))
        # state: variables of the enclosing scopes the body assigns
        assigned = []
        for b in body:
            for n in ast.walk(b):
                if isinstance(n, ast.Assign):
                    for t in n.targets:
                        if isinstance(t, ast.Subscript):        # x[...] = e re-assigns x (value semantics)
                            if not isinstance(t.value, ast.Name):
                                raise Unsupported("assignment target %s" % ast.unparse(t)[:60])
                            stores = [t.value.id]
                        else:
                            stores = [x.id for x in ast.walk(t)
                                      if isinstance(x, ast.Name) and isinstance(x.ctx, ast.Store)]
                        for tgt in stores:
                            if tr.lookup(tgt) is not None and tgt not in assigned:
                                assigned.append(tgt)
                elif isinstance(n, ast.AugAssign) and isinstance(n.target, ast.Name):
                    if tr.lookup(n.target.id) is not None and n.target.id not in assigned:
                        assigned.append(n.target.id)
        if not assigned:
            raise Unsupported("a loop that assigns nothing")
        # deterministic state order: the order in which the variables were first bound
        order = [n for sc in tr.scopes for n in sc]
        assigned.sort(key=order.index)
        tys = [tr.lookup(n) for n in assigned]
        st_ty = " × ".join(tr.lean_ty(t) for t in tys)
        tr.scopes.append({cnt: "I", elt: "V"})
        try:
            inner = tr.block(body, indent + 2)
        finally:
            tr.scopes.pop()
        tup = assigned[0] if len(assigned) == 1 else "(" + ", ".join(assigned) + ")"
        pad2 = "  " * (indent + 2)
        unpack = "".join(pad2 + "let mut %s := st%s\n" % (n, _proj(k, len(assigned))) for k, n in enumerate(assigned))
        lines = [pad + "%s ← List.foldlM (fun (st : %s) (it : Int × PyVal) => do" % (tup, st_ty),
                 pad2 + "let %s := it.1" % cnt, pad2 + "let %s := it.2" % elt, unpack.rstrip("\n"), inner,
                 pad2 + "pure %s) %s (← PyGet.enumerate %s)" % (tup, tup, _paren(src.code))]
        return "\n".join(x for x in lines if x)


def _proj(k, n):
    """projection k of a right-nested n-tuple"""
    if n == 1:
        return ""
    return ".2" * k + (".1" if k < n - 1 else "")


class Job:
    def __init__(self, rel, qual, lean, out, cls_tag, ret, binders, doc):
        self.rel, self.qual, self.lean, self.out, self.cls_tag, self.ret = rel, qual, lean, out, cls_tag, ret
        self.binders, self.doc = binders, doc

    def lean_ret(self):
        return LEAN_TYPES[self.ret]

    def signature(self, unused=False):
        u = "_" if unused else ""
        return ("def %s %s (%sfuel : Nat) (%sdefaults : PyGet.Defaults) (%sself : %s) (%skey : PyVal) : "
                "Except Err (%s)" % (self.lean, self.binders, u, u, u, LEAN_TYPES[self.cls_tag], u, self.lean_ret()))

    def translate(self, repo):
        src = open(os.path.join(repo, self.rel)).read()
        tree = ast.parse(src)
        fn = find_def(src, self.qual)
        check_signature(fn, ["self", "key"], {})
        if fn.decorator_list:
            raise Unsupported("decorated method")
        # local names that are Lean keywords / names of the generated binders get a trailing underscore
        used = {n.id for n in ast.walk(fn) if isinstance(n, ast.Name)}
        for n in ast.walk(fn):
            if isinstance(n, ast.Name) and n.id in RESERVED:
                if n.id + "_" in used:
                    raise Unsupported("the names %s and %s_ are both in use" % (n.id, n.id))
                n.id = n.id + "_"
            if isinstance(n, (ast.Lambda, ast.FunctionDef)) and n is not fn:
                raise Unsupported("nested function")
            if isinstance(n, (ast.Global, ast.Nonlocal, ast.Yield, ast.YieldFrom, ast.Await, ast.While, ast.With)):
                raise Unsupported("statement %s" % type(n).__name__)
        env = ModuleEnv(tree)
        env.require_def(self.qual.split(".")[0])
        dom = GetDomain(env, fn, self.cls_tag)
        tr = Tr([("self", self.cls_tag), ("key", "V")], self.ret, dom, None, {"IOError": "badArg"})
        tr.job = self
        tr.msg_only = message_only_names(fn)
        body = list(fn.body)
        code = tr.block(body, 1)
        tr.check_tries()
        if not terminates(body):
            raise Unsupported("a path falls off the end of the function (returns None implicitly)")
        muts = "".join("  let mut %s := %s\n" % (n, n) for n in ("self", "key") if n in tr.mutated)
        sha = hashlib.sha256(ast.get_source_segment(src, fn).encode()).hexdigest()[:16]
        notes = "".join("  note: %s\n" % n for n in sorted(set(tr.notes)))
        text = ("/-- `%s` (%s, sha256 %s) as the source text says it.%s\n%s-/\n%s := do\n%s%s\n" % (
            self.qual, self.rel, sha, (" " + self.doc) if self.doc else "", notes, self.signature(), muts, code))
        return text, {"sha": sha, "lines": fn.end_lineno - fn.lineno + 1}

    def failed(self, why):
        return "/-- translation FAILED: %s -/\n%s := throw Err.notImplemented\n" % (
            why.replace("\n", " ").replace("-/", "- /")[:300], self.signature(unused=True))


DOC = ("`fuel` is the recursion budget handed to the generated `_parse_key`, `defaults` is `config.defaults`.")

JOBS = [
    Job("control/statesp.py", "StateSpace.__getitem__", "ssGetitem", "GetitemSS.lean", "SS", "SS",
        "{K : Type} [Field K]", DOC),
    Job("control/xferfcn.py", "TransferFunction.__getitem__", "tfGetitem", "GetitemTF.lean", "TF", "TF",
        "{K : Type} [Field K] [DecidableEq K]", DOC),
    Job("control/frdata.py", "FrequencyResponseData.__getitem__", "frdGetitem", "GetitemFRD.lean", "FRD", "FRDItem",
        "{K β : Type}", DOC),
]

IMPORTS = ["CtrlVerif.Model.PyGet", "CtrlVerif.Generated.SubsysIndex"]


def regenerate(repo, lean_dir, only=None):
    """Rewrite Generated/Getitem*.lean from the tree `repo`; returns (problems, info)."""
    problems, info = [], {}
    for job in JOBS:
        if only and job.lean not in only:
            continue
        try:
            text, inf = job.translate(repo)
            info[job.qual] = inf
        except (Unsupported, SyntaxError, OSError) as e:
            problems.append("py2lean_getitem: %s:%s cannot be translated: %s" % (job.rel, job.qual, e))
            text = job.failed(str(e))
        head = ("-- GENERATED on every run by harness/core/py2lean_getitem.py from the source text in /repo "
                "(sha256 of the function below).  Do not edit.\n"
                + "".join("import %s\n" % i for i in IMPORTS) + "\nnamespace CtrlVerif.Generated\n\nopen CtrlVerif\n\n")
        write_if_changed(os.path.join(lean_dir, "CtrlVerif", "Generated", job.out),
                         head + text + "\nend CtrlVerif.Generated\n")
    return problems, info



# =====================================================================================================
# Part 2 (property C18): the data properties of the response classes
#   TimeResponseData.time / outputs / states / inputs / _legacy_states / __iter__ / __len__  (control/timeresp.py)
#   FrequencyResponseData.magnitude / phase / frequency / complex / response / __iter__     (control/frdata.py)
# -> Generated/ResponseTime.lean, Generated/ResponseFreq.lean; equality theorems Props/C18GenProps.lean.
# Meaning of the emitted primitives: lean/CtrlVerif/Model/PyResp.lean (+ Model/Shape.lean, Response.lean).
#
# Static types added: TR / FR (the receiver: `PyResp.TRObj α` / `PyResp.FRObj α`), Arr (`NDArr α`), OptArr
# (an array attribute that may be None), Sq (a squeeze value), Labels, NS (`NamedSignal α`), OptNS, Items
# (`List (PyResp.Item α)`), Omega (the stored frequency vector), FItem (`FItem α`), FSig (`PyResp.FSignal α`),
# FItems (`List (FItem α)`).
# Constructs added
#   self.<attribute>                       the stored arrays / flags / counts / settings / label lists
#   self.<property>                        another translated property of the same class (must be decorated
#                                          with @property): the generated function of the same run
#   if self.x is None: <returns>  ...      (top level, first test of an if / elif chain) -> `match self.core.x with
#                                          | none => … | some self_x => …`; afterwards `self.x` is the array
#   v is None  on a squeeze value          -> decide (v = Sq.none)
#   config.defaults['control.squeeze_time_response']  -> cfg.sqTime
#   a.ndim, a[:, 0, :]                     -> NDArr.ndim, NDArr.dropTrace
#   np.transpose(a, np.roll(range(a.ndim), 1))        -> NDArr.timeFirst
#   _process_time_response(sig, issiso=, transpose=, squeeze=)   -> Generated.processTimeResponse … cfg.sqTime
#   _process_frequency_response(self, self.omega, arr, squeeze=) -> Generated.processFrequencyResponse
#                                          (PyResp.FRObj.issiso self) (PyResp.omegaNdim self) arr sq cfg.sqFreq
#       (the signatures and defaults of both helpers are read from the tree and compared)
#   NamedSignal(arr, labels1, labels2)     -> NamedSignal.mk / PyResp.FSignal.mk
#   np.abs(a), np.angle(a)                 -> FItem.mag a, FItem.phase a   (a passed on unchanged: FItem.cplx a)
#   iter((a, b, …))                        -> the list of items
#   warn(...)                              skipped (no value)
#   return None                            -> none
# =====================================================================================================

R_TYPES = {"TR": "PyResp.TRObj α", "FR": "PyResp.FRObj α", "Arr": "NDArr α", "OptArr": "Option (NDArr α)",
           "Sq": "Sq", "Labels": "Option (List String)", "NS": "NamedSignal α", "OptNS": "Option (NamedSignal α)",
           "Items": "List (PyResp.Item α)", "FItem": "FItem α", "FSig": "PyResp.FSignal α",
           "FItems": "List (FItem α)"}

R_FIELDS = {
    "TR": {"t": ("%s.core.t", "Arr"), "y": ("%s.core.y", "Arr"), "x": ("%s.core.x", "OptArr"),
           "u": ("%s.core.u", "OptArr"), "issiso": ("%s.core.issiso", "B"),
           "ninputs": ("(%s.core.ninputs : Int)", "I"), "noutputs": ("(%s.core.noutputs : Int)", "I"),
           "nstates": ("(%s.core.nstates : Int)", "I"), "ntraces": ("(%s.core.ntraces : Int)", "I"),
           "squeeze": ("%s.core.squeeze", "Sq"), "transpose": ("%s.core.transpose", "B"),
           "return_x": ("%s.core.returnX", "B"), "output_labels": ("%s.output_labels", "Labels"),
           "input_labels": ("%s.input_labels", "Labels"), "state_labels": ("%s.state_labels", "Labels")},
    "FR": {"frdata": ("%s.core.frdata", "Arr"), "omega": ("FItem.omega", "Omega"),
           "squeeze": ("%s.core.squeeze", "Sq"), "return_magphase": ("%s.core.returnMagphase", "B"),
           "_return_singvals": ("%s.return_singvals", "B"), "output_labels": ("%s.output_labels", "Labels"),
           "input_labels": ("%s.input_labels", "Labels"),
           "ninputs": ("(%s.ninputs : Int)", "I"), "noutputs": ("(%s.noutputs : Int)", "I")},
}

# property -> (generated name, result type)
R_PROPS = {
    "TR": {"time": ("trdTime", "Arr"), "outputs": ("trdOutputs", "NS"), "states": ("trdStates", "OptNS"),
           "inputs": ("trdInputs", "OptNS"), "_legacy_states": ("trdLegacyStates", "OptArr")},
    "FR": {"magnitude": ("frdMagnitude", "FSig"), "phase": ("frdPhase", "FSig"),
           "frequency": ("frdFrequency", "FItem"), "complex": ("frdComplex", "FSig")},
}


def _is_none(node):
    return isinstance(node, ast.Constant) and node.value is None


class RespDomain(Domain):
    lean_types = R_TYPES
    defaults = {"Arr": "⟨[], []⟩", "Sq": "Sq.none"}

    def __init__(self, env, tree, cls, fn, tag):
        self.env, self.tree, self.cls, self.fn, self.tag = env, tree, cls, fn, tag
        self.bound = {n.id for n in ast.walk(fn) if isinstance(n, ast.Name) and isinstance(n.ctx, ast.Store)}
        self.bound |= {a.arg for a in fn.args.args}
        self.narrow = {}

    def prim(self, name):
        if name in self.bound:
            raise Unsupported("the function re-binds the name %s" % name)

    def is_property(self, name):
        found = [n for n in self.cls.body if isinstance(n, ast.FunctionDef) and n.name == name]
        return len(found) == 1 and any(isinstance(d, ast.Name) and d.id == "property" for d in found[0].decorator_list)

    # ---- attributes --------------------------------------------------------------------------------
    def attribute(self, tr, node):
        v = node.value
        if isinstance(v, ast.Name) and tr.lookup(v.id) == self.tag and v.id == "self":
            if node.attr in self.narrow:
                return E(self.narrow[node.attr], "Arr")
            f = R_FIELDS[self.tag].get(node.attr)
            if f is not None:
                return E(f[0] % "self" if "%s" in f[0] else f[0], f[1])
            pr = R_PROPS[self.tag].get(node.attr)
            if pr is not None:
                if not self.is_property(node.attr):
                    raise Unsupported("self.%s is not a @property of the class" % node.attr)
                tr.raises |= {("ValueError", "badArg"), ("IndexError", "indexRange")}
                return E("(← Generated.%s cfg self)" % pr[0], pr[1], True)
            raise Unsupported("attribute self.%s" % node.attr)
        if node.attr == "ndim":
            a = tr.expr(v)
            if a.ty == "Arr":
                return E("(NDArr.ndim %s : Int)" % _paren(a.code), "I", a.mon)
        return None

    # ---- subscripts --------------------------------------------------------------------------------
    def subscript(self, tr, node):
        sl, v = node.slice, node.value
        if isinstance(v, ast.Attribute) and isinstance(v.value, ast.Name) and v.value.id == "config" \
                and v.attr == "defaults":
            self.prim("config")
            self.env.require_import("config", ".", "config")
            if isinstance(sl, ast.Constant) and sl.value == "control.squeeze_time_response" and self.tag == "TR":
                return E("cfg.sqTime", "Sq")
            raise Unsupported("configuration entry %s" % ast.unparse(sl)[:60])
        if isinstance(sl, ast.Tuple) and len(sl.elts) == 3 and _is_full_slice(sl.elts[0]) \
                and _is_full_slice(sl.elts[2]) and isinstance(sl.elts[1], ast.Constant) \
                and type(sl.elts[1].value) is int and sl.elts[1].value == 0:
            a = tr.expr(v)
            if a.ty == "Arr":
                tr.raises.add(("IndexError", "indexRange"))
                return E("(← NDArr.dropTrace %s)" % _paren(a.code), "Arr", True)
        return None

    # ---- tests ----------------------------------------------------------------------------------------
    def compare(self, tr, op, a, b, node):
        if isinstance(op, (ast.Is, ast.IsNot)) and b is None and a.ty == "Sq":
            return E("decide (%s = Sq.none)" % _paren(a.code), "B", a.mon)
        if isinstance(op, (ast.Is, ast.IsNot)) and b is None and a.ty == "OptArr":
            return E("Option.isNone %s" % _paren(a.code), "B", a.mon)
        return None

    # ---- calls ------------------------------------------------------------------------------------------
    def helper_signature(self, rel_module, name, params, defaults):
        """check the signature of a module-level helper in the tree under check"""
        path = os.path.join(self.repo, rel_module)
        fn = find_def(open(path).read(), name)
        check_signature(fn, params, defaults)

    def call(self, tr, node):
        f = node.func
        if isinstance(f, ast.Name):
            if f.id == "_process_time_response" and self.tag == "TR":
                self.prim(f.id)
                self.env.require_def(f.id)
                self.helper_signature("control/timeresp.py", f.id, ["signal", "issiso", "transpose", "squeeze"],
                                      {"issiso": False, "transpose": None, "squeeze": None})
                given, order = GetDomain.call_args(self, node, [("signal", "Arr")],
                                                   [("issiso", "B"), ("transpose", "B"), ("squeeze", "Sq")],
                                                   "_process_time_response(...)")
                if "signal" not in given:
                    raise Unsupported("_process_time_response without a signal")
                sig = tr.to(tr.expr(given["signal"]), "Arr")
                vals = {}
                for n, t, dflt in (("issiso", "B", "false"), ("transpose", "B", "false"), ("squeeze", "Sq", "Sq.none")):
                    if n not in given or _is_none(given[n]):
                        vals[n] = E(dflt, t)
                    else:
                        vals[n] = tr.to(tr.expr(given[n]), t)
                if sig.mon and any(vals[n].mon for n in vals):
                    raise Unsupported("_process_time_response: several arguments with effects")
                tr.raises |= {("ValueError", "badArg"), ("IndexError", "indexRange")}
                return E("(← Generated.processTimeResponse %s %s %s %s cfg.sqTime)" % (
                    _paren(sig.code), _paren(vals["issiso"].code), _paren(vals["transpose"].code),
                    _paren(vals["squeeze"].code)), "Arr", True)
            if f.id == "_process_frequency_response" and self.tag == "FR":
                self.prim(f.id)
                self.env.require_import(f.id, ".lti")
                self.helper_signature("control/lti.py", f.id, ["sys", "omega", "out", "squeeze"], {"squeeze": None})
                given, order = GetDomain.call_args(self, node, [("sys", None), ("omega", None), ("out", "Arr")],
                                                   [("squeeze", "Sq")], "_process_frequency_response(...)")
                if not all(n in given for n in ("sys", "omega", "out")):
                    raise Unsupported("_process_frequency_response: missing arguments")
                if not (isinstance(given["sys"], ast.Name) and given["sys"].id == "self"):
                    raise Unsupported("_process_frequency_response on a system other than self")
                if tr.expr(given["omega"]).ty != "Omega":
                    raise Unsupported("_process_frequency_response with a frequency vector other than self.omega")
                out = tr.to(tr.expr(given["out"]), "Arr")
                sq = E("Sq.none", "Sq") if "squeeze" not in given or _is_none(given["squeeze"]) \
                    else tr.to(tr.expr(given["squeeze"]), "Sq")
                tr.raises |= {("ValueError", "badArg"), ("IndexError", "indexRange")}
                return E("(← Generated.processFrequencyResponse (PyResp.FRObj.issiso self) (PyResp.omegaNdim self) "
                         "%s %s cfg.sqFreq)" % (_paren(out.code), _paren(sq.code)), "Arr", True)
            if f.id == "NamedSignal":
                self.prim("NamedSignal")
                self.env.require_import("NamedSignal", ".iosys")
                if len(node.args) != 3 or node.keywords:
                    raise Unsupported("NamedSignal(...) with other than three positional arguments")
                arr = tr.expr(node.args[0])
                labs = [tr.to(tr.expr(a), "Labels") for a in node.args[1:]]
                mon = arr.mon or any(l.mon for l in labs)
                if self.tag == "TR" and arr.ty == "Arr":
                    return E("NamedSignal.mk %s %s %s" % (_paren(arr.code), _paren(labs[0].code), _paren(labs[1].code)),
                             "NS", mon)
                if self.tag == "FR" and arr.ty in ("Arr", "FItem"):
                    it = arr if arr.ty == "FItem" else E("FItem.cplx %s" % _paren(arr.code), "FItem", arr.mon)
                    return E("PyResp.FSignal.mk %s %s %s" % (_paren(it.code), _paren(labs[0].code), _paren(labs[1].code)),
                             "FSig", mon)
                raise Unsupported("NamedSignal of a %s" % arr.ty)
            if f.id == "iter" and len(node.args) == 1 and not node.keywords and isinstance(node.args[0], ast.Tuple):
                self.prim("iter")
                items, mon = [], False
                for x in node.args[0].elts:
                    e = tr.expr(x)
                    mon = mon or e.mon
                    if self.tag == "TR":
                        ctor = {"Arr": "PyResp.Item.arr", "NS": "PyResp.Item.sig", "OptArr": "PyResp.Item.opt"}.get(e.ty)
                        if ctor is None:
                            raise Unsupported("tuple element of type %s" % e.ty)
                        items.append("%s %s" % (ctor, _paren(e.code)))
                    else:
                        if e.ty in ("FItem", "Omega"):
                            items.append(e.code)
                        elif e.ty == "Arr":
                            items.append("FItem.cplx %s" % _paren(e.code))
                        else:
                            raise Unsupported("tuple element of type %s" % e.ty)
                return E("[" + ", ".join(items) + "]", "Items" if self.tag == "TR" else "FItems", mon)
        if isinstance(f, ast.Attribute) and isinstance(f.value, ast.Name) and f.value.id == "np":
            self.prim("np")
            self.env.require_numpy("np")
            if f.attr in ("abs", "angle") and len(node.args) == 1 and not node.keywords and self.tag == "FR":
                a = tr.to(tr.expr(node.args[0]), "Arr")
                return E("FItem.%s %s" % ("mag" if f.attr == "abs" else "phase", _paren(a.code)), "FItem", a.mon)
            if f.attr == "transpose" and len(node.args) == 2 and not node.keywords:
                a = tr.expr(node.args[0])
                if a.ty == "Arr" and not a.mon and ast.unparse(node.args[1]) == \
                        "np.roll(range(%s.ndim), 1)" % ast.unparse(node.args[0]):
                    tr.raises.add(("ValueError", "shape"))
                    return E("(← NDArr.timeFirst %s)" % _paren(a.code), "Arr", True)
                raise Unsupported("np.transpose(...) other than the time-first permutation")
        return None

    def coerce(self, tr, e, ty):
        if ty == "OptArr" and e.ty == "Arr":
            return E("some %s" % _paren(e.code), "OptArr", e.mon)
        if ty == "OptNS" and e.ty == "NS":
            return E("some %s" % _paren(e.code), "OptNS", e.mon)
        if ty in ("OptArr", "OptNS") and e.code == "PyVal.none":
            return E("none", ty)
        if ty == "FItem" and e.ty == "Omega":
            return E(e.code, "FItem", e.mon)
        if ty == "Arr" and e.ty == "OptArr":
            raise Unsupported("an attribute that may be None is used as an array (test `is None` first)")
        return None

    def expr_stmt(self, tr, s, indent):
        v = s.value
        if isinstance(v, ast.Call) and isinstance(v.func, ast.Name) and v.func.id == "warn":
            self.prim("warn")
            self.env.require_import("warn", "warnings")
            tr.notes.append("warn(...) skipped (no effect on the result)")
            return ""
        return None


def _none_test_attr(s, tag):
    """`if self.A is None:` with A an attribute that may be None -> A"""
    if isinstance(s, ast.If) and isinstance(s.test, ast.Compare) and len(s.test.ops) == 1 \
            and isinstance(s.test.ops[0], ast.Is) and _is_none(s.test.comparators[0]):
        l = s.test.left
        if isinstance(l, ast.Attribute) and isinstance(l.value, ast.Name) and l.value.id == "self" \
                and R_FIELDS[tag].get(l.attr, (None, None))[1] == "OptArr":
            return l.attr
    return None


def _resp_body(tr, dom, stmts, indent):
    """statement list with `if self.A is None: <returns> …` turned into a `match` (top level only)"""
    pad = "  " * indent
    out = []
    for k, s in enumerate(stmts):
        attr = _none_test_attr(s, dom.tag)
        if attr is not None and attr not in dom.narrow:
            if not terminates(s.body):
                raise Unsupported("`if self.%s is None:` whose body does not return" % attr)
            none_code = tr.scoped(s.body, indent + 2)
            local = "self_" + attr
            if local in dom.bound:
                raise Unsupported("the name %s is reserved" % local)
            dom.narrow[attr] = local
            tr.scopes.append({})
            try:
                rest = _resp_body(tr, dom, list(s.orelse) + list(stmts[k + 1:]), indent + 2)
            finally:
                tr.scopes.pop()
            out += [pad + "match %s with" % (R_FIELDS[dom.tag][attr][0] % "self"),
                    pad + "| none => do", none_code, pad + "| some %s => do" % local, rest]
            return "\n".join(o for o in out if o)
        code = tr.block([s], indent)
        if code:
            out.append(code)
    return "\n".join(out)


def _terminates_resp(stmts, tag):
    stmts = [s for s in stmts if not (isinstance(s, ast.Expr) and isinstance(s.value, ast.Constant))]
    for k, s in enumerate(stmts):
        if _none_test_attr(s, tag) is not None and terminates(s.body):
            return _terminates_resp(list(s.orelse) + stmts[k + 1:], tag)
    return terminates(stmts)


class RespJob:
    def __init__(self, rel, cls, meth, lean, tag, ret):
        self.rel, self.cls, self.meth, self.lean, self.tag, self.ret = rel, cls, meth, lean, tag, ret
        self.qual = cls + "." + meth

    def signature(self, unused=False):
        u = "_" if unused else ""
        ret = "Int" if self.ret == "I" else R_TYPES[self.ret]
        return "def %s {α : Type} (%scfg : Cfg) (%sself : %s) : Except Err (%s)" % (
            self.lean, u, u, R_TYPES[self.tag], ret)

    def translate(self, repo):
        src = open(os.path.join(repo, self.rel)).read()
        tree = ast.parse(src)
        fn = find_def(src, self.qual)
        check_signature(fn, ["self"], {})
        is_prop = any(isinstance(d, ast.Name) and d.id == "property" for d in fn.decorator_list)
        if is_prop != (not self.meth.startswith("__")) or len(fn.decorator_list) > (1 if is_prop else 0):
            raise Unsupported("decorators of %s" % self.qual)
        used = {n.id for n in ast.walk(fn) if isinstance(n, ast.Name)}
        for n in ast.walk(fn):
            if isinstance(n, ast.Name) and n.id in RESERVED | {"cfg"}:
                if n.id + "_" in used:
                    raise Unsupported("the names %s and %s_ are both in use" % (n.id, n.id))
                n.id = n.id + "_"
            if isinstance(n, (ast.Lambda, ast.FunctionDef)) and n is not fn:
                raise Unsupported("nested function")
            if isinstance(n, (ast.Global, ast.Nonlocal, ast.Yield, ast.YieldFrom, ast.Await, ast.While, ast.With,
                              ast.For, ast.Try)):
                raise Unsupported("statement %s" % type(n).__name__)
        env = ModuleEnv(tree)
        env.require_def(self.cls)
        cls = [n for n in tree.body if isinstance(n, ast.ClassDef) and n.name == self.cls][0]
        dom = RespDomain(env, tree, cls, fn, self.tag)
        dom.repo = repo
        tr = Tr([("self", self.tag)], self.ret, dom, None, {})
        tr.job = self
        tr.msg_only = message_only_names(fn)
        body = list(fn.body)
        code = _resp_body(tr, dom, body, 1)
        tr.check_tries()
        if not _terminates_resp(body, self.tag):
            raise Unsupported("a path falls off the end of the function (returns None implicitly)")
        sha = hashlib.sha256(ast.get_source_segment(src, fn).encode()).hexdigest()[:16]
        notes = "".join("  note: %s\n" % n for n in sorted(set(tr.notes)))
        text = ("/-- `%s` (%s, sha256 %s) as the source text says it; `cfg` holds the package defaults.\n%s-/\n"
                "%s := do\n%s\n" % (self.qual, self.rel, sha, notes, self.signature(), code))
        return text, {"sha": sha, "lines": fn.end_lineno - fn.lineno + 1}

    def failed(self, why):
        return "/-- translation FAILED: %s -/\n%s := throw Err.notImplemented\n" % (
            why.replace("\n", " ").replace("-/", "- /")[:300], self.signature(unused=True))


TRC, FRC = "TimeResponseData", "FrequencyResponseData"
C18_FILES = [
    ("ResponseTime.lean", [
        RespJob("control/timeresp.py", TRC, "time", "trdTime", "TR", "Arr"),
        RespJob("control/timeresp.py", TRC, "outputs", "trdOutputs", "TR", "NS"),
        RespJob("control/timeresp.py", TRC, "states", "trdStates", "TR", "OptNS"),
        RespJob("control/timeresp.py", TRC, "inputs", "trdInputs", "TR", "OptNS"),
        RespJob("control/timeresp.py", TRC, "_legacy_states", "trdLegacyStates", "TR", "OptArr"),
        RespJob("control/timeresp.py", TRC, "__iter__", "trdIter", "TR", "Items"),
        RespJob("control/timeresp.py", TRC, "__len__", "trdLen", "TR", "I"),
    ]),
    ("ResponseFreq.lean", [
        RespJob("control/frdata.py", FRC, "magnitude", "frdMagnitude", "FR", "FSig"),
        RespJob("control/frdata.py", FRC, "phase", "frdPhase", "FR", "FSig"),
        RespJob("control/frdata.py", FRC, "frequency", "frdFrequency", "FR", "FItem"),
        RespJob("control/frdata.py", FRC, "complex", "frdComplex", "FR", "FSig"),
        RespJob("control/frdata.py", FRC, "response", "frdResponse", "FR", "FSig"),
        RespJob("control/frdata.py", FRC, "__iter__", "frdIter", "FR", "FItems"),
    ]),
]


def regenerate_c18(repo, lean_dir):
    """Rewrite Generated/ResponseTime.lean and ResponseFreq.lean from the tree `repo`; returns (problems, info)."""
    problems, info = [], {}
    for out, jobs in C18_FILES:
        parts = []
        for job in jobs:
            try:
                text, inf = job.translate(repo)
                info[job.qual] = inf
            except (Unsupported, SyntaxError, OSError) as e:
                problems.append("py2lean_getitem: %s:%s cannot be translated: %s" % (job.rel, job.qual, e))
                text = job.failed(str(e))
            parts.append(text)
        head = ("-- GENERATED on every run by harness/core/py2lean_getitem.py from the source text in /repo "
                "(sha256 of each function below).  Do not edit.\n"
                "import CtrlVerif.Model.PyResp\nimport CtrlVerif.Generated.ProcessResponse\n\n"
                "namespace CtrlVerif.Generated\n\nopen CtrlVerif\n\n")
        write_if_changed(os.path.join(lean_dir, "CtrlVerif", "Generated", out),
                         head + "\n".join(parts) + "\nend CtrlVerif.Generated\n")
    return problems, info


if __name__ == "__main__":
    import sys
    repo = sys.argv[1] if len(sys.argv) > 1 else "/repo"
    lean_dir = os.path.join(os.path.dirname(os.path.dirname(os.path.dirname(os.path.abspath(__file__)))), "lean")
    print(regenerate(repo, lean_dir))
    print(regenerate_c18(repo, lean_dir))
