"""Second translator Python `ast` -> Lean 4 (DESIGN §2.5 / notes/NOTES-py2lean-arith.md): pure-Python
NUMERIC functions (straight-line code + counted loops) of python-control.  It regenerates
`lean/CtrlVerif/Generated/<Name>.lean` from the source text of the tree the check runs against
on every run; `Props/C14Gen.lean`, `Props/C20Gen.lean`, `Props/C12Gen.lean` prove the hand-written
model EQUAL to the generated function, so a semantic edit of the source breaks a proof obligation,
and an edit that leaves the supported subset makes the translation fail (reported the same way:
the emitted definition then is `.error .notImplemented`, which cannot equal the model).

Value model (fixed in `lean/CtrlVerif/Model/PyArith.lean` and `Model/PyNumpy.lean`, hand-written,
trusted):
  Python `int` -> `Int`; Python `float` / NumPy float64 scalar -> an arbitrary linearly ordered field
  `K`, EXACT arithmetic (rounding not modelled); `int` meeting `float` is cast; `None`-able int ->
  `Option Int`; list / 1-D array of numbers -> `List K` / `List Int`; complex 1-D array -> the pair
  (real parts, imaginary parts).  The function body becomes a term of `Except Err T`: every partial
  operation is partial (zero divisor -> `zeroDen`, index out of range -> `indexRange`,
  `raise X(...)` -> the `Err` the job maps `X` to).

Supported subset (anything else raises `Unsupported`):
  statements  docstring, `pass`, `x = e`, `x op= e` (+ - * / **), `xs[i] = e` (negative indices with
              Python meaning), `if/elif/else`, `if x is None / is not None` on an optional parameter
              (a `match`), `raise E("...")`, `return e` / `return e1, e2`, `for k in range(a[, b]): ...`
              (-> `List.foldlM` over `PyArith.range a b` with the tuple of re-assigned variables as
              state; no break/continue/return inside; the loop variable is not available afterwards)
  expressions int / float literals (floats must be exactly representable decimals), names,
              attributes / items of an object parameter named by the job (`self.T`,
              `sys.num[0][0]`), `+ - * / **`, unary `-`, comparisons (also chained, operands from the
              third on must be effect-free), `not / and / or` (operands after the first must be
              effect-free), `[e, ...]`, `[e for v in range(..)]`, `[e for v in xs]`, `xs[i]`, `xs[::-1]`,
              `xs + ys`, `[c] * n`, `len(xs)`, `sum(xs)`, `max(a, b)`, `min(a, b)`, `float(e)`, and the
              named primitives of the job, whose import is checked: `binom`, `factorial` from
              scipy.special, `np.power`; `np.polymul / polysub / polyadd / polyder / real`, `z.real`,
              `z.imag`, `z.conj()` on (complex) coefficient arrays; calls of a sibling function that
              has its own generated counterpart.
  `until`     a job may ask for the function only up to its first call of a given function
              (`np.roots`): the result is then the argument of that call (plus named variables).
Evaluation order: effectful sub-expressions (division, power, indexing, binom, sibling calls) are
bound left to right in Python's order before the statement that uses them.
Variables first assigned in only one branch of an `if` (or inside a loop body) are not available
after it.  At a join the types `Int` / `K` (and lists of them) are unified by casting to `K`.
Default values of the parameters are compared with the ones the job expects (a changed default is
a failed translation).  The sha256 of the function text is recorded in the generated file.
"""
import ast
import hashlib
import os
from fractions import Fraction

from core.py2lean import Unsupported

K, INT, OPTINT, PROP, LISTK, LISTINT, NONE, UNUSED = "K", "Int", "Option Int", "Prop", "List K", "List Int", "None", "unused"
CLIST = "complex array"      # a complex coefficient array as the pair (real parts, imaginary parts)
LEAN_TY = {K: "K", INT: "Int", OPTINT: "Option Int", LISTK: "List K", LISTINT: "List Int",
           CLIST: "(List K × List K)"}
NUM = (K, INT)


class Val:
    """a translated effect-free expression: Lean code (parenthesised when compound), type, and the
    integer value when it is an int literal (so that casting gives a literal of the field)"""

    def __init__(self, code, ty, lit=None, items=None):
        self.code, self.ty, self.lit, self.items = code, ty, lit, items


def _paren(s):
    return s if s.isidentifier() else "(" + s + ")"


def _ind(s, n=2):
    return "\n".join(" " * n + l for l in s.split("\n"))


def _do(items):
    """a `do` sequence as one parenthesised term"""
    if len(items) == 1:
        return items[0] if items[0].startswith("(") else "(" + items[0] + ")"
    return "(do\n" + _ind("\n".join(items), 2) + ")"


def _tuple_ty(tys):
    return " × ".join(LEAN_TY[t] for t in tys) if tys else "Unit"


def _proj(name, i, n):
    """i-th component of a right-nested n-tuple"""
    if n == 1:
        return name
    return name + "".join(".2" for _ in range(i)) + ("" if i == n - 1 else ".1")


class Translator:
    def __init__(self, job, module):
        self.job = job
        self.module = module
        self.ntmp = 0
        self.names = set()
        self.stopped = False

    # -- helpers ---------------------------------------------------------------------------------
    def fresh(self):
        self.ntmp += 1
        nm = "t%d" % self.ntmp
        if nm in self.names:
            raise Unsupported("the name %s is reserved for temporaries" % nm)
        return nm

    def cast(self, v, ty):
        if v.ty == ty:
            return v
        if v.ty == INT and ty == K:
            if v.lit is not None:
                return Val("(%d : K)" % v.lit, K)
            return Val("((%s : Int) : K)" % v.code, K)
        if v.ty == LISTINT and ty == LISTK:
            if v.items is not None:
                return Val("[" + ", ".join(self.cast(x, K).code for x in v.items) + "]", LISTK)
            return Val("(List.map (fun (c : Int) => (c : K)) %s)" % v.code, LISTK)
        raise Unsupported("a value of type %s where %s is needed" % (v.ty, ty))

    @staticmethod
    def join_ty(a, b):
        if a == b:
            return a
        if {a, b} == {INT, K}:
            return K
        if {a, b} == {LISTINT, LISTK}:
            return LISTK
        return None

    def check_import(self, name, module_name):
        """`name` must be bound at module level by `from <module_name> import name` and by nothing else"""
        ok = False
        for node in self.module.body:
            if isinstance(node, ast.ImportFrom) and node.module == module_name:
                for a in node.names:
                    if (a.asname or a.name) == name:
                        ok = a.name == name
            elif isinstance(node, (ast.FunctionDef, ast.ClassDef)) and node.name == name:
                return False
            elif isinstance(node, ast.Assign):
                for t in node.targets:
                    if isinstance(t, ast.Name) and t.id == name:
                        return False
            elif isinstance(node, (ast.Import, ast.ImportFrom)):
                for a in node.names:
                    if (a.asname or a.name.split(".")[0]) == name:
                        return False
        return ok

    def check_local_function(self, name):
        """`name` is bound at module level by exactly one `def` and by nothing else"""
        defs = 0
        for node in self.module.body:
            if isinstance(node, ast.FunctionDef) and node.name == name:
                defs += 1
            elif isinstance(node, ast.ClassDef) and node.name == name:
                return False
            elif isinstance(node, ast.Assign):
                for t in node.targets:
                    if isinstance(t, ast.Name) and t.id == name:
                        return False
            elif isinstance(node, (ast.Import, ast.ImportFrom)):
                for a in node.names:
                    if (a.asname or a.name.split(".")[0]) == name:
                        return False
        return defs == 1

    def check_numpy(self, alias):
        for node in self.module.body:
            if isinstance(node, ast.Import):
                for a in node.names:
                    if a.name == "numpy" and (a.asname or "numpy") == alias:
                        return True
        return False

    # -- expressions -----------------------------------------------------------------------------
    # `binds` collects the effectful steps ("let t ← ...") in evaluation order
    def expr(self, node, env, binds):
        if isinstance(node, ast.Constant):
            v = node.value
            if type(v) is int:
                return Val(str(v) if v >= 0 else "(%d)" % v, INT, lit=v)
            if type(v) is float:
                q = Fraction(repr(v))
                if float(q) != v or Fraction(v) != q:
                    raise Unsupported("float literal %r is not an exact binary fraction" % v)
                if q.denominator == 1:
                    return Val("(%d : K)" % q.numerator, K)
                return Val("((%d : K) / %d)" % (q.numerator, q.denominator), K)
            raise Unsupported("constant %r" % (v,))
        if isinstance(node, ast.Name):
            t = env.get(node.id)
            if t is None:
                raise Unsupported("variable %s may be unbound here" % node.id)
            if t in (NONE, UNUSED, OPTINT) or t not in LEAN_TY:
                raise Unsupported("use of %s (of type %s) as a value" % (node.id, t))
            return Val(node.id, t)
        if isinstance(node, (ast.Attribute, ast.Subscript)) and isinstance(node.ctx, ast.Load) \
                and ast.unparse(node) in self.job.get("attrs", {}):
            root = node
            while isinstance(root, (ast.Attribute, ast.Subscript)):
                root = root.value
            if not (isinstance(root, ast.Name) and env.get(root.id) == "object"):
                raise Unsupported("%s: the object has been re-bound" % ast.unparse(node))
            nm = self.job["attrs"][ast.unparse(node)]
            return Val(nm, env[nm])
        if isinstance(node, ast.Attribute):
            if node.attr in ("real", "imag"):
                v = self.expr(node.value, env, binds)
                if v.ty == CLIST:
                    return Val("%s.%d" % (_paren(v.code), 1 if node.attr == "real" else 2), LISTK)
            raise Unsupported("attribute %s" % ast.unparse(node))
        if isinstance(node, ast.UnaryOp) and isinstance(node.op, ast.USub):
            v = self.expr(node.operand, env, binds)
            if v.ty not in NUM:
                raise Unsupported("negation of %s" % v.ty)
            if v.lit is not None:
                return Val("(%d)" % (-v.lit), INT, lit=-v.lit)
            return Val("(-%s)" % v.code, v.ty)
        if isinstance(node, ast.UnaryOp) and isinstance(node.op, ast.UAdd):
            v = self.expr(node.operand, env, binds)
            if v.ty not in NUM:
                raise Unsupported("unary plus of %s" % v.ty)
            return v
        if isinstance(node, ast.BinOp):
            return self.binop(node.op, node.left, node.right, env, binds)
        if isinstance(node, ast.Compare):
            return self.compare(node, env, binds)
        if isinstance(node, ast.UnaryOp) and isinstance(node.op, ast.Not):
            v = self.expr(node.operand, env, binds)
            if v.ty != PROP:
                raise Unsupported("`not` of a %s" % v.ty)
            return Val("(¬ %s)" % v.code, PROP)
        if isinstance(node, ast.BoolOp):
            vs = []
            for i, x in enumerate(node.values):
                b = [] if i else binds
                v = self.expr(x, env, b)
                if i and b:
                    raise Unsupported("an operand of and/or after the first that can fail: %s" % ast.unparse(x)[:60])
                if v.ty != PROP:
                    raise Unsupported("and/or of a %s" % v.ty)
                vs.append(v.code)
            return Val("(" + (" ∧ " if isinstance(node.op, ast.And) else " ∨ ").join(vs) + ")", PROP)
        if isinstance(node, (ast.List, ast.Tuple)) and isinstance(node.ctx, ast.Load) and isinstance(node, ast.List):
            items = [self.expr(x, env, binds) for x in node.elts]
            if not items:
                raise Unsupported("empty list literal")
            ty = items[0].ty
            for x in items[1:]:
                ty = self.join_ty(ty, x.ty)
            if ty not in NUM:
                raise Unsupported("list of %s" % [x.ty for x in items])
            items = [self.cast(x, ty) for x in items]
            lt = LISTK if ty == K else LISTINT
            code = "[" + ", ".join(x.code for x in items) + "]"
            return Val("(%s : %s)" % (code, LEAN_TY[lt]), lt, items=items)
        if isinstance(node, ast.ListComp):
            return self.listcomp(node, env, binds)
        if isinstance(node, ast.Subscript) and isinstance(node.ctx, ast.Load):
            xs = self.expr(node.value, env, binds)
            if xs.ty not in (LISTK, LISTINT):
                raise Unsupported("indexing a %s" % xs.ty)
            if isinstance(node.slice, ast.Slice):
                sl = node.slice
                if sl.lower is None and sl.upper is None and sl.step is not None \
                        and ast.unparse(sl.step) == "-1":
                    return Val("(List.reverse %s)" % xs.code, xs.ty)          # xs[::-1]
                raise Unsupported("slice %s" % ast.unparse(node)[:60])
            i = self.expr(node.slice, env, binds)
            if i.ty != INT:
                raise Unsupported("index of type %s" % i.ty)
            t = self.fresh()
            binds.append("let %s ← PyArith.getItem %s %s" % (t, xs.code, i.code))
            return Val(t, K if xs.ty == LISTK else INT)
        if isinstance(node, ast.Call):
            return self.call(node, env, binds)
        raise Unsupported("expression %s" % ast.unparse(node)[:80])

    def binop(self, op, left, right, env, binds):
        a = self.expr(left, env, binds)
        b = self.expr(right, env, binds)
        lists = (LISTK, LISTINT)
        if isinstance(op, ast.Add) and a.ty in lists and b.ty in lists:          # list concatenation
            ty = self.join_ty(a.ty, b.ty)
            a, b = self.cast(a, ty), self.cast(b, ty)
            return Val("(%s ++ %s)" % (a.code, b.code), ty)
        if isinstance(op, ast.Mult) and {a.ty, b.ty} in ({LISTK, INT}, {LISTINT, INT}):   # [c] * n
            xs, n = (a, b) if a.ty in lists else (b, a)
            if xs.items is None or len(xs.items) != 1:
                raise Unsupported("repetition of a list that is not a one-element literal")
            return Val("(List.replicate (Int.toNat %s) %s)" % (n.code, xs.items[0].code), xs.ty)
        if isinstance(op, (ast.Add, ast.Sub, ast.Mult)):
            if a.ty not in NUM or b.ty not in NUM:
                raise Unsupported("arithmetic on %s, %s" % (a.ty, b.ty))
            ty = self.join_ty(a.ty, b.ty)
            a, b = self.cast(a, ty), self.cast(b, ty)
            sym = {ast.Add: "+", ast.Sub: "-", ast.Mult: "*"}[type(op)]
            return Val("(%s %s %s)" % (a.code, sym, b.code), ty)
        if isinstance(op, ast.Div):
            if a.ty not in NUM or b.ty not in NUM:
                raise Unsupported("division on %s, %s" % (a.ty, b.ty))
            a, b = self.cast(a, K), self.cast(b, K)
            t = self.fresh()
            binds.append("let %s ← PyArith.div %s %s" % (t, a.code, b.code))
            return Val(t, K)
        if isinstance(op, ast.Pow):
            return self.power(a, b, binds)
        raise Unsupported("operator %s" % type(op).__name__)

    def power(self, a, b, binds):
        if a.ty not in NUM or b.ty != INT:
            raise Unsupported("power with base %s, exponent %s" % (a.ty, b.ty))
        a = self.cast(a, K)
        t = self.fresh()
        binds.append("let %s ← PyArith.pow %s %s" % (t, a.code, b.code))
        return Val(t, K)

    def compare(self, node, env, binds):
        ops, operands = node.ops, [node.left] + list(node.comparators)
        vals = []
        for i, x in enumerate(operands):
            b = [] if i >= 2 else binds      # `a < b < c`: c is evaluated only if a < b holds
            v = self.expr(x, env, b)
            if i >= 2 and b:
                raise Unsupported("chained comparison with an operand that can fail")
            if v.ty not in NUM:
                raise Unsupported("comparison of a %s" % v.ty)
            vals.append(v)
        parts = []
        for op, a, b in zip(ops, vals, vals[1:]):
            ty = self.join_ty(a.ty, b.ty)
            a, b = self.cast(a, ty), self.cast(b, ty)
            if isinstance(op, ast.Lt):
                parts.append("%s < %s" % (a.code, b.code))
            elif isinstance(op, ast.LtE):
                parts.append("%s ≤ %s" % (a.code, b.code))
            elif isinstance(op, ast.Gt):
                parts.append("%s < %s" % (b.code, a.code))
            elif isinstance(op, ast.GtE):
                parts.append("%s ≤ %s" % (b.code, a.code))
            elif isinstance(op, ast.Eq):
                parts.append("%s = %s" % (a.code, b.code))
            elif isinstance(op, ast.NotEq):
                parts.append("%s ≠ %s" % (a.code, b.code))
            else:
                raise Unsupported("comparison %s" % type(op).__name__)
        return Val("(" + " ∧ ".join(parts) + ")", PROP)

    def range_args(self, call, env, binds):
        if not (isinstance(call, ast.Call) and isinstance(call.func, ast.Name) and call.func.id == "range"
                and not call.keywords and 1 <= len(call.args) <= 2) or "range" in env:
            return None
        args = [self.expr(a, env, binds) for a in call.args]
        if any(a.ty != INT for a in args):
            raise Unsupported("range over %s" % [a.ty for a in args])
        if len(args) == 1:
            args = [Val("0", INT, lit=0)] + args
        return "(PyArith.range %s %s)" % (args[0].code, args[1].code)

    def listcomp(self, node, env, binds):
        if len(node.generators) != 1:
            raise Unsupported("nested comprehension")
        g = node.generators[0]
        if g.ifs or g.is_async or not isinstance(g.target, ast.Name):
            raise Unsupported("comprehension %s" % ast.unparse(node)[:60])
        v = g.target.id
        rng = self.range_args(g.iter, env, binds)
        if rng is not None:
            src, vty = rng, INT
        else:
            xs = self.expr(g.iter, env, binds)
            if xs.ty not in (LISTK, LISTINT):
                raise Unsupported("comprehension over a %s" % xs.ty)
            src, vty = xs.code, (K if xs.ty == LISTK else INT)
        inner = dict(env)
        inner[v] = vty
        b2 = []
        e = self.expr(node.elt, inner, b2)
        if e.ty not in NUM:
            raise Unsupported("comprehension element of type %s" % e.ty)
        lt = LISTK if e.ty == K else LISTINT
        if not b2:
            return Val("(List.map (fun (%s : %s) => %s) %s)" % (v, LEAN_TY[vty], e.code, src), lt)
        body = _do(b2 + ["pure %s" % e.code])
        t = self.fresh()
        binds.append("let %s ← List.mapM (fun (%s : %s) => (%s : Except Err %s)) %s"
                     % (t, v, LEAN_TY[vty], body, LEAN_TY[e.ty], src))
        return Val(t, lt)

    def call(self, node, env, binds):
        if node.keywords:
            raise Unsupported("keyword arguments in %s" % ast.unparse(node)[:60])
        f = node.func
        prims = self.job.get("prims", {})
        if isinstance(f, ast.Name) and f.id not in env:
            nm = f.id
            args = [self.expr(a, env, binds) for a in node.args]
            if nm in prims:
                lean, mod, argtys, rty, monadic = prims[nm]
                if not self.check_import(nm, mod):
                    raise Unsupported("%s is not (only) `from %s import %s`" % (nm, mod, nm))
                if len(args) != len(argtys):
                    raise Unsupported("%s with %d arguments" % (nm, len(args)))
                args = [self.cast(a, t) for a, t in zip(args, argtys)]
                code = "%s %s" % (lean, " ".join(a.code for a in args))
                if monadic:
                    t = self.fresh()
                    binds.append("let %s ← (%s : Except Err %s)" % (t, code, LEAN_TY[rty]))
                    return Val(t, rty)
                return Val("(%s : %s)" % (code, LEAN_TY[rty]), rty)
            if nm in self.job.get("calls", {}):
                lean, argtys, rty = self.job["calls"][nm]
                if not self.check_local_function(nm):
                    raise Unsupported("%s is not (only) a function of this module" % nm)
                if len(args) != len(argtys):
                    raise Unsupported("%s with %d arguments" % (nm, len(args)))
                args = [self.cast(a, t) for a, t in zip(args, argtys)]
                t = self.fresh()
                binds.append("let %s ← %s %s" % (t, lean, " ".join(a.code for a in args)))
                return Val(t, rty)
            if nm in ("max", "min") and len(args) == 2 and all(a.ty in NUM for a in args):
                ty = self.join_ty(args[0].ty, args[1].ty)
                a, b = self.cast(args[0], ty), self.cast(args[1], ty)
                return Val("(%s %s %s)" % (nm, a.code, b.code), ty)
            if nm == "len" and len(args) == 1 and args[0].ty in (LISTK, LISTINT):
                return Val("((List.length %s : Nat) : Int)" % args[0].code, INT)
            if nm == "sum" and len(args) == 1 and args[0].ty in (LISTK, LISTINT):
                return Val("(List.sum %s)" % args[0].code, K if args[0].ty == LISTK else INT)
            if nm == "float" and len(args) == 1 and args[0].ty in NUM:
                return self.cast(args[0], K)
            raise Unsupported("call %s" % ast.unparse(node)[:60])
        np_prims = self.job.get("np_prims", {})
        if isinstance(f, ast.Attribute) and isinstance(f.value, ast.Name) and f.attr in np_prims \
                and f.value.id not in env and self.check_numpy(f.value.id):
            vals = [self.expr(a, env, binds) for a in node.args]
            for lean, argtys, rty in np_prims[f.attr]:             # overloads, first match
                if len(vals) == len(argtys) and all(v.ty == t or self.join_ty(v.ty, t) == t
                                                    for v, t in zip(vals, argtys)):
                    args = [self.cast(v, t) for v, t in zip(vals, argtys)]
                    return Val("(%s %s)" % (lean, " ".join(a.code for a in args)), rty)
            raise Unsupported("%s on %s" % (ast.unparse(f), [v.ty for v in vals]))
        if isinstance(f, ast.Attribute) and f.attr == "conj" and not node.args:
            v = self.expr(f.value, env, binds)
            if v.ty != CLIST:
                raise Unsupported("conj of a %s" % v.ty)
            return Val("(PyNumpy.cconj %s)" % v.code, CLIST)
        if isinstance(f, ast.Attribute) and isinstance(f.value, ast.Name) and f.attr == "power" \
                and f.value.id not in env and self.check_numpy(f.value.id) and len(node.args) == 2:
            a = self.expr(node.args[0], env, binds)
            b = self.expr(node.args[1], env, binds)
            return self.power(a, b, binds)
        raise Unsupported("call %s" % ast.unparse(node)[:60])

    # -- statements ------------------------------------------------------------------------------
    def stop_call(self, stmt):
        """the first call of the job's `until` function inside the statement, if any"""
        until = self.job.get("until")
        if until is None:
            return None
        for sub in ast.walk(stmt):
            if isinstance(sub, ast.Call) and ast.unparse(sub.func) == until[0]:
                alias = until[0].split(".")[0]
                if not self.check_numpy(alias):
                    raise Unsupported("%s is not numpy" % alias)
                return sub
        return None

    @staticmethod
    def is_doc(s):
        return isinstance(s, ast.Expr) and isinstance(s.value, ast.Constant) and isinstance(s.value.value, str)

    def terminates(self, stmts):
        stmts = [s for s in stmts if not self.is_doc(s) and not isinstance(s, ast.Pass)]
        if not stmts:
            return False
        s = stmts[-1]
        if isinstance(s, (ast.Return, ast.Raise)):
            return True
        if isinstance(s, ast.If):
            return bool(s.orelse) and self.terminates(s.body) and self.terminates(s.orelse)
        return False

    def assigned(self, stmts):
        """names (re)bound by the statements, in order of first occurrence"""
        out = []

        def add(n):
            if n not in out:
                out.append(n)
        for s in stmts:
            if isinstance(s, ast.Assign):
                for t in s.targets:
                    if isinstance(t, ast.Name):
                        add(t.id)
                    elif isinstance(t, ast.Subscript) and isinstance(t.value, ast.Name):
                        add(t.value.id)
                    else:
                        raise Unsupported("assignment target %s" % ast.unparse(t)[:60])
            elif isinstance(s, ast.AugAssign):
                if isinstance(s.target, ast.Name):
                    add(s.target.id)
                else:
                    raise Unsupported("augmented assignment to %s" % ast.unparse(s.target)[:60])
            elif isinstance(s, ast.If):
                for n in self.assigned(s.body) + self.assigned(s.orelse):
                    add(n)
            elif isinstance(s, ast.For):
                if not isinstance(s.target, ast.Name):
                    raise Unsupported("loop target %s" % ast.unparse(s.target)[:60])
                add(s.target.id)
                for n in self.assigned(s.body):
                    add(n)
            elif isinstance(s, (ast.Return, ast.Raise, ast.Pass)) or self.is_doc(s):
                pass
            else:
                raise Unsupported("statement %s" % ast.unparse(s)[:60])
        return out

    def block(self, stmts, env, cont, in_loop=False):
        """statements followed by `cont(env) -> [items]`; returns the list of `do` items"""
        env = dict(env)
        stmts = [s for s in stmts if not self.is_doc(s) and not isinstance(s, ast.Pass)]
        items = []
        for idx, s in enumerate(stmts):
            rest = stmts[idx + 1:]
            binds = []
            stop = self.stop_call(s)
            if stop is not None:
                # the job asks for the argument of the first call of `until` (e.g. np.roots): the
                # function is translated up to there, the rest of its body is outside the tie
                if in_loop or not isinstance(s, (ast.Assign, ast.Expr, ast.Return)):
                    raise Unsupported("%s inside a compound statement" % self.job["until"][0])
                if len(stop.args) != 1 or stop.keywords:
                    raise Unsupported("call %s" % ast.unparse(stop)[:60])
                rtys = self.job["ret"]
                vals = [self.expr(stop.args[0], env, binds)]
                for nm in self.job["until"][1]:
                    vals.append(self.expr(ast.Name(id=nm, ctx=ast.Load()), env, binds))
                vals = [self.cast(v, t) for v, t in zip(vals, rtys)]
                items += binds
                items.append("pure (%s)" % ", ".join(v.code for v in vals) if len(vals) > 1
                             else "pure %s" % vals[0].code)
                self.stopped = True
                return items
            if isinstance(s, ast.Assign) or isinstance(s, ast.AugAssign):
                if isinstance(s, ast.AugAssign):
                    target = s.target
                    if not isinstance(target, ast.Name):
                        raise Unsupported("augmented assignment to %s" % ast.unparse(target)[:60])
                    v = self.binop(s.op, ast.Name(id=target.id, ctx=ast.Load()), s.value, env, binds)
                else:
                    if len(s.targets) != 1:
                        raise Unsupported("multiple assignment targets")
                    target = s.targets[0]
                    v = self.expr(s.value, env, binds)
                if isinstance(target, ast.Name):
                    if v.ty not in LEAN_TY:
                        raise Unsupported("assignment of a %s" % v.ty)
                    if binds and binds[-1].startswith("let %s ← " % v.code):
                        binds[-1] = "let %s ← " % target.id + binds[-1][len("let %s ← " % v.code):]
                        items += binds
                    else:
                        items += binds
                        items.append("let %s : %s := %s" % (target.id, LEAN_TY[v.ty], v.code))
                    env[target.id] = v.ty
                elif isinstance(target, ast.Subscript) and isinstance(target.value, ast.Name):
                    xs = target.value.id
                    xt = env.get(xs)
                    if xt not in (LISTK, LISTINT):
                        raise Unsupported("item assignment on %s of type %s" % (xs, xt))
                    if isinstance(target.slice, ast.Slice):
                        raise Unsupported("slice assignment")
                    i = self.expr(target.slice, env, binds)
                    if i.ty != INT:
                        raise Unsupported("index of type %s" % i.ty)
                    if xt == LISTINT and v.ty == K:
                        raise Unsupported("a float stored into a list of ints")
                    v = self.cast(v, K if xt == LISTK else INT)
                    items += binds
                    items.append("let %s ← PyArith.setItem %s %s %s" % (xs, xs, i.code, v.code))
                else:
                    raise Unsupported("assignment target %s" % ast.unparse(target)[:60])
                continue
            if isinstance(s, ast.Raise):
                if rest:
                    raise Unsupported("code after raise")
                e = s.exc
                exc = self.job.get("exc", {})
                if isinstance(e, ast.Call) and isinstance(e.func, ast.Name) and e.func.id in exc and s.cause is None:
                    for a in e.args:
                        if not (isinstance(a, ast.Constant) and isinstance(a.value, str)):
                            raise Unsupported("exception argument %s" % ast.unparse(a)[:60])
                    items.append("(.error Err.%s)" % exc[e.func.id])
                    return items
                raise Unsupported("raise %s" % ast.unparse(s)[:60])
            if isinstance(s, ast.Return):
                if rest:
                    raise Unsupported("code after return")
                if in_loop:
                    raise Unsupported("return inside a loop")
                if s.value is None:
                    raise Unsupported("bare return")
                rtys = self.job["ret"]
                parts = list(s.value.elts) if isinstance(s.value, ast.Tuple) else [s.value]
                if len(parts) != len(rtys):
                    raise Unsupported("returns %d values, %d expected" % (len(parts), len(rtys)))
                vals = [self.cast(self.expr(p, env, binds), t) for p, t in zip(parts, rtys)]
                items += binds
                items.append("pure (%s)" % ", ".join(v.code for v in vals) if len(vals) > 1
                             else "pure %s" % vals[0].code)
                return items
            if isinstance(s, ast.If):
                return items + self.if_stmt(s, rest, env, cont, in_loop)
            if isinstance(s, ast.For):
                its, env = self.for_stmt(s, env)
                items += its
                continue
            raise Unsupported("statement %s" % ast.unparse(s)[:60])
        return items + cont(env)

    def none_test(self, test, env):
        """`x is None` / `x is not None` on an optional variable -> (name, is_none)"""
        if isinstance(test, ast.Compare) and len(test.ops) == 1 and isinstance(test.ops[0], (ast.Is, ast.IsNot)) \
                and isinstance(test.left, ast.Name) and isinstance(test.comparators[0], ast.Constant) \
                and test.comparators[0].value is None:
            if env.get(test.left.id) != OPTINT:
                raise Unsupported("`is None` test of %s, which is not an optional parameter here" % test.left.id)
            return test.left.id, isinstance(test.ops[0], ast.Is)
        return None

    def branch_code(self, test, env, binds):
        """returns (render(then_items, else_items) -> str, env_then, env_else)"""
        nt = self.none_test(test, env)
        if nt is not None:
            x, is_none = nt
            env_n, env_s = dict(env), dict(env)
            env_n[x] = NONE
            env_s[x] = INT

            def render(a, b):
                n, sm = (a, b) if is_none else (b, a)
                return "(match %s with\n  | none =>\n%s\n  | some %s =>\n%s)" % (x, _ind(_do(n), 4), x, _ind(_do(sm), 4))
            return render, (env_n if is_none else env_s), (env_s if is_none else env_n)
        c = self.expr(test, env, binds)
        if c.ty != PROP:
            raise Unsupported("truth value of a %s: %s" % (c.ty, ast.unparse(test)[:60]))

        def render(a, b):
            return "(if %s then\n%s\n  else\n%s)" % (c.code, _ind(_do(a), 4), _ind(_do(b), 4))
        return render, dict(env), dict(env)

    def if_stmt(self, s, rest, env, cont, in_loop):
        binds = []
        render, env_t, env_e = self.branch_code(s.test, env, binds)
        t_term, e_term = self.terminates(s.body), self.terminates(s.orelse)
        if not rest or t_term or e_term:
            if rest and t_term and e_term:
                raise Unsupported("unreachable code after if")
            a = self.block(list(s.body) + ([] if t_term else rest), env_t, cont, in_loop)
            b = self.block(list(s.orelse) + ([] if e_term else rest), env_e, cont, in_loop)
            return binds + [render(a, b)]
        # both branches fall through and code follows: the re-bound variables are the result
        cand = self.assigned(list(s.body) + list(s.orelse))
        a_t, a_e = self.assigned(s.body), self.assigned(s.orelse)
        saved = self.ntmp
        outs = {}

        def probe(key):
            def k(e):
                outs[key] = e
                return ["pure ()"]
            return k
        self.block(s.body, env_t, probe("t"), in_loop)
        self.block(s.orelse, env_e, probe("e"), in_loop)
        self.ntmp = saved
        out, tys, dropped = [], [], []
        for v in cand:
            ok_t = outs["t"].get(v) in LEAN_TY
            ok_e = outs["e"].get(v) in LEAN_TY
            ty = self.join_ty(outs["t"].get(v), outs["e"].get(v)) if ok_t and ok_e else None
            if ty is None:
                dropped.append(v)
            else:
                out.append(v)
                tys.append(ty)

        def k(e):
            vals = [self.cast(Val(v, e[v]), t).code for v, t in zip(out, tys)]
            return ["pure (%s)" % ", ".join(vals)]
        a = self.block(s.body, env_t, k, in_loop)
        b = self.block(s.orelse, env_e, k, in_loop)
        r = self.fresh()
        items = binds + ["let %s ← (%s : Except Err (%s))" % (r, render(a, b), _tuple_ty(tys))]
        env2 = dict(env)
        for v in dropped:
            env2.pop(v, None)
        for i, (v, t) in enumerate(zip(out, tys)):
            items.append("let %s : %s := %s" % (v, LEAN_TY[t], _proj(r, i, len(out))))
            env2[v] = t
        return items + self.block(rest, env2, cont, in_loop)

    def for_stmt(self, s, env):
        if s.orelse or not isinstance(s.target, ast.Name):
            raise Unsupported("loop %s" % ast.unparse(s)[:60])
        for sub in ast.walk(s):
            if isinstance(sub, (ast.Break, ast.Continue)):
                raise Unsupported("break/continue")
        k = s.target.id
        binds = []
        rng = self.range_args(s.iter, env, binds)
        if rng is not None:
            src, kty = rng, INT
        else:
            xs = self.expr(s.iter, env, binds)
            if xs.ty not in (LISTK, LISTINT):
                raise Unsupported("loop over a %s" % xs.ty)
            src, kty = xs.code, (K if xs.ty == LISTK else INT)
        state = [v for v in self.assigned(s.body) if v != k and env.get(v) in LEAN_TY]
        if k in self.assigned(s.body):
            raise Unsupported("assignment to the loop variable %s" % k)
        tys = [env[v] for v in state]
        pre = []
        for _ in range(3):                       # widen Int -> K until the state type is invariant
            inner = dict(env)
            inner.update(dict(zip(state, tys)))
            inner[k] = kty
            outs = {}

            def probe(e):
                outs.update(e)
                return ["pure ()"]
            saved = self.ntmp
            self.block(s.body, inner, probe, in_loop=True)
            self.ntmp = saved
            new = [self.join_ty(t, outs.get(v)) for v, t in zip(state, tys)]
            if None in new:
                raise Unsupported("a loop variable changes its type")
            if new == tys:
                break
            tys = new
        else:
            raise Unsupported("loop state types do not stabilise")
        init = [self.cast(Val(v, env[v]), t).code for v, t in zip(state, tys)]
        st = self.fresh()
        inner = dict(env)
        inner.update(dict(zip(state, tys)))
        inner[k] = kty
        head = ["let %s : %s := %s" % (v, LEAN_TY[t], _proj(st, i, len(state))) for i, (v, t) in enumerate(zip(state, tys))]

        def kont(e):
            return ["pure (%s)" % ", ".join(self.cast(Val(v, e[v]), t).code for v, t in zip(state, tys))]
        body = head + self.block(s.body, inner, kont, in_loop=True)
        r = self.fresh()
        sty = _tuple_ty(tys)
        items = binds + ["let %s ← List.foldlM (fun (%s : %s) (%s : %s) =>\n%s) (%s) %s"
                         % (r, st, sty, k, LEAN_TY[kty],
                            _ind("(%s : Except Err (%s))" % (_do(body), sty), 4),
                            ", ".join(init), src)]
        env2 = dict(env)
        for v in self.assigned(s.body):
            if v not in state:
                env2.pop(v, None)               # first bound inside the loop: not available afterwards
        env2.pop(k, None)
        for i, (v, t) in enumerate(zip(state, tys)):
            items.append("let %s : %s := %s" % (v, LEAN_TY[t], _proj(r, i, len(state))))
            env2[v] = t
        return items, env2


# -------------------------------------------------------------------------------------------------
# jobs
# -------------------------------------------------------------------------------------------------

SCIPY_PRIMS = {
    # python name: (lean name, module it must be imported from, argument types, result type, partial?)
    "binom": ("PyArith.binom", "scipy.special", [INT, INT], K, True),
    "factorial": ("PyArith.factorial", "scipy.special", [INT], K, False),
}

NP_POLY = {
    # numpy function: overloads (exact counterpart in Model/Poly.lean / Model/Margins.lean /
    # Model/PyNumpy.lean, argument types, result type)
    "polymul": [("Margins.npmul", [LISTK, LISTK], LISTK), ("PyNumpy.cpolymul", [CLIST, CLIST], CLIST)],
    "polysub": [("Margins.npsub", [LISTK, LISTK], LISTK)],
    "polyadd": [("polyadd", [LISTK, LISTK], LISTK), ("Margins.cadd", [CLIST, CLIST], CLIST)],
    "polyder": [("Margins.polyder", [LISTK], LISTK)],
    "real": [("Prod.fst", [CLIST], LISTK)],
}
_IWSQR = {"_poly_iw_sqr": ("polyIwSqr", [CLIST], LISTK)}
_ZARGS = [("num", LISTK), ("den", LISTK), ("num_inv_zp", LISTK), ("den_inv_zq", LISTK), ("p_q", INT),
          ("dt", UNUSED), ("epsw", UNUSED)]

JOBS = {
    "poly_z_invz": dict(
        rel="control/margins.py", cls=None, func="_poly_z_invz", lean="polyZInvz", out="PolyZInvz.lean",
        params=[("sys", "object")], defaults={},
        attrs={"sys.num[0][0]": "num0", "sys.den[0][0]": "den0", "sys.dt": "dt0"},
        fields=[("num0", LISTK), ("den0", LISTK), ("dt0", K)],
        ret=[LISTK, LISTK, LISTK, LISTK, INT, K], exc={"ValueError": "nonProper"},
        imports=["CtrlVerif.Model.Margins"]),
    "poly_z_real_crossing": dict(
        rel="control/margins.py", cls=None, func="_poly_z_real_crossing", lean="polyZRealCrossing",
        out="PolyZRealCrossing.lean", params=_ZARGS, defaults={}, until=("np.roots", ["p2"]),
        ret=[LISTK, LISTK], np_prims=NP_POLY, exc={}, imports=["CtrlVerif.Model.Margins"]),
    "poly_z_mag1_crossing": dict(
        rel="control/margins.py", cls=None, func="_poly_z_mag1_crossing", lean="polyZMag1Crossing",
        out="PolyZMag1Crossing.lean", params=_ZARGS, defaults={}, until=("np.roots", ["p2"]),
        ret=[LISTK, LISTK], np_prims=NP_POLY, exc={}, imports=["CtrlVerif.Model.Margins"]),
    "poly_iw_real_crossing": dict(
        rel="control/margins.py", cls=None, func="_poly_iw_real_crossing", lean="polyIwRealCrossing",
        out="PolyIwRealCrossing.lean",
        params=[("num_iw", CLIST), ("den_iw", CLIST), ("epsw", UNUSED)], defaults={}, until=("np.roots", []),
        ret=[LISTK], np_prims=NP_POLY, exc={}, imports=["CtrlVerif.Model.Margins"]),
    "poly_iw_sqr": dict(
        rel="control/margins.py", cls=None, func="_poly_iw_sqr", lean="polyIwSqr", out="PolyIwSqr.lean",
        params=[("pol_iw", CLIST)], defaults={}, ret=[LISTK], np_prims=NP_POLY, exc={},
        imports=["CtrlVerif.Model.PyNumpy"]),
    "poly_iw_mag1_crossing": dict(
        rel="control/margins.py", cls=None, func="_poly_iw_mag1_crossing", lean="polyIwMag1Crossing",
        out="PolyIwMag1Crossing.lean",
        params=[("num_iw", CLIST), ("den_iw", CLIST), ("epsw", UNUSED)], defaults={}, until=("np.roots", []),
        ret=[LISTK], np_prims=NP_POLY, calls=_IWSQR, exc={},
        imports=["CtrlVerif.Model.PyNumpy", "CtrlVerif.Generated.PolyIwSqr"]),
    "poly_iw_wstab": dict(
        rel="control/margins.py", cls=None, func="_poly_iw_wstab", lean="polyIwWstab", out="PolyIwWstab.lean",
        params=[("num_iw", CLIST), ("den_iw", CLIST), ("epsw", UNUSED)], defaults={}, until=("np.roots", []),
        ret=[LISTK], np_prims=NP_POLY, calls=_IWSQR, exc={},
        imports=["CtrlVerif.Model.PyNumpy", "CtrlVerif.Generated.PolyIwSqr"]),
    "pade": dict(
        rel="control/delay.py", cls=None, func="pade", lean="pade", out="Pade.lean",
        params=[("T", K), ("n", INT), ("numdeg", OPTINT)], defaults={"n": "1", "numdeg": "None"},
        ret=[LISTK, LISTK], exc={"ValueError": "badArg"}),
    "poly_eval_deriv": dict(
        rel="control/flatsys/poly.py", cls="PolyFamily", func="eval_deriv", lean="polyEvalDeriv",
        out="PolyEvalDeriv.lean",
        params=[("self", "self"), ("i", INT), ("k", INT), ("t", K), ("var", UNUSED)], defaults={"var": "None"},
        attrs={"self.T": "T"}, fields=[("T", K)], ret=[K], prims=SCIPY_PRIMS, exc={"ValueError": "badArg"}),
    "bezier_eval_deriv": dict(
        rel="control/flatsys/bezier.py", cls="BezierFamily", func="eval_deriv", lean="bezierEvalDeriv",
        out="BezierEvalDeriv.lean",
        params=[("self", "self"), ("i", INT), ("k", INT), ("t", K), ("var", UNUSED)], defaults={"var": "None"},
        attrs={"self.N": "N", "self.T": "T"}, fields=[("N", INT), ("T", K)], ret=[K], prims=SCIPY_PRIMS,
        exc={"ValueError": "badArg"}),
}


def _find(module, cls, func):
    body = module.body
    if cls is not None:
        for node in body:
            if isinstance(node, ast.ClassDef) and node.name == cls:
                body = node.body
                break
        else:
            raise Unsupported("class %s not found" % cls)
    found = [n for n in body if isinstance(n, ast.FunctionDef) and n.name == func]
    if len(found) != 1:
        raise Unsupported("%d definitions of %s" % (len(found), func))
    if found[0].decorator_list:
        raise Unsupported("decorated function")
    return found[0]


def _signature(job):
    """Lean binders and result type (the same whether or not the translation succeeds)"""
    binders = "{K : Type} [Field K] [LinearOrder K]"
    for nm, ty in job.get("fields", []):
        binders += " (%s : %s)" % (nm, LEAN_TY[ty])
    for nm, ty in job["params"]:
        if ty in LEAN_TY:
            binders += " (%s : %s)" % (nm, LEAN_TY[ty])
    return binders, "Except Err (%s)" % _tuple_ty(job["ret"])


def translate(repo, key):
    """Returns (lean source of the definitions, info).  Raises Unsupported / OSError / SyntaxError."""
    job = JOBS[key]
    path = os.path.join(repo, job["rel"])
    src = open(path).read()
    module = ast.parse(src)
    fn = _find(module, job["cls"], job["func"])
    a = fn.args
    if a.vararg or a.kwarg or a.kwonlyargs or a.posonlyargs:
        raise Unsupported("signature")
    got = [x.arg for x in a.args]
    want = [p for p, _ in job["params"]]
    if got != want:
        raise Unsupported("parameters %s, expected %s" % (got, want))
    defaults = dict(zip(got[len(got) - len(a.defaults):], [ast.unparse(d) for d in a.defaults]))
    if defaults != job["defaults"]:
        raise Unsupported("default values %s, expected %s" % (defaults, job["defaults"]))
    tr = Translator(job, module)
    tr.names = {n.id for n in ast.walk(fn) if isinstance(n, ast.Name)} | set(got) \
        | {nm for nm, _ in job.get("fields", [])}
    env = {}
    for nm, ty in job.get("fields", []):
        if nm in got:
            raise Unsupported("parameter %s clashes with a field" % nm)
        env[nm] = ty
    for nm, ty in job["params"]:
        env[nm] = "object" if ty in ("self", "object") else ty

    def fall_off(_env):
        raise Unsupported("a path falls off the end of the function (returns None implicitly)")
    items = tr.block(fn.body, env, fall_off)
    if job.get("until") and not tr.stopped:
        raise Unsupported("no call of %s on the main path" % job["until"][0])
    text = ast.get_source_segment(src, fn)
    sha = hashlib.sha256(text.encode()).hexdigest()
    binders, rty = _signature(job)
    where = job["rel"] + ":" + ((job["cls"] + ".") if job["cls"] else "") + job["func"]
    upto = ""
    if job.get("until"):
        upto = ("\nTranslated up to the first call of `%s`: the result is its argument%s; the rest of the "
                "body is outside this tie." % (job["until"][0], "".join(", `%s`" % x for x in job["until"][1])))
    lean = ("/-- `%s` as the source text says it (sha256 of the function text\n%s).\n"
            "Defaults: %s.%s -/\n"
            "def %s %s :\n    %s :=\n%s\n") % (
        where, sha, ", ".join("%s=%s" % kv for kv in sorted(defaults.items())) or "none", upto,
        job["lean"], binders, rty, _ind(_do(items) if len(items) > 1 else items[0], 2))
    return lean, {"sha": sha, "lines": fn.end_lineno - fn.lineno + 1, "temporaries": tr.ntmp}


def regenerate(repo, lean_dir, keys=("pade",)):
    """Rewrite Generated/<out> for each job; returns (list of problems, info dict).  The files are
    deterministic functions of the source text (no timestamps) and rewritten only when changed."""
    problems, info = [], {}
    os.makedirs(os.path.join(lean_dir, "CtrlVerif", "Generated"), exist_ok=True)
    for key in keys:
        job = JOBS[key]
        where = job["rel"] + ":" + ((job["cls"] + ".") if job["cls"] else "") + job["func"]
        try:
            lean, inf = translate(repo, key)
            info[key] = inf
            head = "-- GENERATED on every run by harness/core/py2lean_arith.py from %s (sha256 %s).  Do not edit.\n" % (
                where, inf["sha"])
        except (Unsupported, SyntaxError, OSError) as e:
            msg = str(e).replace("\n", " ").replace("-/", "- /")[:200]
            problems.append("py2lean_arith: %s cannot be translated: %s" % (where, msg))
            binders, rty = _signature(job)
            head = "-- GENERATED by harness/core/py2lean_arith.py: translation of %s FAILED.  Do not edit.\n" % where
            # a definition that cannot be equal to the model, so the obligation visibly fails
            lean = "/-- translation FAILED: %s -/\ndef %s %s :\n    %s :=\n  .error Err.notImplemented\n" % (
                msg, job["lean"], binders, rty)
        text = (head + "import CtrlVerif.Model.PyArith\n"
                + "".join("import %s\n" % m for m in job.get("imports", []))
                + "\nnamespace CtrlVerif.Generated\n\nopen CtrlVerif\n\n"
                + lean + "\nend CtrlVerif.Generated\n")
        path = os.path.join(lean_dir, "CtrlVerif", "Generated", job["out"])
        old = open(path).read() if os.path.exists(path) else None
        if old != text:
            with open(path, "w") as f:
                f.write(text)
    return problems, info


if __name__ == "__main__":
    import sys
    lean, inf = translate(sys.argv[1], sys.argv[2])
    print(lean)
    print(inf)
