"""py2lean_frdctor -- source-text tie of `FrequencyResponseData.__init__` and the factory `frd`
(control/frdata.py) for property C03 (tag py2lean-frdctor, notes/NOTES-py2lean-frdctor.md).

`regenerate(repo, lean_dir)` re-translates, on every run, the constructor (argument-count dispatch,
the branch that samples an LTI system, the response-data branch, the copy branch, the timebase
section, the dictionary `defaults`) and the factory into `lean/CtrlVerif/Generated/FrdCtor.lean`
(deterministic; sha256 of each function text in the header; rewritten only when changed).  The
emitted primitives are those of `Model/PyFRD.lean` (arrays, `PyLTI.*`, `FVec.sort/jw/expj`) and of the
small trusted file `Model/PyFrdCtor.lean` (dynamically typed `args`, the tracked `kwargs`, attribute
readers, the opaque tail `PyIOSys.initFrd`).  `Props/C03GenFrdCtor.lean` proves the hand model
(`Convert.frdOfSys / frdMeta / frdDt`) equal to the generated functions.

The translation is a direct one: Python statements become statements of a Lean `do` block over
`Except Err` with `let mut` variables for every name that is assigned more than once (`args`,
`kwargs`, `self.omega`, `self.frdata`, `arg_dt`), `if / elif / else` stay `if / else`, `raise` is
`throw`.  Rules that are not a literal reading (also printed in the doc comment of the output):
  R1  `if …: warn(…)` has no effect.
  R2  keywords other than name / inputs / outputs / dt / smooth are not passed: `self.X =
      kwargs.pop('k', c)` for another key is the constant `c`; tests on such constants are decided
      at translation time (`if self.squeeze not in (None, True, False)`).
  R3  `getattr(self, 'a', None)` for an attribute the constructor has not set yet is `None`
      (`InputOutputSystem.__init__` runs last).
  R4  arrays built from an argument are taken in their canonical form (`array(x, dtype=complex,
      ndmin=1)` + 1-D reshape = `PyArg.asData`, 3-D; `.ndim` of it is 3, of a frequency vector 1).
  R5  `_process_iosys_keywords(kwargs, defaults)` + `InputOutputSystem.__init__(self, name=name,
      inputs=inputs, outputs=outputs, dt=dt, **kwargs)` + the `if smooth:` block that must follow are
      the opaque primitive `PyIOSys.initFrd`.
  R6  a variable read on a path where the source has not assigned it is refused (no dummy value is
      ever observed).
A construct outside the vocabulary raises `Unsupported`: the function is then emitted as
`.error .notImplemented` for every argument (it cannot equal the model; the obligation fails
visibly) and reported as a problem.
"""
import ast
import hashlib
import os

REL = "control/frdata.py"
OUT = "FrdCtor.lean"
TRACKED_KEYS = ("name", "inputs", "outputs", "dt", "smooth")
KEY_KIND = {"name": "str", "inputs": "labels", "outputs": "labels", "dt": "dt"}
SELF_TRACKED = {"omega": "fvec", "frdata": "arr3"}
LTY = {"fvec": "FVec", "arr3": "PArr3 K", "dt": "Dt", "kvec": "PKVec K", "arg": "PyArg K", "bool": "Bool",
       "str": "String", "labels": "List String", "args": "List (PyArg K)", "kw": "PyKw"}
DUMMY = {"fvec": "FVec.ofList []", "arr3": "PArr3.zeros 0 0 0", "dt": "Dt.none", "kvec": "PKVec.ones 0",
         "arg": "PyArg.dt Dt.none", "bool": "false", "str": '""', "labels": "[]"}
ERR = {"TypeError": "notImplemented", "ValueError": "shape", "NotImplementedError": "notImplemented"}
FRD_NAMES = ("FRD", "FrequencyResponseData")


class Unsupported(Exception):
    pass


class Static:
    """a value known at translation time (a Python constant)"""
    def __init__(self, v):
        self.v = v


UNKNOWN = object()


def src_of(src, node):
    return ast.get_source_segment(src, node)


def strlit(s):
    return '"' + s.replace("\\", "\\\\").replace('"', '\\"') + '"'


class Ctor:
    def __init__(self, fn, src):
        self.fn, self.src = fn, src
        if fn.args.vararg is None or fn.args.kwarg is None or fn.args.kwonlyargs or fn.args.defaults \
                or [a.arg for a in fn.args.args] != ["self"]:
            raise Unsupported("signature is not (self, *args, **kwargs)")
        self.va, self.kwn = fn.args.vararg.arg, fn.args.kwarg.arg
        self.n = 0
        self.kinds = {self.va: "args", self.kwn: "kw"}      # python name -> kind
        self.static = {}                                    # python name / 'self.x' -> Static | UNKNOWN
        counts = {}
        for node in ast.walk(fn):
            if isinstance(node, (ast.Assign, ast.AugAssign)):
                tg = node.targets if isinstance(node, ast.Assign) else [node.target]
                for t in tg:
                    for e in (t.elts if isinstance(t, ast.Tuple) else [t]):
                        k = self.target_key(e)
                        if k:
                            counts[k] = counts.get(k, 0) + 1
        self.mut = {k for k, c in counts.items() if c > 1} | {self.va, self.kwn}
        self.mut_kind = {}          # mutable (non-parameter) -> kind at first assignment
        self.rules = set()

    # -- names
    @staticmethod
    def target_key(e):
        if isinstance(e, ast.Name):
            return e.id
        if isinstance(e, ast.Attribute) and isinstance(e.value, ast.Name) and e.value.id == "self":
            return "self." + e.attr
        if isinstance(e, ast.Subscript) and isinstance(e.value, ast.Name):
            return e.value.id
        return None

    @staticmethod
    def lname(key):
        n = key.replace("self.", "self_")
        return n + "'" if n in ("end", "from", "at", "open", "variable", "fun", "show", "have", "match", "E", "K") else n

    def fresh(self):
        self.n += 1
        return "t%d" % self.n

    def bind(self, lines, term, kind):
        t = self.fresh()
        lines.append("let %s ← %s" % (t, term))
        return (kind, t)

    # -- expressions
    def read(self, key, defined):
        if key in self.static:
            v = self.static[key]
            if v is UNKNOWN:
                raise Unsupported("value of %s is not tracked" % key)
            return ("static", v)
        if key not in self.kinds:
            raise Unsupported("unknown name %s" % key)
        if key in self.mut and key not in (self.va, self.kwn) and key not in defined:
            raise Unsupported("%s may be read before it is assigned (R6)" % key)
        return (self.kinds[key], self.lname(key))

    def is_1j(self, node):
        return isinstance(node, ast.Constant) and isinstance(node.value, complex) and node.value == 1j

    def factors(self, node):
        if isinstance(node, ast.BinOp) and isinstance(node.op, ast.Mult):
            return self.factors(node.left) + self.factors(node.right)
        return [node]

    def const_index(self, node):
        if isinstance(node, ast.Constant) and isinstance(node.value, int):
            return node.value
        if isinstance(node, ast.UnaryOp) and isinstance(node.op, ast.USub) and isinstance(node.operand, ast.Constant):
            return -node.operand.value
        raise Unsupported("index " + ast.dump(node))

    def expr(self, node, lines, defined):
        """-> (kind, lean term) | ('static', Static)"""
        if isinstance(node, ast.Constant):
            return ("static", Static(node.value))
        if isinstance(node, ast.Tuple) and all(isinstance(e, ast.Constant) for e in node.elts):
            return ("static", Static(tuple(e.value for e in node.elts)))
        if isinstance(node, ast.Name):
            return self.read(node.id, defined)
        if isinstance(node, ast.Attribute):
            if isinstance(node.value, ast.Name) and node.value.id == "self":
                return self.read("self." + node.attr, defined)
            k, v = self.expr(node.value, lines, defined)
            a = node.attr
            if k == "arg":
                table = {"dt": ("dt_attr", "dt"), "input_labels": ("input_labels", "labels"),
                         "output_labels": ("output_labels", "labels"), "name": ("name", "str"),
                         "omega": ("omega", "fvec"), "frdata": ("frdata", "arr3")}
                if a in table:
                    return self.bind(lines, "PyArg.%s %s" % (table[a][0], v), table[a][1])
            if k == "arr3" and a == "ndim":
                self.rules.add("R4")
                return ("static", Static(3))
            if k == "fvec" and a == "ndim":
                self.rules.add("R4")
                return ("static", Static(1))
            if k == "fvec" and a == "size":
                return ("int", "%s.n" % v)
            if k in ("arr3", "fvec") and a == "shape":
                return ("shape:" + k, v)
            raise Unsupported("attribute .%s of a %s" % (a, k))
        if isinstance(node, ast.Subscript):
            k, v = self.expr(node.value, lines, defined)
            if k == "args":
                if isinstance(node.slice, ast.Slice):
                    s = node.slice
                    if s.lower is None and s.step is None and s.upper is not None and self.const_index(s.upper) == -1:
                        return ("args", "(PyArgs.dropLast %s)" % v)
                    raise Unsupported("slice of args")
                i = self.const_index(node.slice)
                if i >= 0:
                    return self.bind(lines, "PyArgs.get %s %d" % (v, i), "arg")
                if i == -1:
                    return self.bind(lines, "PyArgs.last %s" % v, "arg")
                raise Unsupported("args[%d]" % i)
            if k == "shape:arr3":
                i = self.const_index(node.slice)
                f = {0: "p", 1: "m", 2: "n", -1: "n", -2: "m", -3: "p"}.get(i)
                if f:
                    return ("int", "%s.%s" % (v, f))
            if k == "shape:fvec" and self.const_index(node.slice) in (0, -1):
                return ("int", "%s.n" % v)
            raise Unsupported("subscript of a %s" % k)
        if isinstance(node, ast.BinOp) and isinstance(node.op, ast.Mult):
            fs = self.factors(node)
            js = [f for f in fs if self.is_1j(f)]
            rest = [self.expr(f, lines, defined) for f in fs if not self.is_1j(f)]
            if len(js) == 1 and len(rest) == 1 and rest[0][0] == "fvec":
                return ("kvec", "(FVec.jw E %s)" % rest[0][1])
            raise Unsupported("product " + src_of(self.src, node))
        if isinstance(node, ast.IfExp):
            t = self.test(node.test, lines, defined)
            if t[0] != "static":
                raise Unsupported("conditional expression with a run-time test")
            return self.expr(node.body if t[1].v else node.orelse, lines, defined)
        if isinstance(node, ast.Dict):
            return self.dict_defaults(node, lines, defined)
        if isinstance(node, (ast.Compare, ast.BoolOp)) or (isinstance(node, ast.UnaryOp) and isinstance(node.op, ast.Not)):
            return self.test(node, lines, defined)
        if isinstance(node, ast.Call):
            return self.call(node, lines, defined)
        raise Unsupported("expression " + src_of(self.src, node))

    def dict_defaults(self, node, lines, defined):
        keys = [k.value if isinstance(k, ast.Constant) else None for k in node.keys]
        if sorted(map(str, keys)) != ["inputs", "name", "outputs"]:
            raise Unsupported("dictionary with keys %r" % keys)
        out = {}
        for k, vn in zip(keys, node.values):        # evaluated in source order
            kind, v = self.expr(vn, lines, defined)
            if k == "name":
                if kind == "static" and v.v is None:
                    out[k] = "none"
                elif kind == "str":
                    out[k] = "(some %s)" % v
                else:
                    raise Unsupported("defaults['name'] of kind " + kind)
            else:
                if kind == "int":
                    out[k] = "(PySig.count %s)" % v
                elif kind == "labels":
                    out[k] = "(PySig.labels %s)" % v
                else:
                    raise Unsupported("defaults[%r] of kind %s" % (k, kind))
        return ("defaults", "(PyIODefaults.mk %s %s %s)" % (out["inputs"], out["outputs"], out["name"]))

    def fname(self, f):
        if isinstance(f, ast.Name):
            return f.id
        if isinstance(f, ast.Attribute) and isinstance(f.value, ast.Name) and f.value.id in ("np", "numpy"):
            return f.attr
        return None

    def kwd(self, node, allowed):
        out = {}
        for k in node.keywords:
            if k.arg is None or k.arg not in allowed:
                raise Unsupported("keyword %s in %s" % (k.arg, src_of(self.src, node)))
            out[k.arg] = k.value
        return out

    def call(self, node, lines, defined):
        f = node.func
        fn = self.fname(f)
        if fn == "len" and len(node.args) == 1:
            k, v = self.expr(node.args[0], lines, defined)
            if k == "args":
                return ("int", "%s.length" % v)
            raise Unsupported("len of a " + k)
        if fn == "sort" and len(node.args) == 1 and not node.keywords:
            k, v = self.expr(node.args[0], lines, defined)
            if k == "fvec":
                return ("fvec", "(FVec.sort %s)" % v)
            raise Unsupported("sort of a " + k)
        if fn in ("asarray", "array") and len(node.args) == 1:
            kw = self.kwd(node, ("dtype", "ndmin"))
            dt = kw.get("dtype")
            if not isinstance(dt, ast.Name) or dt.id not in ("float", "complex"):
                raise Unsupported("array without dtype=float|complex")
            if "ndmin" in kw and self.const_index(kw["ndmin"]) != 1:
                raise Unsupported("ndmin")
            k, v = self.expr(node.args[0], lines, defined)
            self.rules.add("R4")
            if dt.id == "float":
                if k == "fvec":
                    return (k, v)
                if k == "arg":
                    return self.bind(lines, "PyArg.asVec %s" % v, "fvec")
            else:
                if k == "arr3":
                    return (k, v)
                if k == "arg":
                    return self.bind(lines, "PyArg.asData %s" % v, "arr3")
            raise Unsupported("array(%s)" % k)
        if fn == "exp" and len(node.args) == 1 and not node.keywords:
            fs = self.factors(node.args[0])
            js = [x for x in fs if self.is_1j(x)]
            rest = [self.expr(x, lines, defined) for x in fs if not self.is_1j(x)]
            ws = [v for k, v in rest if k == "fvec"]
            ds = [v for k, v in rest if k == "dt"]
            if len(js) == 1 and len(rest) == 2 and len(ws) == 1 and len(ds) == 1:
                return self.bind(lines, "FVec.expj E %s %s" % (ws[0], ds[0]), "kvec")
            raise Unsupported("exp of " + src_of(self.src, node.args[0]))
        if fn == "isinstance" and len(node.args) == 2 and isinstance(node.args[1], ast.Name):
            k, v = self.expr(node.args[0], lines, defined)
            if k != "arg":
                raise Unsupported("isinstance of a " + k)
            c = node.args[1].id
            if c in FRD_NAMES:
                return ("bool", "(PyArg.isFRD %s)" % v)
            if c == "LTI":
                return ("bool", "(PyArg.isLTI %s)" % v)
            raise Unsupported("isinstance(…, %s)" % c)
        if fn == "getattr" and len(node.args) == 3 and isinstance(node.args[0], ast.Name) and node.args[0].id == "self" \
                and isinstance(node.args[1], ast.Constant) and isinstance(node.args[2], ast.Constant):
            key = "self." + node.args[1].value
            if key in self.kinds or key in self.static:
                return self.read(key, defined)
            self.rules.add("R3")
            return ("static", Static(node.args[2].value))
        if fn == "_extended_system_name" and len(node.args) == 1:
            kw = self.kwd(node, ("prefix_suffix_name",))
            tag = kw.get("prefix_suffix_name")
            if not (isinstance(tag, ast.Constant) and isinstance(tag.value, str)):
                raise Unsupported("_extended_system_name without a literal prefix_suffix_name")
            k, v = self.expr(node.args[0], lines, defined)
            if k != "str":
                raise Unsupported("_extended_system_name of a " + k)
            return ("str", "(PyName.extended %s %s)" % (v, strlit(tag.value)))
        if fn == "common_timebase" and len(node.args) == 2 and not node.keywords:
            a = self.expr(node.args[0], lines, defined)
            b = self.expr(node.args[1], lines, defined)
            if a[0] == b[0] == "dt":
                return self.bind(lines, "common %s %s" % (a[1], b[1]), "dt")
            raise Unsupported("common_timebase(%s, %s)" % (a[0], b[0]))
        if isinstance(f, ast.Attribute):
            if isinstance(f.value, ast.Name) and f.value.id == self.kwn and f.attr == "get" and len(node.args) == 2 \
                    and isinstance(node.args[0], ast.Constant) and node.args[0].value in KEY_KIND and not node.keywords:
                key = node.args[0].value
                k, v = self.expr(node.args[1], lines, defined)
                kk, kv = self.read(self.kwn, defined)
                if k != KEY_KIND[key]:
                    raise Unsupported("kwargs.get(%r, <%s>)" % (key, k))
                return (k, "(PyKw.get_%s %s %s)" % (key, kv, v))
            k, v = self.expr(f.value, lines, defined)
            if k == "arg" and f.attr == "isctime" and not node.args and not node.keywords:
                return self.bind(lines, "PyArg.isctime %s" % v, "bool")
            if k == "arg" and f.attr == "_generic_name_check" and not node.args and not node.keywords:
                return self.bind(lines, "PyArg.generic_name_check %s" % v, "bool")
            if k == "arr3" and f.attr == "reshape" and [self.const_index(a) for a in node.args] == [1, 1, -1]:
                self.rules.add("R4")
                return (k, v)
            raise Unsupported("method .%s of a %s" % (f.attr, k))
        # calling a system on an array of points
        k, v = self.expr(f, lines, defined)
        if k == "arg" and len(node.args) == 1:
            kw = self.kwd(node, ("squeeze",))
            if not (isinstance(kw.get("squeeze"), ast.Constant) and kw["squeeze"].value is False):
                raise Unsupported("system call without squeeze=False")
            ka, va = self.expr(node.args[0], lines, defined)
            if ka == "kvec":
                return self.bind(lines, "PyArg.call %s %s" % (v, va), "arr3")
        raise Unsupported("call " + src_of(self.src, node))

    # -- tests: -> ('static', Static(bool)) | ('bool', lean Bool term)
    def test(self, node, lines, defined):
        if isinstance(node, ast.UnaryOp) and isinstance(node.op, ast.Not):
            k, v = self.test(node.operand, lines, defined)
            if k == "static":
                return (k, Static(not v.v))
            return ("bool", "(!%s)" % v)
        if isinstance(node, ast.BoolOp):
            is_and = isinstance(node.op, ast.And)
            acc = None          # lean term so far
            for i, part in enumerate(node.values):
                sub = []
                k, v = self.test(part, sub, defined)
                if k == "static":
                    if bool(v.v) != is_and:         # decides the whole junction (later operands not evaluated)
                        if acc is None:
                            return ("static", Static(not is_and))
                        # earlier run-time operands were evaluated; their value no longer matters
                        lines.extend([])
                        return ("bool", "(%s %s %s)" % (acc, "&&" if is_and else "||", "false" if is_and else "true"))
                    lines.extend(sub)
                    continue
                if acc is None:
                    lines.extend(sub)
                    acc = v
                elif not sub:
                    acc = "(%s %s %s)" % (acc, "&&" if is_and else "||", v)
                else:                                   # short circuit around an effectful operand
                    t = self.fresh()
                    lines.append("let %s ← (do" % t)
                    lines.append("  if %s then" % (acc if is_and else "(!%s)" % acc))
                    lines.extend("    " + s for s in sub)
                    lines.append("    pure %s" % v)
                    lines.append("  else")
                    lines.append("    pure %s" % ("false" if is_and else "true"))
                    lines.append("  : Except Err Bool)")
                    acc = t
            if acc is None:
                return ("static", Static(is_and))
            return ("bool", acc)
        if isinstance(node, ast.Compare) and len(node.ops) == 1:
            op, l, r = node.ops[0], node.left, node.comparators[0]
            if isinstance(op, (ast.In, ast.NotIn)) and isinstance(l, ast.Constant) and isinstance(r, ast.Name) \
                    and r.id == self.kwn:
                if l.value != "dt":
                    raise Unsupported("%r in kwargs" % l.value)
                kk, kv = self.read(self.kwn, defined)
                t = "(PyKw.has_dt %s)" % kv
                return ("bool", t if isinstance(op, ast.In) else "(!%s)" % t)
            a = self.expr(l, lines, defined)
            b = self.expr(r, lines, defined)
            if a[0] == "static" and b[0] == "static":
                x, y = a[1].v, b[1].v
                if isinstance(op, ast.Eq):
                    return ("static", Static(x == y))
                if isinstance(op, ast.NotEq):
                    return ("static", Static(x != y))
                if isinstance(op, ast.Is):
                    return ("static", Static(x is y))
                if isinstance(op, ast.IsNot):
                    return ("static", Static(x is not y))
                if isinstance(op, ast.In):
                    return ("static", Static(any(x is e or x == e for e in y)))
                if isinstance(op, ast.NotIn):
                    return ("static", Static(not any(x is e or x == e for e in y)))
                raise Unsupported("comparison")
            if a[0] == "dt" and b[0] == "static" and b[1].v is None and isinstance(op, (ast.Is, ast.IsNot)):
                return ("bool", "(decide (%s %s Dt.none))" % (a[1], "=" if isinstance(op, ast.Is) else "≠"))
            def as_int(x):
                if x[0] == "int":
                    return x[1]
                if x[0] == "static" and isinstance(x[1].v, int) and not isinstance(x[1].v, bool) and x[1].v >= 0:
                    return "%d" % x[1].v
                raise Unsupported("comparison of a %s" % x[0])
            sym = {ast.Eq: "=", ast.NotEq: "≠", ast.Lt: "<", ast.LtE: "≤", ast.Gt: ">", ast.GtE: "≥"}.get(type(op))
            if sym:
                return ("bool", "(decide (%s %s %s))" % (as_int(a), sym, as_int(b)))
            raise Unsupported("comparison " + src_of(self.src, node))
        k, v = self.expr(node, lines, defined)
        if k == "static":
            return (k, Static(bool(v.v)))
        if k == "bool":
            return (k, v)
        raise Unsupported("truth value of a " + k)

    # -- statements
    def assign_to(self, key, kind, term, lines, defined):
        """bind python name `key` to the value (kind, term)"""
        if kind == "static":
            if key in self.mut:
                # a constant assigned to a run-time variable: only `None` as a timebase is needed
                if term.v is None:
                    kind, term = "dt", "Dt.none"
                else:
                    raise Unsupported("constant %r assigned to %s" % (term.v, key))
            else:
                self.static[key] = term
                return
        if kind.startswith("shape:") or kind in ("int", "defaults") and key in self.mut:
            raise Unsupported("assignment of a %s to %s" % (kind, key))
        if key in self.mut:
            if key in (self.va, self.kwn):
                if kind != self.kinds[key]:
                    raise Unsupported("%s re-bound to a %s" % (key, kind))
            else:
                k0 = self.mut_kind.setdefault(key, kind)
                if k0 != kind:
                    raise Unsupported("%s holds a %s and a %s" % (key, k0, kind))
                self.kinds[key] = kind
                defined.add(key)
            lines.append("%s := %s" % (self.lname(key), term))
        else:
            self.kinds[key] = kind
            self.static.pop(key, None)
            lines.append("let %s := %s" % (self.lname(key), term))

    def is_warn_only(self, body):
        return all(isinstance(s, ast.Expr) and isinstance(s.value, ast.Call) and self.fname(s.value.func) == "warn"
                   for s in body)

    def terminates(self, stmts):
        if not stmts:
            return False
        s = stmts[-1]
        if isinstance(s, (ast.Raise, ast.Return)):
            return True
        if isinstance(s, ast.If):
            return bool(s.orelse) and self.terminates(s.body) and self.terminates(s.orelse)
        return False

    def block(self, stmts, defined, top=False):
        """-> lines; `defined` is updated in place.  At top level the block must end in the opaque tail."""
        lines = []
        i = 0
        while i < len(stmts):
            st = stmts[i]
            i += 1
            if isinstance(st, ast.Expr) and isinstance(st.value, ast.Constant) and isinstance(st.value.value, str):
                continue
            if isinstance(st, ast.Raise):
                exc = st.exc
                nm = exc.func.id if isinstance(exc, ast.Call) and isinstance(exc.func, ast.Name) else \
                    (exc.id if isinstance(exc, ast.Name) else None)
                if nm not in ERR:
                    raise Unsupported("raise " + str(nm))
                lines.append("throw Err.%s" % ERR[nm])
                continue
            if isinstance(st, ast.If):
                tl = []
                k, v = self.test(st.test, tl, defined)
                if k == "static":
                    self.rules.add("R2")
                    lines.extend(tl)
                    lines.extend(self.block(st.body if v.v else st.orelse, defined))
                    continue
                if not st.orelse and self.is_warn_only(st.body):
                    self.rules.add("R1")
                    continue
                lines.extend(tl)
                d1, d2 = set(defined), set(defined)
                s1, s2 = dict(self.static), None
                b1 = self.block(st.body, d1)
                st1 = self.static
                self.static = dict(s1)
                b2 = self.block(st.orelse, d2) if st.orelse else []
                if st1 != self.static:
                    raise Unsupported("translation-time constants assigned under a run-time test")
                lines.append("if %s then" % v)
                lines.extend("  " + s for s in (b1 or ["pure ()"]))
                if st.orelse:
                    lines.append("else")
                    lines.extend("  " + s for s in (b2 or ["pure ()"]))
                t1, t2 = self.terminates(st.body), self.terminates(st.orelse)
                new = (d1 if not t1 else None), (d2 if not t2 else None)
                alive = [d for d in new if d is not None]
                merged = set.intersection(*alive) if alive else set(d1) | set(d2)
                defined.clear()
                defined.update(merged)
                continue
            if isinstance(st, ast.Assign) and len(st.targets) == 1:
                tg = st.targets[0]
                # the opaque tail (R5)
                if isinstance(tg, ast.Tuple):
                    if not top:
                        raise Unsupported("tuple assignment")
                    lines.extend(self.tail(st, stmts[i:], defined))
                    return lines
                # kwargs['k'] = v
                if isinstance(tg, ast.Subscript):
                    if not (isinstance(tg.value, ast.Name) and tg.value.id == self.kwn
                            and isinstance(tg.slice, ast.Constant) and tg.slice.value in KEY_KIND):
                        raise Unsupported("assignment to " + src_of(self.src, tg))
                    key = tg.slice.value
                    k, v = self.expr(st.value, lines, defined)
                    if k == "static" and v.v is None and key == "dt":
                        k, v = "dt", "Dt.none"
                    if k == "arg" and key == "dt":
                        k, v = self.bind(lines, "PyArg.asDt %s" % v, "dt")
                    if k != KEY_KIND[key]:
                        raise Unsupported("kwargs[%r] = <%s>" % (key, k))
                    kk, kv = self.read(self.kwn, defined)
                    lines.append("%s := PyKw.set_%s %s %s" % (kv, key, kv, v))
                    continue
                key = self.target_key(tg)
                if key is None:
                    raise Unsupported("assignment to " + src_of(self.src, tg))
                # X = kwargs.pop('k', c)
                val = st.value
                if isinstance(val, ast.Call) and isinstance(val.func, ast.Attribute) and val.func.attr == "pop" \
                        and isinstance(val.func.value, ast.Name) and val.func.value.id == self.kwn:
                    if not (1 <= len(val.args) <= 2 and isinstance(val.args[0], ast.Constant)):
                        raise Unsupported(src_of(self.src, val))
                    k0 = val.args[0].value
                    if k0 == "smooth":
                        d = val.args[1] if len(val.args) == 2 else None
                        if not (isinstance(d, ast.Constant) and isinstance(d.value, bool)):
                            raise Unsupported("kwargs.pop('smooth') without a Boolean default")
                        kk, kv = self.read(self.kwn, defined)
                        self.assign_to(key, "bool", "(PyKw.pop_smooth_val %s %s)" % (kv, "true" if d.value else "false"),
                                       lines, defined)
                        lines.append("%s := PyKw.pop_smooth_rest %s" % (kv, kv))
                        continue
                    if k0 in TRACKED_KEYS:
                        raise Unsupported("kwargs.pop(%r)" % k0)
                    self.rules.add("R2")
                    d = val.args[1] if len(val.args) == 2 else None
                    if key in self.mut or key in SELF_TRACKED:
                        raise Unsupported("untracked keyword stored in " + key)
                    self.static[key] = Static(d.value) if isinstance(d, ast.Constant) else UNKNOWN
                    continue
                if key.startswith("self.") and key[5:] not in SELF_TRACKED:
                    k, v = self.expr(val, lines, defined)
                    if k != "static":
                        raise Unsupported("attribute %s is not tracked" % key)
                    self.static[key] = v
                    continue
                k, v = self.expr(val, lines, defined)
                if key.startswith("self.") and k != SELF_TRACKED[key[5:]]:
                    raise Unsupported("%s = <%s>" % (key, k))
                self.assign_to(key, k, v, lines, defined)
                continue
            if isinstance(st, ast.Expr) and isinstance(st.value, ast.Call) and self.fname(st.value.func) == "warn":
                self.rules.add("R1")
                continue
            raise Unsupported("statement " + (src_of(self.src, st) or "").split("\n")[0])
        if top:
            raise Unsupported("the constructor does not end in _process_iosys_keywords / InputOutputSystem.__init__")
        return lines

    def tail(self, st, rest, defined):
        names = [e.id if isinstance(e, ast.Name) else None for e in st.targets[0].elts]
        c = st.value
        if not (isinstance(c, ast.Call) and self.fname(c.func) == "_process_iosys_keywords" and len(names) == 5
                and None not in names and len(c.args) == 2 and not c.keywords):
            raise Unsupported("tuple assignment " + src_of(self.src, st))
        lines = []
        a0 = self.expr(c.args[0], lines, defined)
        a1 = self.expr(c.args[1], lines, defined)
        if a0[0] != "kw" or a1[0] != "defaults":
            raise Unsupported("_process_iosys_keywords(<%s>, <%s>)" % (a0[0], a1[0]))
        n_name, n_in, n_out, _n_states, n_dt = names
        if len(rest) < 2:
            raise Unsupported("nothing after _process_iosys_keywords")
        s2 = rest[0]
        ok = isinstance(s2, ast.Expr) and isinstance(s2.value, ast.Call) \
            and src_of(self.src, s2.value.func) == "InputOutputSystem.__init__" \
            and len(s2.value.args) == 1 and isinstance(s2.value.args[0], ast.Name) and s2.value.args[0].id == "self"
        if ok:
            kws = {}
            star = None
            for k in s2.value.keywords:
                if k.arg is None:
                    star = k.value
                else:
                    kws[k.arg] = k.value.id if isinstance(k.value, ast.Name) else None
            ok = kws == {"name": n_name, "inputs": n_in, "outputs": n_out, "dt": n_dt} \
                and isinstance(star, ast.Name) and star.id == self.kwn
        if not ok:
            raise Unsupported("InputOutputSystem.__init__(self, name=name, inputs=inputs, outputs=outputs, dt=dt, "
                              "**kwargs) expected after _process_iosys_keywords")
        s3 = rest[1]
        if not (isinstance(s3, ast.If) and isinstance(s3.test, ast.Name)):
            raise Unsupported("`if smooth:` expected after InputOutputSystem.__init__")
        sm = self.read(s3.test.id, defined)
        if sm[0] != "bool":
            raise Unsupported("smooth is a " + sm[0])
        om = self.read("self.omega", defined)
        fr = self.read("self.frdata", defined)
        self.rules.add("R5")
        lines.append("PyIOSys.initFrd %s %s %s %s %s" % (om[1], fr[1], a0[1], a1[1], sm[1]))
        return lines

    def translate(self):
        defined = set()
        body = self.block(self.fn.body, defined, top=True)
        head = ["let mut %s := %s" % (self.lname(self.va), self.lname(self.va)),
                "let mut %s := %s" % (self.lname(self.kwn), self.lname(self.kwn))]
        for key in sorted(self.mut_kind):
            k = self.mut_kind[key]
            head.append("let mut %s : %s := %s" % (self.lname(key), LTY[k], DUMMY[k]))
        return head + body


def find(module, cls, name):
    for node in module.body:
        if cls is None and isinstance(node, ast.FunctionDef) and node.name == name:
            return node
        if cls is not None and isinstance(node, ast.ClassDef) and node.name == cls:
            for n in node.body:
                if isinstance(n, ast.FunctionDef) and n.name == name:
                    return n
    return None


def fn_text(src, fn):
    """the function text without its docstring (a changed comment or docstring changes nothing)"""
    return ast.unparse(ast.Module(body=[strip_doc(fn)], type_ignores=[]))


def strip_doc(fn):
    import copy
    f = copy.deepcopy(fn)
    if f.body and isinstance(f.body[0], ast.Expr) and isinstance(f.body[0].value, ast.Constant) \
            and isinstance(f.body[0].value.value, str):
        f.body = f.body[1:] or [ast.Pass()]
    return f


def translate_ctor(src, module):
    fn = find(module, "FrequencyResponseData", "__init__")
    if fn is None:
        raise Unsupported("FrequencyResponseData.__init__ not found")
    t = Ctor(fn, src)
    lines = t.translate()
    return fn, lines, sorted(t.rules)


def translate_factory(src, module):
    fn = find(module, None, "frd")
    if fn is None:
        raise Unsupported("frd not found")
    a = fn.args
    if a.vararg is None or a.kwarg is None or a.args or a.kwonlyargs:
        raise Unsupported("signature is not (*args, **kwargs)")
    body = strip_doc(fn).body
    if len(body) != 1 or not isinstance(body[0], ast.Return) or not isinstance(body[0].value, ast.Call):
        raise Unsupported("body is not a single return of a call")
    c = body[0].value
    ok = isinstance(c.func, ast.Name) and c.func.id in FRD_NAMES and len(c.args) == 1 \
        and isinstance(c.args[0], ast.Starred) and isinstance(c.args[0].value, ast.Name) \
        and c.args[0].value.id == a.vararg.arg and len(c.keywords) == 1 and c.keywords[0].arg is None \
        and isinstance(c.keywords[0].value, ast.Name) and c.keywords[0].value.id == a.kwarg.arg
    if not ok:
        raise Unsupported("not `return FrequencyResponseData(*args, **kwargs)`: " + ast.unparse(c))
    return fn, ["frdCtor E %s %s" % (Ctor.lname(a.vararg.arg), Ctor.lname(a.kwarg.arg))], \
        (Ctor.lname(a.vararg.arg), Ctor.lname(a.kwarg.arg))


def sha(text):
    return hashlib.sha256(text.encode()).hexdigest()


def regenerate(repo, lean_dir):
    """Rewrite Generated/FrdCtor.lean; returns (list of problems, info dict)."""
    problems, info = [], {}
    gen_dir = os.path.join(lean_dir, "CtrlVerif", "Generated")
    os.makedirs(gen_dir, exist_ok=True)
    src = module = None
    load_error = None
    try:
        src = open(os.path.join(repo, REL)).read()
        module = ast.parse(src)
    except (OSError, SyntaxError) as e:
        load_error = str(e)
    parts, shas = [], []

    def failed(where, lean, msg):
        msg = msg.replace("\n", " ").replace("-/", "- /")[:300]
        problems.append("py2lean_frdctor: %s cannot be translated: %s" % (where, msg))
        shas.append("%s FAILED" % where.split(":")[-1])
        parts.append("/-- translation of `%s` FAILED: %s -/\ndef %s (_E : Env K) (_args : List (PyArg K)) (_kwargs : PyKw) : "
                     "Except Err (PyFrdObj K) :=\n  .error Err.notImplemented\n" % (where, msg, lean))

    # 1. the constructor
    where = REL + ":FrequencyResponseData.__init__"
    try:
        if load_error:
            raise Unsupported(load_error)
        fn, lines, rules = translate_ctor(src, module)
        h = sha(fn_text(src, fn))
        info["__init__"] = {"sha": h, "rules": rules}
        shas.append("__init__ %s" % h[:16])
        t = Ctor(fn, src)
        parts.append("/-- `control/frdata.py:FrequencyResponseData.__init__` as the source text says it (sha256 of the\n"
                     "function text without docstring %s).\nReading rules used: %s (harness/core/py2lean_frdctor.py). -/\n"
                     "def frdCtor (E : Env K) (%s : List (PyArg K)) (%s : PyKw) : Except Err (PyFrdObj K) := do\n"
                     % (h, ", ".join(rules), t.lname(t.va), t.lname(t.kwn))
                     + "".join("  " + s + "\n" for s in lines))
    except Unsupported as e:
        failed(where, "frdCtor", str(e))
    # 2. the factory
    where = REL + ":frd"
    try:
        if load_error:
            raise Unsupported(load_error)
        fn, lines, (va, kwn) = translate_factory(src, module)
        h = sha(fn_text(src, fn))
        info["frd"] = {"sha": h}
        shas.append("frd %s" % h[:16])
        parts.append("/-- `control/frdata.py:frd` as the source text says it (sha256 of the function text without\n"
                     "docstring %s). -/\n"
                     "def frd (E : Env K) (%s : List (PyArg K)) (%s : PyKw) : Except Err (PyFrdObj K) :=\n" % (h, va, kwn)
                     + "".join("  " + s + "\n" for s in lines))
    except Unsupported as e:
        failed(where, "frd", str(e))
    text = ("-- GENERATED on every run by harness/core/py2lean_frdctor.py from control/frdata.py (%s).  Do not edit.\n"
            % ", ".join(shas)
            + "import CtrlVerif.Model.PyFrdCtor\n\nnamespace CtrlVerif.Generated\n\nopen CtrlVerif\n\n"
            + "variable {K : Type} [Field K] [DecidableEq K]\n\n" + "\n".join(parts) + "\nend CtrlVerif.Generated\n")
    p = os.path.join(gen_dir, OUT)
    old = open(p).read() if os.path.exists(p) else None
    if old != text:
        with open(p, "w") as f:
            f.write(text)
    return problems, info


if __name__ == "__main__":
    import sys
    probs, inf = regenerate(sys.argv[1], sys.argv[2])
    for p in probs:
        print("PROBLEM", p)
    for k, v in inf.items():
        print(k, v["sha"][:16], v.get("rules", ""))
