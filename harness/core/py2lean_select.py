"""Second source-text translator (DESIGN §2.5 / §10.3): Python `ast` -> Lean 4 for PURE-PYTHON
SELECTOR / DISPATCH / CONFIGURATION functions of python-control.  The Lean model of these
functions is regenerated from /repo's source text on every run (`Family.pre_build`), and
`Props/*Gen.lean` / `Props/C05Pred.lean` prove the hand-written model EQUAL to the generated
function; a semantic edit of the source breaks that proof obligation, an edit that leaves the
supported subset makes the translation fail (a stub that cannot equal the model is emitted).

Values.  Every Python expression gets a static type
    V  dynamically typed Python value  (Lean `PyVal`: None, bool, int, str, slice, range, list, tuple, other)
    I  a Python int whose type is known statically (Lean `Int`): literals, `len(...)`, arithmetic
    B  a Python bool known statically (Lean `Bool`): tests, bool parameters
    S  a Python str known statically (Lean `String`): literals, f-strings, `+` of strings
plus the domain types of a job (`Dt`, `SysArg`, `Cfg`, `Shape`, ... see the DOMAINS table).  The
meaning of the primitives on `PyVal` is fixed in `lean/CtrlVerif/Model/PyVal.lean` (hand-written,
trusted, small); everything else in the output is determined by the source text.

Subset (anything else raises `Unsupported`):
  statements  docstring, `pass`, `x = e`, `x += e`, `if/elif/else`, `return e`, `return e1, e2`,
              `raise Cls(...)` (Cls in the exception table), `warnings.warn(...)` (no value: skipped),
              `for k, v in d.items(): body` / `for k in d: body` over a dictionary of the job's
              domain (emitted as a Lean `for`), list comprehensions with one generator (-> `mapM`)
  expressions names, int/str/bool/None constants, f-strings over S, `-e`, `+ - *` on ints, `+` on
              strings, comparisons `< <= > >= == !=` on ints, `==`/`!=` on strings, `is (not) None`,
              `not/and/or` (short-circuit kept when the right operand can raise), `a if c else b`,
              `isinstance(x, C | (C, ...))`, `len(x)`, `x[k]`, `x[a:b:c]`, `slice(a, b, c)`,
              `range(n)`, `x.index(y)`, tuples in `return`, and the calls / attributes a domain adds.
Generated code is Lean `do` notation in `Except Err`; a Python exception class is mapped to the
shared `Err` enum by EXC (the same map the correspondence families use)."""
import ast
import hashlib
import os

from .py2lean import Unsupported

# Python exception class -> Err constructor (message prefix refines ValueError)
EXC = {"TypeError": "badArg", "IndexError": "indexRange", "ValueError": "badArg",
       "KeyError": "unknownName", "ControlDimension": "shape", "ControlArgument": "badArg",
       "ControlIndexError": "indexRange"}
# class -> classes an `except <class>` also catches (only what the table above names)
SUBCLASSES = {"IndexError": ["ControlIndexError"], "ValueError": ["ControlDimension", "ControlArgument"],
              "Exception": list(EXC)}
EXC_MSG = [("ValueError", "unknown signal name", "unknownName")]

PYCLS = {"int": ".int", "bool": ".bool", "str": ".str", "slice": ".slice", "range": ".range",
         "list": ".list", "tuple": ".tuple"}


class E:
    """a translated expression: Lean code (may contain `(← …)`), static type, can-raise flag"""

    def __init__(self, code, ty, mon=False):
        self.code, self.ty, self.mon = code, ty, mon


def _paren(code):
    c = code.strip()
    if c.startswith("(") and c.endswith(")"):
        depth = 0
        for k, ch in enumerate(c):
            depth += ch == "("
            depth -= ch == ")"
            if depth == 0 and k < len(c) - 1:
                break
        else:
            return c
    if all(ch.isalnum() or ch in "_.'" for ch in c):
        return c
    return "(" + c + ")"


def _lean_str(s):
    out = []
    for ch in s:
        if ch == '"' or ch == "\\":
            out.append("\\" + ch)
        elif ch == "\n":
            out.append("\\n")
        elif 32 <= ord(ch) < 127:
            out.append(ch)
        else:
            raise Unsupported("non-ASCII string constant")
    return '"' + "".join(out) + '"'


class Domain:
    """hooks a job adds to the core translator; each returns None when it does not apply"""
    lean_types = {}          # type tag -> Lean type

    def call(self, tr, node):
        return None

    def attribute(self, tr, node):
        return None

    def subscript(self, tr, node):
        return None

    def compare(self, tr, op, lhs, rhs, node):
        return None

    def truth(self, tr, e):
        return None

    def for_loop(self, tr, node, indent):
        return None

    def assign_target(self, tr, node, value, indent):
        return None

    def expr_stmt(self, tr, node, indent):
        return None

    def other_stmt(self, tr, node, indent):
        return None

    def facts(self, tr, test, body):
        return set()


LEAN_TY = {"V": "PyVal", "I": "Int", "B": "Bool", "S": "String", "U": "Unit"}


class Tr:
    """translation of one function body"""

    def __init__(self, params, ret, domain=None, lean_types=None, exc=None):
        self.params = params                 # [(name, type)]
        self.ret = ret                       # type tag or tuple of type tags
        self.domain = domain or Domain()
        self.types = dict(LEAN_TY)
        self.types.update(self.domain.lean_types)
        self.types.update(lean_types or {})
        self.exc = dict(EXC)
        self.exc.update(exc or {})
        self.scopes = [dict(params)]         # name -> type
        self.mutated = set()
        self.tmp = 0
        self.notes = []
        self.facts = []                      # facts known inside the branch being translated
        self.tables = []                     # module tables a function reads (C19)
        self.raises = set()                  # (Python exception class, Err kind) the code emitted so far can raise
        self.pending_try = []                # try statements whose handlers are checked at the end
        self.msg_only = set()                # names that are read only inside `raise` messages

    # ---- environment ---------------------------------------------------------------------
    def lookup(self, name):
        for sc in reversed(self.scopes):
            if name in sc:
                return sc[name]
        return None

    def lean_ty(self, ty):
        if isinstance(ty, tuple):
            return "(" + " × ".join(self.lean_ty(t) for t in ty) + ")"
        if ty not in self.types:
            raise Unsupported("type %s" % ty)
        return self.types[ty]

    # ---- coercions ---------------------------------------------------------------------------
    def to(self, e, ty):
        if e.ty == ty:
            return e
        if ty == "V":
            if e.ty == "I":
                return E("PyVal.int %s" % _paren(e.code), "V", e.mon)
            if e.ty == "B":
                return E("PyVal.bool %s" % _paren(e.code), "V", e.mon)
            if e.ty == "S":
                return E("PyVal.str %s" % _paren(e.code), "V", e.mon)
        if ty == "I" and e.ty == "V":
            self.raises.add(("TypeError", "badArg"))
            return E("(← Py.toInt %s)" % _paren(e.code), "I", True)
        if ty == "S" and e.ty == "V":
            self.raises.add(("TypeError", "badArg"))
            return E("(← Py.toStr %s)" % _paren(e.code), "S", True)
        if ty == "B":
            return self.truth(e)
        r = getattr(self.domain, "coerce", lambda tr, e, ty: None)(self, e, ty)
        if r is not None:
            return r
        raise Unsupported("cannot use a value of type %s as %s: %s" % (e.ty, ty, e.code[:60]))

    def truth(self, e):
        if e.ty == "B":
            return e
        r = self.domain.truth(self, e)
        if r is not None:
            return r
        raise Unsupported("truth value of a %s: %s" % (e.ty, e.code[:60]))

    def join(self, a, b):
        """common type of the two arms of a conditional expression"""
        if a.ty == b.ty:
            return a, b
        return self.to(a, "V"), self.to(b, "V")

    # ---- expressions -----------------------------------------------------------------------------
    def expr(self, node):
        if isinstance(node, ast.Constant):
            v = node.value
            if v is None:
                return E("PyVal.none", "V")
            if v is True or v is False:
                return E("true" if v else "false", "B")
            if type(v) is int:
                return E("(%d : Int)" % v, "I")
            if type(v) is str:
                return E(_lean_str(v), "S")
            raise Unsupported("constant %r" % (v,))
        if isinstance(node, ast.Name):
            ty = self.lookup(node.id)
            if ty is None:
                r = getattr(self.domain, "name", lambda tr, n: None)(self, node)
                if r is not None:
                    return r
                raise Unsupported("name %s is not a parameter or an assigned local" % node.id)
            return E(node.id, ty)
        if isinstance(node, ast.JoinedStr):
            parts = []
            mon = False
            for v in node.values:
                if isinstance(v, ast.Constant) and isinstance(v.value, str):
                    parts.append(_lean_str(v.value))
                elif isinstance(v, ast.FormattedValue) and v.conversion == -1 and v.format_spec is None:
                    e = self.to(self.expr(v.value), "S")
                    mon = mon or e.mon
                    parts.append(_paren(e.code))
                else:
                    raise Unsupported("f-string part %s" % ast.dump(v)[:60])
            return E("(" + " ++ ".join(parts) + ")", "S", mon)
        if isinstance(node, ast.NamedExpr) and isinstance(node.target, ast.Name):
            if node.target.id in self.msg_only:
                self.notes.append("`%s := …` only feeds an error message: the binding is dropped" % node.target.id)
                return self.expr(node.value)
            raise Unsupported("assignment expression to %s" % node.target.id)
        if isinstance(node, ast.UnaryOp) and isinstance(node.op, ast.USub):
            e = self.to(self.expr(node.operand), "I")
            return E("(-%s)" % _paren(e.code), "I", e.mon)
        if isinstance(node, ast.UnaryOp) and isinstance(node.op, ast.Not):
            e = self.test(node.operand)
            return E("(!%s)" % _paren(e.code), "B", e.mon)
        if isinstance(node, ast.BinOp):
            a, b = self.expr(node.left), self.expr(node.right)
            if isinstance(node.op, ast.Add) and a.ty == "S" and b.ty == "S":
                return E("(%s ++ %s)" % (_paren(a.code), _paren(b.code)), "S", a.mon or b.mon)
            sym = {ast.Add: "+", ast.Sub: "-", ast.Mult: "*"}.get(type(node.op))
            if sym and a.ty in ("I", "V") and b.ty in ("I", "V"):
                a, b = self.to(a, "I"), self.to(b, "I")
                return E("(%s %s %s)" % (_paren(a.code), sym, _paren(b.code)), "I", a.mon or b.mon)
            raise Unsupported("operator %s on %s, %s" % (type(node.op).__name__, a.ty, b.ty))
        if isinstance(node, ast.BoolOp):
            return self.boolop(node)
        if isinstance(node, ast.Compare):
            return self.compare(node)
        if isinstance(node, ast.IfExp):
            c = self.test(node.test)
            a, b = self.join(self.expr(node.body), self.expr(node.orelse))
            if a.mon or b.mon:
                return E("(← (do if %s then pure %s else pure %s))" % (c.code, _paren(a.code), _paren(b.code)),
                         a.ty, True)
            return E("(if %s then %s else %s)" % (c.code, a.code, b.code), a.ty, c.mon)
        if isinstance(node, ast.Call):
            return self.call(node)
        if isinstance(node, ast.Subscript):
            r = self.domain.subscript(self, node)
            if r is not None:
                return r
            base = self.to(self.expr(node.value), "V")
            raw = None if isinstance(node.slice, ast.Slice) else self.expr(node.slice)
            key = self.slice_key(node.slice) if raw is None else self.to(raw, "V")
            self.raises |= {("IndexError", "indexRange"), ("TypeError", "badArg")}
            if (raw is None and node.slice.step is not None) or (raw is not None and raw.ty == "V"):
                self.raises.add(("ValueError", "badArg"))        # a slice whose step may be zero
            return E("(← Py.getitem %s %s)" % (_paren(base.code), _paren(key.code)), "V", True)
        if isinstance(node, ast.Attribute):
            r = self.domain.attribute(self, node)
            if r is not None:
                return r
            raise Unsupported("attribute %s" % ast.unparse(node)[:60])
        if isinstance(node, ast.ListComp):
            return self.listcomp(node)
        if isinstance(node, ast.Tuple):          # a Python tuple value (a `return a, b` is handled in `block`)
            es = [self.to(self.expr(x), "V") for x in node.elts]
            return E("PyVal.tuple [" + ", ".join(e.code for e in es) + "]", "V", any(e.mon for e in es))
        if isinstance(node, ast.List):
            es = [self.to(self.expr(x), "V") for x in node.elts]
            return E("PyVal.list [" + ", ".join(e.code for e in es) + "]", "V", any(e.mon for e in es))
        raise Unsupported("expression %s" % ast.unparse(node)[:80])

    def slice_key(self, node):
        if isinstance(node, ast.Slice):
            parts = [self.to(self.expr(p), "V") if p is not None else E("PyVal.none", "V")
                     for p in (node.lower, node.upper, node.step)]
            self.raises.add(("TypeError", "badArg"))
            return E("(← Py.mkSlice %s)" % " ".join(_paren(p.code) for p in parts), "V", True)
        return self.to(self.expr(node), "V")

    def listcomp(self, node):
        if len(node.generators) != 1:
            raise Unsupported("comprehension with several generators")
        g = node.generators[0]
        if g.ifs or g.is_async or not isinstance(g.target, ast.Name):
            raise Unsupported("comprehension %s" % ast.unparse(node)[:60])
        it = self.to(self.expr(g.iter), "V")
        self.raises.add(("TypeError", "badArg"))
        self.scopes.append({g.target.id: "V"})
        try:
            elt = self.to(self.expr(node.elt), "V")
        finally:
            self.scopes.pop()
        return E("PyVal.list (← (← Py.iter %s).mapM (fun %s => (do pure %s : Except Err PyVal)))"
                 % (_paren(it.code), g.target.id, _paren(elt.code)), "V", True)

    def test(self, node):
        return self.truth(self.expr(node))

    def boolop(self, node):
        es = [self.test(v) for v in node.values]
        is_and = isinstance(node.op, ast.And)
        # fold from the right; an operand that can raise must not be evaluated unless reached
        acc = es[-1]
        for e in reversed(es[:-1]):
            if acc.mon:
                if is_and:
                    code = "(← (do if %s then pure %s else pure false))" % (e.code, _paren(acc.code))
                else:
                    code = "(← (do if %s then pure true else pure %s))" % (e.code, _paren(acc.code))
                acc = E(code, "B", True)
            else:
                acc = E("(%s %s %s)" % (_paren(e.code), "&&" if is_and else "||", _paren(acc.code)), "B", e.mon)
        return acc

    def compare(self, node):
        if len(node.ops) != 1:
            raise Unsupported("chained comparison")
        op, ln, rn = node.ops[0], node.left, node.comparators[0]
        if isinstance(op, (ast.Is, ast.IsNot)):
            if not (isinstance(rn, ast.Constant) and rn.value is None):
                raise Unsupported("`is` against %s" % ast.unparse(rn)[:40])
            a = self.expr(ln)
            r = self.domain.compare(self, op, a, None, node)
            if r is None:
                if a.ty != "V":
                    raise Unsupported("`is None` on a %s" % a.ty)
                r = E("Py.isNone %s" % _paren(a.code), "B", a.mon)
            return r if isinstance(op, ast.Is) else E("(!%s)" % _paren(r.code), "B", r.mon)
        a, b = self.expr(ln), self.expr(rn)
        r = self.domain.compare(self, op, a, b, node)
        if r is not None:
            return r
        if isinstance(op, (ast.Eq, ast.NotEq)):
            if a.ty == "V" and b.ty == "V":
                self.raises.add(("<unknown>", "notImplemented"))
                e = "(← Py.ne %s %s)" % (_paren(a.code), _paren(b.code))
                return E(e if isinstance(op, ast.NotEq) else "(!%s)" % e, "B", True)
            if a.ty == b.ty and a.ty in ("I", "S", "B"):
                sym = "=" if isinstance(op, ast.Eq) else "≠"
                return E("decide (%s %s %s)" % (_paren(a.code), sym, _paren(b.code)), "B", a.mon or b.mon)
            raise Unsupported("== between %s and %s" % (a.ty, b.ty))
        sym = {ast.Lt: "<", ast.LtE: "≤", ast.Gt: ">", ast.GtE: "≥"}.get(type(op))
        if sym and a.ty in ("I", "V") and b.ty in ("I", "V"):
            a, b = self.to(a, "I"), self.to(b, "I")
            return E("decide (%s %s %s)" % (_paren(a.code), sym, _paren(b.code)), "B", a.mon or b.mon)
        raise Unsupported("comparison %s" % ast.unparse(node)[:80])

    def call(self, node):
        r = self.domain.call(self, node)
        if r is not None:
            return r
        f = node.func
        if node.keywords:
            raise Unsupported("keyword arguments in %s" % ast.unparse(node)[:60])
        if isinstance(f, ast.Name):
            if f.id == "isinstance" and len(node.args) == 2:
                x = self.expr(node.args[0])
                if x.ty != "V":
                    raise Unsupported("isinstance on a %s" % x.ty)
                cl = node.args[1]
                names = [cl] if isinstance(cl, ast.Name) else list(cl.elts) if isinstance(cl, ast.Tuple) else None
                if names is None or not all(isinstance(n, ast.Name) and n.id in PYCLS for n in names):
                    raise Unsupported("isinstance against %s" % ast.unparse(cl)[:60])
                return E("Py.isinstance %s [%s]" % (_paren(x.code), ", ".join(PYCLS[n.id] for n in names)),
                         "B", x.mon)
            if f.id == "len" and len(node.args) == 1:
                x = self.to(self.expr(node.args[0]), "V")
                self.raises.add(("TypeError", "badArg"))
                return E("(← Py.len %s)" % _paren(x.code), "I", True)
            if f.id == "slice" and 1 <= len(node.args) <= 3:
                a = [self.to(self.expr(x), "V") for x in node.args]
                none = E("PyVal.none", "V")
                a = [none, a[0], none] if len(a) == 1 else a + [none] * (3 - len(a))
                self.raises.add(("TypeError", "badArg"))
                return E("(← Py.mkSlice %s)" % " ".join(_paren(x.code) for x in a), "V", True)
            if f.id == "range" and len(node.args) == 1:
                n = self.to(self.expr(node.args[0]), "I")
                return E("Py.range1 %s" % _paren(n.code), "V", n.mon)
            if f.id == "range" and len(node.args) == 2:
                a, b = [self.to(self.expr(x), "I") for x in node.args]
                return E("PyVal.range %s %s 1" % (_paren(a.code), _paren(b.code)), "V", a.mon or b.mon)
            if f.id == "tuple" and len(node.args) == 1:
                x = self.to(self.expr(node.args[0]), "V")
                self.raises.add(("TypeError", "badArg"))
                return E("(← Py.tupleOf %s)" % _paren(x.code), "V", True)
        if isinstance(f, ast.Attribute) and f.attr == "index" and len(node.args) == 1:
            xs = self.to(self.expr(f.value), "V")
            y = self.to(self.expr(node.args[0]), "V")
            self.raises |= {("ValueError", "unknownName"), ("TypeError", "badArg")}
            return E("(← Py.indexStr %s %s)" % (_paren(xs.code), _paren(y.code)), "I", True)
        raise Unsupported("call %s" % ast.unparse(node)[:80])

    # ---- statements -----------------------------------------------------------------------------------
    def raise_(self, s):
        e = s.exc
        if isinstance(e, ast.Name) and e.id in self.exc:           # `raise Cls`
            self.raises.add((e.id, self.exc[e.id]))
            return "throw Err.%s" % self.exc[e.id]
        if isinstance(e, ast.Call) and isinstance(e.func, ast.Name) and e.func.id in self.exc:
            kind = self.exc[e.func.id]
            if e.args:
                a0 = e.args[0]
                text = None
                if isinstance(a0, ast.Constant) and isinstance(a0.value, str):
                    text = a0.value
                elif isinstance(a0, ast.JoinedStr) and a0.values and isinstance(a0.values[0], ast.Constant):
                    text = a0.values[0].value
                for cls, prefix, k in EXC_MSG:
                    if cls == e.func.id and text is not None and text.startswith(prefix):
                        kind = k
            self.raises.add((e.func.id, kind))
            return "throw Err.%s" % kind
        raise Unsupported("raise %s" % ast.unparse(s)[:60])

    def assign(self, name, e, pad):
        ty = self.lookup(name)
        if ty is None:
            self.scopes[-1][name] = e.ty
            if isinstance(e.ty, tuple):
                raise Unsupported("tuple assigned to %s" % name)
            return pad + "let mut %s := %s" % (name, e.code)
        e = self.to(e, ty)
        if name in dict(self.params):
            self.mutated.add(name)
        return pad + "%s := %s" % (name, e.code)

    def block(self, stmts, indent):
        pad = "  " * indent
        out = []
        for s in stmts:
            if isinstance(s, ast.Expr) and isinstance(s.value, ast.Constant) and isinstance(s.value.value, str):
                continue
            if isinstance(s, ast.Pass):
                out.append(pad + "pure ()")
            elif isinstance(s, ast.Assign) and len(s.targets) == 1 and isinstance(s.targets[0], ast.Name):
                out.append(self.assign(s.targets[0].id, self.expr(s.value), pad))
            elif isinstance(s, ast.Assign) and len(s.targets) == 1:
                r = self.domain.assign_target(self, s.targets[0], s.value, indent)
                if r is None:
                    raise Unsupported("assignment target %s" % ast.unparse(s.targets[0])[:60])
                out.append(r)
            elif isinstance(s, ast.AugAssign) and isinstance(s.target, ast.Name):
                v = ast.BinOp(left=ast.Name(id=s.target.id, ctx=ast.Load()), op=s.op, right=s.value)
                out.append(self.assign(s.target.id, self.expr(v), pad))
            elif isinstance(s, ast.If):
                c = self.test(s.test)
                out.extend(self.hoist(s, pad))
                out.append(pad + "if %s then" % c.code)
                self.facts.append(self.domain.facts(self, s.test, s.body))
                try:
                    out.append(self.scoped(s.body, indent + 1))
                finally:
                    self.facts.pop()
                if s.orelse:
                    out.append(pad + "else")
                    out.append(self.scoped(s.orelse, indent + 1))
            elif isinstance(s, ast.Raise):
                out.append(pad + self.raise_(s))
            elif isinstance(s, ast.Return):
                if self.ret == "U" and (s.value is None or (isinstance(s.value, ast.Constant)
                                                            and s.value.value is None)):
                    out.append(pad + "return ()")
                    continue
                if s.value is None:
                    e = E("PyVal.none", "V")
                elif isinstance(self.ret, tuple) and isinstance(s.value, ast.Tuple):
                    es = [self.expr(x) for x in s.value.elts]
                    e = E("(" + ", ".join(x.code for x in es) + ")", tuple(x.ty for x in es), any(x.mon for x in es))
                else:
                    e = self.expr(s.value)
                out.append(pad + "return %s" % self.ret_value(e).code)
            elif isinstance(s, ast.For):
                r = self.domain.for_loop(self, s, indent)
                if r is None:
                    r = self.for_value(s, indent)
                out.append(r)
            elif isinstance(s, ast.Try):
                out.append(self.try_(s, indent))
            elif self.is_append(s):
                x = s.value.func.value.id
                v = self.to(self.expr(s.value.args[0]), "V")
                self.raises.add(("AttributeError", "badArg"))
                out.append(pad + "%s := (← Py.append %s %s)" % (x, x, _paren(v.code)))
            elif isinstance(s, ast.Expr):
                if ast.unparse(s.value).startswith("warnings.warn("):
                    self.notes.append("warnings.warn(...) skipped (no effect on the result)")
                    continue
                r = self.domain.expr_stmt(self, s, indent)
                if r is None:
                    raise Unsupported("statement %s" % ast.unparse(s)[:60])
                out.append(r)
            else:
                r = self.domain.other_stmt(self, s, indent)
                if r is None:
                    raise Unsupported("statement %s" % ast.unparse(s)[:60])
                out.append(r)
        return "\n".join(o for o in out if o)

    def is_append(self, s):
        """`x.append(e)` on a local of dynamic type"""
        return (isinstance(s, ast.Expr) and isinstance(s.value, ast.Call) and isinstance(s.value.func, ast.Attribute)
                and s.value.func.attr == "append" and isinstance(s.value.func.value, ast.Name)
                and self.lookup(s.value.func.value.id) == "V" and len(s.value.args) == 1 and not s.value.keywords)

    def for_value(self, s, indent):
        """`for x in <value>: body`.  `range(...)` iterates over Lean Ints; the idiom
        `for x in it: acc.append(e)` becomes one `mapM` (an exception raised half-way discards the
        local `acc` in Python too)"""
        pad = "  " * indent
        if s.orelse or not isinstance(s.target, ast.Name):
            raise Unsupported("for loop %s" % ast.unparse(s)[:60])
        it = s.iter
        var = s.target.id
        if isinstance(it, ast.Call) and isinstance(it.func, ast.Name) and it.func.id == "range" \
                and len(it.args) in (1, 2) and not it.keywords:
            args = [self.to(self.expr(a), "I") for a in it.args]
            lo, hi = (E("(0 : Int)", "I"), args[0]) if len(args) == 1 else args
            self.scopes.append({var: "I"})
            try:
                body = self.block(s.body, indent + 1)
            finally:
                self.scopes.pop()
            return pad + "for %s in Py.rangeInts %s %s do\n%s" % (var, _paren(lo.code), _paren(hi.code), body)
        src = self.to(self.expr(it), "V")
        self.raises.add(("TypeError", "badArg"))
        if len(s.body) == 1 and self.is_append(s.body[0]) and s.body[0].value.func.value.id != var:
            acc = s.body[0].value.func.value.id
            self.scopes.append({var: "V"})
            try:
                elt = self.to(self.expr(s.body[0].value.args[0]), "V")
            finally:
                self.scopes.pop()
            self.raises.add(("AttributeError", "badArg"))
            return pad + ("%s := (← Py.extend %s (← (← Py.iter %s).mapM (fun %s => (do pure %s : Except Err PyVal))))"
                          % (acc, acc, _paren(src.code), var, _paren(elt.code)))
        self.scopes.append({var: "V"})
        try:
            body = self.block(s.body, indent + 1)
        finally:
            self.scopes.pop()
        return pad + "for %s in (← Py.iter %s) do\n%s" % (var, _paren(src.code), body)

    def try_(self, s, indent):
        """`try: body  except C: raise C'(...)` - translated as `body` after checking (at the end of
        the function) that every exception of class C the body can raise already has the Err kind of
        the handler's `raise` (the handler then only changes the message)"""
        if s.orelse or s.finalbody or not s.handlers:
            raise Unsupported("try statement with else/finally")
        handlers = []
        for h in s.handlers:
            if not (isinstance(h.type, ast.Name) and h.name is None and len(h.body) == 1
                    and isinstance(h.body[0], ast.Raise)):
                raise Unsupported("exception handler %s" % ast.unparse(h)[:60])
            before = set(self.raises)
            kind = self.raise_(h.body[0]).split(".")[-1]
            self.raises = before                      # the handler's raise replaces a raise of the body
            handlers.append((h.type.id, kind))
        before = set(self.raises)
        self.raises = set()
        code = self.block(s.body, indent)
        body_raises = self.raises
        self.raises = before | body_raises | {(c, k) for c, k in [(c, k) for c, k in handlers]}
        self.pending_try.append((handlers, body_raises))
        self.notes.append("try/except %s: the handlers re-raise with another message (same Err kind, checked)"
                          % ", ".join(c for c, _ in handlers))
        return code

    def check_tries(self):
        for handlers, body in self.pending_try:
            full = set(body)
            if ("<rec>", "") in full:
                full |= self.raises
            for cls, kind in handlers:
                caught = [cls] + SUBCLASSES.get(cls, [])
                for c, k in full:
                    if c in caught and k != kind:
                        raise Unsupported("`except %s` re-raises as Err.%s but the body can raise %s as Err.%s"
                                          % (cls, kind, c, k))

    def scoped(self, stmts, indent):
        self.scopes.append({})
        try:
            return self.block(stmts, indent) or ("  " * indent + "pure ()")
        finally:
            self.last_scope = self.scopes.pop()

    DEFAULTS = {"V": "PyVal.none", "I": "0", "B": "false", "S": '""'}

    def hoist(self, s, pad):
        """locals that every branch of the `if` assigns for the first time (and that stay visible
        afterwards in Python) are declared in front of it; the initial value is never read"""
        names = sorted(n for n in definitely_assigned([s])[0] if self.lookup(n) is None)
        if not names:
            return []
        self.scoped(s.body, 0)
        sc1 = self.last_scope
        self.scoped(s.orelse, 0)
        sc2 = self.last_scope
        out = []
        for n in names:
            t1, t2 = sc1.get(n), sc2.get(n)
            ty = t1 if t2 is None or t1 == t2 else t2 if t1 is None else "V"
            dflt = dict(self.DEFAULTS, **getattr(self.domain, "defaults", {})).get(ty)
            if ty is None or dflt is None:
                raise Unsupported("local %s is first assigned inside a branch (type %s)" % (n, ty))
            self.scopes[-1][n] = ty
            out.append(pad + "let mut %s : %s := %s" % (n, self.lean_ty(ty), dflt))
        return out

    def ret_value(self, e):
        if isinstance(self.ret, tuple):
            if not isinstance(e.ty, tuple) or len(e.ty) != len(self.ret):
                raise Unsupported("return value %s, expected a %d-tuple" % (e.code[:40], len(self.ret)))
            if e.ty != self.ret:
                raise Unsupported("return types %s, expected %s" % (e.ty, self.ret))
            return e
        return self.to(e, self.ret)


def definitely_assigned(stmts):
    """(names assigned on every path through `stmts` that reaches its end, no path reaches the end)"""
    names = set()
    for s in stmts:
        if isinstance(s, (ast.Return, ast.Raise)):
            return names, True
        if isinstance(s, ast.Assign) and len(s.targets) == 1 and isinstance(s.targets[0], ast.Name):
            names.add(s.targets[0].id)
        elif isinstance(s, ast.If):
            a, ta = definitely_assigned(s.body)
            b, tb = definitely_assigned(s.orelse)
            if ta and tb:
                return names, True
            names |= b if ta else a if tb else (a & b)
    return names, False


def message_only_names(fn):
    """names bound by an assignment expression `(x := e)` that are read only inside `raise`
    statements (error messages) or as the target of an enclosing `for x in …` loop"""
    bound = {n.target.id for n in ast.walk(fn) if isinstance(n, ast.NamedExpr) and isinstance(n.target, ast.Name)}
    live = set()

    def walk(node, in_raise, loop_targets):
        if isinstance(node, ast.Name) and isinstance(node.ctx, ast.Load) and node.id in bound:
            if not in_raise and node.id not in loop_targets:
                live.add(node.id)
        if isinstance(node, ast.For) and isinstance(node.target, ast.Name):
            walk(node.iter, in_raise, loop_targets)
            inner = loop_targets | {node.target.id}
            for c in node.body:
                if any(isinstance(n, ast.NamedExpr) and isinstance(n.target, ast.Name)
                       and n.target.id == node.target.id for n in ast.walk(c)):
                    live.add(node.target.id)
                walk(c, in_raise, inner)
            for c in node.orelse:
                walk(c, in_raise, loop_targets)
            return
        for c in ast.iter_child_nodes(node):
            walk(c, in_raise or isinstance(node, ast.Raise), loop_targets)

    walk(fn, False, frozenset())
    return bound - live


def terminates(stmts):
    stmts = [s for s in stmts if not (isinstance(s, ast.Expr) and isinstance(s.value, ast.Constant))]
    if not stmts:
        return False
    s = stmts[-1]
    if isinstance(s, (ast.Return, ast.Raise)):
        return True
    if isinstance(s, ast.If):
        return bool(s.orelse) and terminates(s.body) and terminates(s.orelse)
    if isinstance(s, ast.Try):
        return terminates(s.body)
    return False


def find_def(src, qual):
    """top-level function `f` or method `Class.f`"""
    body = ast.parse(src).body
    parts = qual.split(".")
    for p in parts[:-1]:
        for node in body:
            if isinstance(node, ast.ClassDef) and node.name == p:
                body = node.body
                break
        else:
            raise Unsupported("class %s not found" % p)
    found = [n for n in body if isinstance(n, ast.FunctionDef) and n.name == parts[-1]]
    if len(found) != 1:
        raise Unsupported("definition %s not found (or defined %d times)" % (qual, len(found)))
    return found[0]


def check_signature(fn, params, defaults, kwargs=None):
    a = fn.args
    if a.vararg or a.kwonlyargs or a.posonlyargs or (a.kwarg.arg if a.kwarg else None) != kwargs:
        raise Unsupported("signature of %s" % fn.name)
    got = [x.arg for x in a.args] + ([kwargs] if kwargs else [])
    if got != params:
        raise Unsupported("parameters %s, expected %s" % (got, params))
    dflt = {}
    for name, d in zip(got[len(got) - len(a.defaults):], a.defaults):
        if not isinstance(d, ast.Constant):
            raise Unsupported("default value of %s" % name)
        dflt[name] = d.value
    if {k: repr(v) for k, v in dflt.items()} != {k: repr(v) for k, v in defaults.items()}:
        raise Unsupported("default values %r, expected %r" % (dflt, defaults))


class Job:
    """one function to translate"""

    def __init__(self, rel, qual, lean, params, ret, defaults=None, domain=None, doc="", skip_self=False,
                 binders=None, stub="throw Err.notImplemented", lean_types=None, exc=None, monad="Except Err",
                 hidden=(), kwargs=None, fuel=False, fields=()):
        self.fuel, self.fields = fuel, list(fields)  # fuel: self-recursive; fields: attributes of `self` read
        self.monad, self.hidden = monad, hidden      # hidden: parameter types that are not Lean binders
        self.kwargs = kwargs                         # name of the `**kwargs` parameter (last in `params`)
        self.rel, self.qual, self.lean, self.params, self.ret = rel, qual, lean, params, ret
        self.defaults = defaults or {}
        self.domain, self.doc, self.binders, self.stub = domain, doc, binders, stub
        self.lean_types, self.exc = lean_types, exc

    def signature(self, tr):
        b = self.binders or " ".join("(%s : %s)" % (n, tr.lean_ty(t)) for n, t in self.all_binders()
                                      if t not in self.hidden)
        return "def %s %s: %s %s" % (self.lean, ("(fuel : Nat) " if self.fuel else "") + b + " ", self.monad,
                                     tr.lean_ty(self.ret))

    def all_binders(self):
        return self.fields + self.params

    def translate(self, repo):
        src = open(os.path.join(repo, self.rel)).read()
        fn = find_def(src, self.qual)
        check_signature(fn, [n for n, _ in self.params], self.defaults, self.kwargs)
        dom = self.domain() if isinstance(self.domain, type) else self.domain
        tr = Tr(self.fields + self.params, self.ret, dom, self.lean_types, self.exc)
        tr.job = self
        tr.msg_only = message_only_names(fn)
        body = list(fn.body)
        base = 2 if self.fuel else 1
        code = tr.block(body, base)
        tr.check_tries()
        if not terminates(body):
            if self.ret == "V":
                code += "\n" + "  " * base + "return PyVal.none"
            elif self.ret == "U":
                code += "\n" + "  " * base + "pure ()"
            else:
                raise Unsupported("a path falls off the end of the function (returns None implicitly)")
        muts = "".join("  " * base + "let mut %s := %s\n" % (n, n) for n, _ in self.params if n in tr.mutated)
        sha = hashlib.sha256(ast.get_source_segment(src, fn).encode()).hexdigest()[:16]
        notes = "".join("  note: %s\n" % n for n in sorted(set(tr.notes)))
        head = " :=\n  match fuel with\n  | 0 => throw Err.notImplemented\n  | fuel + 1 => do\n" if self.fuel \
            else " := do\n"
        text = ("/-- `%s` (%s, sha256 %s) as the source text says it.%s\n%s-/\n%s%s%s%s\n" % (
            self.qual, self.rel, sha, (" " + self.doc) if self.doc else "", notes,
            self.signature(tr), head, muts, code))
        return text, {"sha": sha, "lines": fn.end_lineno - fn.lineno + 1}

    def failed(self, why):
        tr = Tr(self.params, self.ret, self.domain() if isinstance(self.domain, type) else self.domain,
                self.lean_types, self.exc)
        b = self.binders or " ".join("(_%s : %s)" % (n, tr.lean_ty(t)) for n, t in self.all_binders()
                                      if t not in self.hidden)
        return "/-- translation FAILED: %s -/\ndef %s %s%s : %s %s := %s\n" % (
            why.replace("\n", " ").replace("-/", "- /")[:200], self.lean, "(_fuel : Nat) " if self.fuel else "", b,
            self.monad, tr.lean_ty(self.ret), self.stub)


def write_if_changed(path, text):
    os.makedirs(os.path.dirname(path), exist_ok=True)
    old = open(path).read() if os.path.exists(path) else None
    if old != text:
        with open(path, "w") as f:
            f.write(text)


def generate_file(repo, lean_dir, out, imports, jobs, opens=()):
    """translate `jobs` into Generated/<out>; returns (problems, info)"""
    problems, info, parts = [], {}, []
    for job in jobs:
        if isinstance(job, str):             # fixed text between generated definitions
            parts.append(job)
            continue
        try:
            text, inf = job.translate(repo)
            info[job.qual] = inf
        except (Unsupported, SyntaxError, OSError) as e:
            problems.append("py2lean_select: %s:%s cannot be translated: %s" % (job.rel, job.qual, e))
            text = job.failed(str(e))
        parts.append(text)
    head = ("-- GENERATED on every run by harness/core/py2lean_select.py from the source text in /repo "
            "(sha256 of each function below).  Do not edit.\n"
            + "".join("import %s\n" % i for i in imports) + "\nnamespace CtrlVerif.Generated\n\nopen CtrlVerif"
            + "".join(" " + o for o in opens) + "\n\n")
    write_if_changed(os.path.join(lean_dir, "CtrlVerif", "Generated", out),
                     head + "\n".join(parts) + "\nend CtrlVerif.Generated\n")
    return problems, info


# ---------------------------------------------------------------------------------------------
# C17: control/iosys.py:_process_subsys_index
# ---------------------------------------------------------------------------------------------

C17_JOBS = [
    Job("control/iosys.py", "_process_subsys_index", "processSubsysIndex",
        [("idx", "V"), ("sys_labels", "V"), ("slice_to_list", "B")], ("V", "V"),
        defaults={"slice_to_list": False},
        doc="Returns `(idx, labels)`."),
]


def regenerate_c17(repo, lean_dir):
    return generate_file(repo, lean_dir, "SubsysIndex.lean", ["CtrlVerif.Model.PyVal"], C17_JOBS)



# ---------------------------------------------------------------------------------------------
# C05: the timebase predicates of control/iosys.py
#   InputOutputSystem.isctime / isdtime (methods), isdtime / isctime / timebase (module level)
# Domain types: `Dt` (a timebase; primitives of Model/PyDt.lean), `SelfDt` (the receiver of a
# method, represented by its `dt`), `Sys` (the `sys` argument; primitives `PySys.*` of
# Model/DtPred.lean).
# ---------------------------------------------------------------------------------------------

class DtDomain(Domain):
    lean_types = {"Dt": "Dt", "SelfDt": "Dt", "Sys": "SysArg"}
    defaults = {"Dt": "Dt.none"}
    methods = {"isdtime": "ioIsdtime", "isctime": "ioIsctime"}
    NUMBER = "(int, float, complex, np.number)"

    def attribute(self, tr, node):
        if node.attr == "dt" and isinstance(node.value, ast.Name):
            ty = tr.lookup(node.value.id)
            if ty == "SelfDt":
                return E(node.value.id, "Dt")
            if ty == "Sys":
                return E("(← PySys.dt %s)" % node.value.id, "Dt", True)
        return None

    def compare(self, tr, op, a, b, node):
        if isinstance(op, (ast.Is, ast.IsNot)):
            if a.ty == "Dt":
                return E("PyDt.isNone %s" % _paren(a.code), "B", a.mon)
            if a.ty == "Sys":
                return E("PySys.isNone %s" % _paren(a.code), "B", a.mon)
            return None
        if a.ty != "Dt":
            return None
        if isinstance(op, ast.Eq) and b.code == "PyVal.none":
            tr.notes.append("`dt == None` read as `dt is None` (the same on None / bool / numbers)")
            return E("PyDt.isNone %s" % _paren(a.code), "B", a.mon)
        if b.code == "(0 : Int)":
            if isinstance(op, ast.Gt):
                return E("PyDt.gtZero %s" % _paren(a.code), "B", a.mon)
            if isinstance(op, ast.Eq):
                return E("PyDt.eqZero %s" % _paren(a.code), "B", a.mon)
        raise Unsupported("comparison of a timebase: %s" % ast.unparse(node)[:60])

    def call(self, tr, node):
        f = node.func
        if isinstance(f, ast.Name) and f.id == "isinstance" and len(node.args) == 2 and not node.keywords \
                and isinstance(node.args[0], ast.Name) and tr.lookup(node.args[0].id) == "Sys":
            cls = ast.unparse(node.args[1])
            if cls == self.NUMBER:
                return E("PySys.isNumber %s" % node.args[0].id, "B")
            if cls == "InputOutputSystem":
                return E("PySys.isSystem %s" % node.args[0].id, "B")
            raise Unsupported("isinstance of the system argument against %s" % cls[:60])
        if isinstance(f, ast.Name) and f.id == "float" and len(node.args) == 1 and not node.keywords:
            x = tr.expr(node.args[0])
            if x.ty == "Dt":
                return E("PyDt.toFloat %s" % _paren(x.code), "Dt", x.mon)
        if isinstance(f, ast.Attribute) and isinstance(f.value, ast.Name) and tr.lookup(f.value.id) == "Sys" \
                and f.attr in self.methods and len(node.args) == 1 and not node.keywords:
            arg = tr.to(tr.expr(node.args[0]), "B")
            return E("(← %s (← PySys.dt %s) %s)" % (self.methods[f.attr], f.value.id, _paren(arg.code)), "B", True)
        return None

    def coerce(self, tr, e, ty):
        if ty == "Dt" and e.code == "PyVal.none":
            return E("Dt.none", "Dt")
        return None


C05_JOBS = [
    Job("control/iosys.py", "InputOutputSystem.isctime", "ioIsctime",
        [("self", "SelfDt"), ("strict", "B")], "B", defaults={"strict": False}, domain=DtDomain,
        doc="`self` is the timebase `self.dt` of the receiver."),
    Job("control/iosys.py", "InputOutputSystem.isdtime", "ioIsdtime",
        [("self", "SelfDt"), ("strict", "B")], "B", defaults={"strict": False}, domain=DtDomain,
        doc="`self` is the timebase `self.dt` of the receiver."),
    Job("control/iosys.py", "isdtime", "isdtime",
        [("sys", "Sys"), ("strict", "B"), ("dt", "Dt")], "B",
        defaults={"sys": None, "strict": False, "dt": None}, domain=DtDomain),
    Job("control/iosys.py", "isctime", "isctime",
        [("sys", "Sys"), ("dt", "Dt"), ("strict", "B")], "B",
        defaults={"sys": None, "dt": None, "strict": False}, domain=DtDomain),
    Job("control/iosys.py", "timebase", "timebase",
        [("sys", "Sys"), ("strict", "B")], "Dt", defaults={"strict": True}, domain=DtDomain),
]


def regenerate_c05(repo, lean_dir):
    return generate_file(repo, lean_dir, "DtPred.lean", ["CtrlVerif.Model.DtPred"], C05_JOBS)



# ---------------------------------------------------------------------------------------------
# C19: the dictionary logic of control/config.py
#   DefaultDict._check_deprecation / __setitem__ / __missing__, set_defaults, reset_defaults
# The functions run in `CfgM` (Model/PyDict.lean): the dictionary (`self` of a DefaultDict method,
# the module-level `defaults` of a function) is the state, not a Lean parameter.
# Domain types: `Self` (the dictionary), `KV` (a `**keywords` / mapping argument:
# `List (String × String)`).
# ---------------------------------------------------------------------------------------------

def _pure_names(node):
    """names an expression mentions, or None if it is not built from names, constants, f-strings, +"""
    names = set()
    for n in ast.walk(node):
        if isinstance(n, ast.Name):
            names.add(n.id)
        elif not isinstance(n, (ast.Constant, ast.JoinedStr, ast.FormattedValue, ast.BinOp, ast.Add, ast.Load)):
            return None
    return names


def _assigned_names(stmts):
    out = set()
    for s in stmts:
        for n in ast.walk(s):
            if isinstance(n, ast.Name) and isinstance(n.ctx, ast.Store):
                out.add(n.id)
    return out


class CfgDomain(Domain):
    lean_types = {"Self": "Unit", "KV": "List (String × String)"}
    methods = {"_check_deprecation": "checkDeprecation", "__missing__": "missing"}
    SKIP_CALLS = {"reset_rcParams": "reset_rcParams() (matplotlib rcParams of control.ctrlplot; does not touch "
                                    "config.defaults) skipped"}

    def is_self(self, tr, node):
        return isinstance(node, ast.Name) and (tr.lookup(node.id) == "Self" or
                                               (node.id == "defaults" and tr.lookup("defaults") is None))

    def contains_arg(self, tr, node):
        """`self.__contains__(E)` / `E in self` -> E"""
        if isinstance(node, ast.Call) and isinstance(node.func, ast.Attribute) and node.func.attr == "__contains__" \
                and self.is_self(tr, node.func.value) and len(node.args) == 1 and not node.keywords:
            return node.args[0]
        if isinstance(node, ast.Compare) and len(node.ops) == 1 and isinstance(node.ops[0], ast.In) \
                and self.is_self(tr, node.comparators[0]):
            return node.left
        return None

    def facts(self, tr, test, body):
        arg = self.contains_arg(tr, test)
        if arg is None:
            return set()
        names = _pure_names(arg)
        if names is None or names & _assigned_names(body):
            return set()
        return {"contains:" + ast.unparse(arg)}

    def call(self, tr, node):
        arg = self.contains_arg(tr, node)
        if arg is not None:
            k = tr.to(tr.expr(arg), "S")
            return E("(← PyDict.contains %s)" % _paren(k.code), "B", True)
        f = node.func
        if isinstance(f, ast.Name) and f.id == "isinstance" and len(node.args) == 2 \
                and isinstance(node.args[0], ast.Name) and tr.lookup(node.args[0].id) == "S" \
                and isinstance(node.args[1], ast.Name) and node.args[1].id == "str":
            tr.notes.append("`isinstance(%s, str)` is true: the parameter is a string in the model" % node.args[0].id)
            return E("true", "B")
        if isinstance(f, ast.Attribute) and self.is_self(tr, f.value) and f.attr in self.methods \
                and not node.keywords:
            args = [tr.to(tr.expr(a), "S") for a in node.args]
            return E("(← %s %s)" % (self.methods[f.attr], " ".join(_paren(a.code) for a in args)), "S", True)
        return None

    def compare(self, tr, op, a, b, node):
        if isinstance(op, (ast.In, ast.NotIn)) and self.is_self(tr, node.comparators[0]):
            k = tr.to(tr.expr(node.left), "S")
            e = "(← PyDict.contains %s)" % _paren(k.code)
            return E(e if isinstance(op, ast.In) else "(!%s)" % e, "B", True)
        return None

    def name(self, tr, node):
        if node.id == "defaults":
            return E("()", "Self")
        return None

    def subscript(self, tr, node):
        if not self.is_self(tr, node.value):
            return None
        k = tr.to(tr.expr(node.slice), "S")
        if any(("contains:" + ast.unparse(node.slice)) in f for f in tr.facts):
            tr.notes.append("`self[k]` right after `self.__contains__(k)` is `self.data[k]`")
            return E("(← PyDict.dataGet %s)" % _paren(k.code), "S", True)
        return E("(← getitem %s)" % _paren(k.code), "S", True)

    def setitem(self, tr, k, v, pad):
        tr.facts[:] = [set() for _ in tr.facts]          # the dictionary changes
        return pad + "setitem %s %s" % (_paren(tr.to(k, "S").code), _paren(tr.to(v, "S").code))

    def assign_target(self, tr, target, value, indent):
        if isinstance(target, ast.Subscript) and self.is_self(tr, target.value):
            return self.setitem(tr, tr.expr(target.slice), tr.expr(value), "  " * indent)
        return None

    def expr_stmt(self, tr, s, indent):
        pad = "  " * indent
        c = s.value
        if not isinstance(c, ast.Call):
            return None
        f = c.func
        # super().__setitem__(k, v)
        if isinstance(f, ast.Attribute) and f.attr == "__setitem__" and isinstance(f.value, ast.Call) \
                and isinstance(f.value.func, ast.Name) and f.value.func.id == "super" and not f.value.args \
                and len(c.args) == 2 and not c.keywords:
            k, v = tr.to(tr.expr(c.args[0]), "S"), tr.to(tr.expr(c.args[1]), "S")
            tr.facts[:] = [set() for _ in tr.facts]
            return pad + "PyDict.dataSet %s %s" % (_paren(k.code), _paren(v.code))
        # defaults.update(<module table>)
        if isinstance(f, ast.Attribute) and f.attr == "update" and self.is_self(tr, f.value) \
                and len(c.args) == 1 and not c.keywords and isinstance(c.args[0], ast.Name) \
                and tr.lookup(c.args[0].id) is None:
            tr.facts[:] = [set() for _ in tr.facts]
            tr.tables.append(c.args[0].id)
            return (pad + "for (k, v) in tbl %s do\n" % _lean_str(c.args[0].id)
                    + pad + "  setitem k v")
        if isinstance(f, ast.Name) and f.id in self.SKIP_CALLS and not c.args and not c.keywords:
            tr.notes.append(self.SKIP_CALLS[f.id])
            return ""
        return None

    def other_stmt(self, tr, s, indent):
        if isinstance(s, ast.ImportFrom) and s.level == 1:
            tr.notes.append("function-level `from .<module> import …` statements skipped")
            return ""
        return None

    def for_loop(self, tr, s, indent):
        pad = "  " * indent
        if s.orelse:
            return None
        it = s.iter
        # for key, val in <KV>.items():
        if isinstance(it, ast.Call) and isinstance(it.func, ast.Attribute) and it.func.attr == "items" \
                and not it.args and isinstance(it.func.value, ast.Name) and tr.lookup(it.func.value.id) == "KV" \
                and isinstance(s.target, ast.Tuple) and len(s.target.elts) == 2 \
                and all(isinstance(e, ast.Name) for e in s.target.elts):
            a, b = s.target.elts[0].id, s.target.elts[1].id
            tr.scopes.append({a: "S", b: "S"})
            try:
                body = tr.block(s.body, indent + 1)
            finally:
                tr.scopes.pop()
            return pad + "for (%s, %s) in %s do\n%s" % (a, b, it.func.value.id, body)
        return None


def _cfg_job(qual, lean, params, ret, **kw):
    return Job("control/config.py", qual, lean, params, ret, domain=CfgDomain, monad="CfgM", hidden=("Self",), **kw)


GETITEM = ("/-- `self[k]` (`UserDict.__getitem__`: the stored value, else `__missing__(k)`); fixed text, not\n"
           "generated from /repo. -/\n"
           "def getitem (k : String) : CfgM String := PyDict.getitemWith missing k\n")

C19_JOBS = [
    _cfg_job("DefaultDict._check_deprecation", "checkDeprecation", [("self", "Self"), ("key", "S")], "S"),
    _cfg_job("DefaultDict.__missing__", "missing", [("self", "Self"), ("key", "S")], "S"),
    GETITEM,
    _cfg_job("DefaultDict.__setitem__", "setitem", [("self", "Self"), ("key", "S"), ("value", "S")], "U"),
    _cfg_job("set_defaults", "setDefaults", [("module", "S"), ("keywords", "KV")], "U", kwargs="keywords"),
    _cfg_job("reset_defaults", "resetDefaults", [], "U",
             binders="(tbl : String → List (String × String))",
             doc="`tbl` gives the contents of the module-level default tables by name."),
]


def regenerate_c19(repo, lean_dir):
    return generate_file(repo, lean_dir, "ConfigDict.lean", ["CtrlVerif.Model.PyDict"], C19_JOBS)



# ---------------------------------------------------------------------------------------------
# C10: control/mateqn.py:_check_shape, _is_symmetric
# Domain types: `Arr` (a 2-D array: `DMat K` of Model/MatEqn.lean, primitives of Model/PyArr.lean),
# `Eps` (a scalar of the array's field).
# ---------------------------------------------------------------------------------------------

class ArrDomain(Domain):
    lean_types = {"Arr": "(DMat K)", "Eps": "K"}
    functions = {"_is_symmetric": "isSymmetric"}

    def arr(self, tr, node):
        if isinstance(node, ast.Name) and tr.lookup(node.id) == "Arr":
            return node.id
        return None

    def is_transpose_pair(self, tr, a, b):
        """a is the array M and b is M.T"""
        m = self.arr(tr, a)
        return m if (m and isinstance(b, ast.Attribute) and b.attr == "T" and self.arr(tr, b.value) == m) else None

    def call(self, tr, node):
        f = node.func
        text = ast.unparse(node)
        if isinstance(f, ast.Attribute) and f.attr == "atleast_2d" and isinstance(f.value, ast.Name) \
                and f.value.id == "np" and len(node.args) == 1 and not node.keywords and self.arr(tr, node.args[0]):
            return E("PyArr.atleast2d %s" % self.arr(tr, node.args[0]), "Arr")
        if isinstance(f, ast.Name) and f.id in self.functions and len(node.args) == 1 and not node.keywords \
                and self.arr(tr, node.args[0]):
            return E("(← %s %s)" % (self.functions[f.id], self.arr(tr, node.args[0])), "B", True)
        if isinstance(f, ast.Name) and f.id == "isinstance" and len(node.args) == 2:
            a, c = node.args
            if isinstance(a, ast.Subscript) and self.arr(tr, a.value) and ast.unparse(a.slice) == "(0, 0)" \
                    and isinstance(c, ast.Name) and c.id == "inexact":
                return E("(← PyArr.item00Inexact %s)" % self.arr(tr, a.value), "B", True)
        # (<elementwise test>).all()
        if isinstance(f, ast.Attribute) and f.attr == "all" and not node.args and not node.keywords \
                and isinstance(f.value, ast.Compare) and len(f.value.ops) == 1:
            c = f.value
            op, lhs, rhs = c.ops[0], c.left, c.comparators[0]
            if isinstance(op, ast.Eq):
                m = self.is_transpose_pair(tr, lhs, rhs)
                if m:
                    return E("(← PyArr.allEqT %s)" % m, "B", True)
            if isinstance(op, ast.Lt) and isinstance(lhs, ast.BinOp) and isinstance(lhs.op, ast.Sub):
                m = self.is_transpose_pair(tr, lhs.left, lhs.right)
                e = tr.expr(rhs)
                if m and e.ty == "Eps":
                    return E("(← PyArr.allDiffTLt %s %s)" % (m, _paren(e.code)), "B", True)
            raise Unsupported("array test %s" % text[:60])
        return None

    def attribute(self, tr, node):
        # finfo(M.dtype).eps
        if node.attr == "eps" and isinstance(node.value, ast.Call) and isinstance(node.value.func, ast.Name) \
                and node.value.func.id == "finfo" and len(node.value.args) == 1 and not node.value.keywords:
            a = node.value.args[0]
            if isinstance(a, ast.Attribute) and a.attr == "dtype" and self.arr(tr, a.value):
                return E("(← PyArr.eps %s)" % self.arr(tr, a.value), "Eps", True)
        return None

    def subscript(self, tr, node):
        # M.shape[0], M.shape[1]
        v = node.value
        if isinstance(v, ast.Attribute) and v.attr == "shape" and self.arr(tr, v.value) \
                and isinstance(node.slice, ast.Constant) and node.slice.value in (0, 1):
            return E("PyArr.shape%d %s" % (node.slice.value, self.arr(tr, v.value)), "I")
        return None


ARR_BINDERS = "{K : Type} [Field K] [LinearOrder K] "

C10_JOBS = [
    Job("control/mateqn.py", "_is_symmetric", "isSymmetric", [("M", "Arr")], "B", domain=ArrDomain,
        binders=ARR_BINDERS + "(M : DMat K)"),
    Job("control/mateqn.py", "_check_shape", "checkShape",
        [("M", "Arr"), ("n", "I"), ("m", "I"), ("square", "B"), ("symmetric", "B"), ("name", "S")], "Arr",
        defaults={"square": False, "symmetric": False, "name": "??"}, domain=ArrDomain,
        binders=ARR_BINDERS + "(M : DMat K) (n m : Int) (square symmetric : Bool) (name : String)"),
]


def regenerate_c10(repo, lean_dir):
    return generate_file(repo, lean_dir, "MatEqnCheck.lean", ["CtrlVerif.Model.PyArr"], C10_JOBS,
                         opens=("MatEqn",))



# ---------------------------------------------------------------------------------------------
# C17 (second function): control/iosys.py:NamedSignal._parse_key  (names -> indices)
# `self` is represented by the attributes the method reads (`fields`); the method calls itself,
# so the generated function takes a recursion budget `fuel` (0: Err.notImplemented).
# ---------------------------------------------------------------------------------------------

class ObjDomain(Domain):
    lean_types = {"Obj": "Unit"}

    def attribute(self, tr, node):
        if isinstance(node.value, ast.Name) and tr.lookup(node.value.id) == "Obj":
            fields = dict(tr.job.fields)
            if node.attr in fields:
                return E(node.attr, fields[node.attr])
            raise Unsupported("attribute self.%s" % node.attr)
        return None

    def call(self, tr, node):
        f = node.func
        job = tr.job
        if isinstance(f, ast.Attribute) and isinstance(f.value, ast.Name) and tr.lookup(f.value.id) == "Obj" \
                and f.attr == job.qual.split(".")[-1] and job.fuel:
            params = [(n, t) for n, t in job.params if t != "Obj"]
            given = {}
            for (n, t), a in zip(params, node.args):
                given[n] = a
            for kw in node.keywords:
                if kw.arg is None or kw.arg in given or kw.arg not in dict(params):
                    raise Unsupported("arguments of the recursive call %s" % ast.unparse(node)[:60])
                given[kw.arg] = kw.value
            args = []
            for n, t in params:
                if n in given:
                    args.append(tr.to(tr.expr(given[n]), t))
                elif n in job.defaults:
                    args.append(tr.to(tr.expr(ast.Constant(value=job.defaults[n])), t))
                else:
                    raise Unsupported("missing argument %s in the recursive call" % n)
            tr.raises.add(("<rec>", ""))
            return E("(← %s fuel %s %s)" % (job.lean, " ".join(n for n, _ in job.fields),
                                             " ".join(_paren(a.code) for a in args)), job.ret, True)
        return None


C17_JOBS.append(
    Job("control/iosys.py", "NamedSignal._parse_key", "parseKey",
        [("self", "Obj"), ("key", "V"), ("labels", "V"), ("level", "I")], "V",
        defaults={"labels": None, "level": 0}, domain=ObjDomain, hidden=("Obj",), fuel=True,
        fields=[("signal_labels", "V"), ("trace_labels", "V"), ("data_shape", "V")],
        doc="`self` is given by the three attributes the method reads."))

REGENERATORS = {"C17": regenerate_c17, "C05": regenerate_c05, "C19": regenerate_c19, "C10": regenerate_c10}


def regenerate(repo, lean_dir, prop):
    """Rewrite the generated files of property `prop`; returns (list of problems, info dict)."""
    return REGENERATORS[prop](repo, lean_dir)


if __name__ == "__main__":
    import sys
    repo = sys.argv[2] if len(sys.argv) > 2 else "/repo"
    lean_dir = os.path.join(os.path.dirname(os.path.dirname(os.path.dirname(os.path.abspath(__file__)))), "lean")
    print(regenerate(repo, lean_dir, sys.argv[1]))
