"""Fourth translator Python `ast` -> Lean 4 (DESIGN §10.3 / notes/NOTES-py2lean-ss.md): the arithmetic
METHODS of `class StateSpace` (control/statesp.py) - NumPy block-matrix programs with `isinstance`
dispatch on the kind of the other operand.  It regenerates `lean/CtrlVerif/Generated/SS*.lean` from
the source text of the tree the check runs against on every run; `Props/C02Gen*.lean` prove the
run-time layer of the hand-written C02 model (`Model/SSDyn.lean`: `DSS.neg add sub rsub mul rmul
append feedback pow truediv rtruediv lft`) EQUAL to the generated functions for all dimensions,
entries, operand kinds and timebases, so a semantic edit of the source breaks a proof obligation,
and an edit that leaves the supported subset makes the translation fail (reported the same way: the
emitted definition is then `.error .notImplemented` for every argument, which cannot equal the
model).

Value model (fixed in `lean/CtrlVerif/Model/PyMat.lean`, hand-written, trusted):
  a `StateSpace` object        -> `DSS K` (sizes, A B C D, timebase); attributes through `PySS.A ...`
  the other operand            -> `SOperand K`: a `StateSpace`, a Python / NumPy number, a 2-D ndarray
  a 2-D ndarray                -> `PMat K`  (rows, columns, entries), every shape check at run time
  Python float / NumPy number  -> an arbitrary field `K`, EXACT arithmetic
  Python int                   -> `Int`; sizes (`nstates ninputs noutputs`, `X.shape[i]`) -> `Nat`
  timebase                     -> `Dt`, `common_timebase` -> `common`
The body becomes a term of `Except Err (DSS K)`: `raise ValueError(msg)` -> `throw Err.<kind>` with
the kind read off the message by the same rule as `families/c02.py: classify_exc`
("singular" / "well-posed" -> illPosed, "timebase" -> timebase, else shape); `return
NotImplemented` -> `throw Err.notImplemented` (the operator machinery then raises TypeError).

Dynamic typing is resolved by SPECIALISATION: a method whose job is marked `dispatch` is translated
once per kind of `other` (number, array, StateSpace), every `isinstance(x, T)` / `type(x) == int` is
evaluated statically from the static type of `x`, dead branches are dropped (they are not
translated at all, e.g. the `TransferFunction` conversion and `NonlinearIOSystem.feedback`), and the
three bodies are the arms of a `match other with`.  Static types are tracked through
re-assignments (`self = np.ones_like(other) * self`).  Operators are resolved by Python's rules on
the static types: `ndarray * StateSpace` and `number * StateSpace` are `StateSpace.__rmul__`
(`__array_priority__`), `number + StateSpace` is `__radd__`, `StateSpace ** int` is `__pow__`, ...
and become calls of the generated sibling method (which must already have been generated).

Supported subset (anything else raises `Unsupported`):
  statements  docstring, `from .m import X` inside the method, `x = e`, `a, b = e1, e2`,
              `X[a:b, c:d] = e`, `if/elif/else`, `raise ValueError("...")`, `return e`,
              `return NotImplemented`, `try: <stmts> except <LinAlgError|ValueError>: return
              NotImplemented`, `try: x = _convert_to_statespace(x) except: pass`,
              `if not isinstance(x, StateSpace): x = _convert_to_statespace(x)`
  expressions names, int literals, attributes `.A .B .C .D .dt .nstates .ninputs .noutputs .T .shape`,
              `X.shape[0|1|-1]`, slices `X[a:b, c:d]` (no step), tuples in comparisons,
              `+ - * @ / **`, unary `-`, comparisons, `not / and / or`, `min`, and the calls
              `zeros ones eye np.ones_like np.atleast_2d concatenate np.block solve np.linalg.solve
              scipy.linalg.inv matrix_rank common_timebase _convert_to_statespace StateSpace(...)
              x.issiso() bdalg.append(*([x] * k))` - each resolved through the module's imports
              (a re-bound name is a failed translation).
Evaluation order: effectful sub-expressions (anything that can raise: `@`, `+` of arrays,
concatenation, `solve`, sibling calls, the constructor) are bound left to right in Python's order.
Default values of parameters are compared with the ones the job expects.  The sha256 of each
function text is recorded in the generated file; output is deterministic and rewritten only when
changed.
"""
import ast
import hashlib
import os
import re

from core.py2lean import Unsupported

SS, MAT, NUM, NAT, INT, DT, PROP, OPERAND, SHAPE = "SS", "MAT", "NUM", "NAT", "INT", "DT", "PROP", "OPERAND", "SHAPE"
LEAN_TY = {SS: "DSS K", MAT: "PMat K", NUM: "K", NAT: "Nat", INT: "Int", DT: "Dt", OPERAND: "SOperand K"}


class V:
    """a translated effect-free expression: Lean code (atomic or parenthesised), static type, and
    the value when it is an int literal"""

    def __init__(self, code, ty, lit=None, items=None):
        self.code, self.ty, self.lit, self.items = code, ty, lit, items


def _ind(lines, n=2):
    return [" " * n + l for l in lines]


def classify_message(msg):
    """the rule of harness/families/c02.py: classify_exc for a ValueError"""
    if "timebase" in msg or "Time steps" in msg:
        return "timebase"
    if "singular" in msg or "well-posed" in msg:
        return "illPosed"
    return "shape"


# what the free names of control/statesp.py must be bound to (checked against the module's imports)
IMPORTS = {
    "np": ("import", "numpy"), "scipy": ("import", "scipy"),
    "zeros": ("from", "numpy"), "eye": ("from", "numpy"), "concatenate": ("from", "numpy"),
    "solve": ("from", "numpy.linalg"), "matrix_rank": ("from", "numpy.linalg"),
    "bdalg": ("from", ""), "common_timebase": ("from", "iosys"),
}


def module_bindings(module):
    """name -> ('import', module) | ('from', module) | ('def',) | ('class',) for module-level names"""
    out = {}
    for node in module.body:
        if isinstance(node, ast.Import):
            for a in node.names:
                out[a.asname or a.name.split(".")[0]] = ("import", a.name if a.asname else a.name.split(".")[0])
        elif isinstance(node, ast.ImportFrom):
            for a in node.names:
                out[a.asname or a.name] = ("from", node.module or "") if a.asname is None or a.asname == a.name \
                    else ("from-as", node.module or "", a.name)
        elif isinstance(node, ast.FunctionDef):
            out[node.name] = ("def",)
        elif isinstance(node, ast.ClassDef):
            out[node.name] = ("class",)
        elif isinstance(node, ast.Assign):
            for t in node.targets:
                if isinstance(t, ast.Name):
                    out[t.id] = ("assign",)
    return out


class Translator:
    def __init__(self, job, bindings, available):
        self.job = job
        self.bindings = bindings
        self.available = available      # python method name -> lean name, generated earlier
        self.ntmp = 0
        self.notes = []
        self.locals = set()

    # ---------------------------------------------------------------------------------------
    def tmp(self):
        self.ntmp += 1
        return "t%d" % self.ntmp

    def need(self, name, what):
        got = self.bindings.get(name)
        if name in self.locals:
            raise Unsupported("`%s` is re-bound inside the method" % name)
        if got != what:
            raise Unsupported("`%s` is bound to %s in the module, expected %s" % (name, got, what))

    def bind(self, pre, code, ty):
        """bind an effectful term to a fresh temporary"""
        t = self.tmp()
        pre.append("let %s ← %s" % (t, code))
        return V(t, ty)

    # -- coercions ----------------------------------------------------------------------------
    def as_int(self, v):
        if v.lit is not None:
            return "(%d : Int)" % v.lit
        if v.ty == INT:
            return v.code
        if v.ty == NAT:
            return "(%s : Int)" % v.code
        raise Unsupported("expected an int, got %s" % v.ty)

    def as_nat(self, v):
        if v.lit is not None and v.lit >= 0:
            return "(%d : Nat)" % v.lit
        if v.ty == NAT:
            return v.code
        raise Unsupported("expected a size, got %s" % v.ty)

    def as_num(self, v):
        if v.lit is not None:
            return "((%d : Int) : K)" % v.lit
        if v.ty == NUM:
            return v.code
        if v.ty in (INT, NAT):
            return "((%s : Int) : K)" % v.code
        raise Unsupported("expected a number, got %s" % v.ty)

    def as_operand(self, v):
        if v.ty == OPERAND:
            return v.code
        if v.ty == SS:
            return "(SOperand.sys %s)" % v.code
        if v.ty == MAT:
            return "(PMat.toOperand %s)" % v.code
        if v.ty in (NUM, INT, NAT):
            return "(SOperand.scalar %s)" % self.as_num(v)
        raise Unsupported("not an operand: %s" % v.ty)

    def is_intlike(self, v):
        return v.ty in (INT, NAT)

    # -- static tests -------------------------------------------------------------------------
    def class_matches(self, ty, node):
        """does a value of static type `ty` pass isinstance(., node)?"""
        if isinstance(node, ast.Tuple):
            return any(self.class_matches(ty, e) for e in node.elts)
        src = ast.unparse(node)
        if src in ("int", "float", "complex", "np.number"):
            if src == "np.number":
                self.need("np", ("import", "numpy"))
            return ty in (NUM, INT, NAT)
        if src == "np.ndarray":
            self.need("np", ("import", "numpy"))
            return ty == MAT
        if src == "StateSpace":
            return ty == SS
        if src in ("TransferFunction", "FrequencyResponseData", "InputOutputSystem", "LTI"):
            if ty == SS and src in ("InputOutputSystem", "LTI"):
                return True
            return False
        raise Unsupported("isinstance against %s" % src)

    def test(self, node, env, pre):
        """Python test -> (static truth value or None, Lean Prop code)"""
        if isinstance(node, ast.Call) and isinstance(node.func, ast.Name) and node.func.id == "isinstance" \
                and len(node.args) == 2 and not node.keywords:
            v = self.expr(node.args[0], env, pre)
            if v.ty == OPERAND:
                raise Unsupported("isinstance of an operand of unknown kind")
            r = self.class_matches(v.ty, node.args[1])
            return r, "True" if r else "False"
        if isinstance(node, ast.Compare) and len(node.ops) == 1 and isinstance(node.ops[0], (ast.Eq, ast.Is)) \
                and ast.unparse(node.left).startswith("type(") and isinstance(node.comparators[0], ast.Name):
            inner = node.left
            if isinstance(inner, ast.Call) and len(inner.args) == 1:
                v = self.expr(inner.args[0], env, pre)
                want = node.comparators[0].id
                if want == "int":
                    r = v.ty in (INT, NAT)
                    return r, "True" if r else "False"
            raise Unsupported("type test %s" % ast.unparse(node))
        if isinstance(node, ast.UnaryOp) and isinstance(node.op, ast.Not):
            s, c = self.test(node.operand, env, pre)
            if s is not None:
                return (not s), ("False" if s else "True")
            return None, "(¬ %s)" % c
        if isinstance(node, ast.BoolOp):
            is_and = isinstance(node.op, ast.And)
            parts = []
            for sub in node.values:
                npre = []
                s, c = self.test(sub, env, npre)
                if npre and parts:
                    raise Unsupported("effectful operand of and/or after the first")
                pre.extend(npre)
                if s is not None:
                    if s != is_and:          # False in `and` / True in `or` decides
                        if parts:            # earlier dynamic operands are effect-free: still decided
                            return s, ("True" if s else "False")
                        return s, ("True" if s else "False")
                    continue                 # neutral element
                parts.append(c)
            if not parts:
                return is_and, ("True" if is_and else "False")
            if len(parts) == 1:
                return None, parts[0]
            return None, "(" + (" ∧ " if is_and else " ∨ ").join(parts) + ")"
        if isinstance(node, ast.Compare) and len(node.ops) == 1:
            op = node.ops[0]
            a = self.expr(node.left, env, pre)
            b = self.expr(node.comparators[0], env, pre)
            sym = {ast.Eq: "=", ast.NotEq: "≠", ast.Lt: "<", ast.LtE: "≤", ast.Gt: ">", ast.GtE: "≥"}.get(type(op))
            if sym is None:
                raise Unsupported("comparison %s" % ast.unparse(node))
            if a.ty == SHAPE or b.ty == SHAPE:
                if a.ty != SHAPE or b.ty != SHAPE or sym not in ("=", "≠"):
                    raise Unsupported("comparison %s" % ast.unparse(node))
                pairs = [self.cmp_int(x, y, sym) for x, y in zip(a.items, b.items)]
                return None, "(" + (" ∧ " if sym == "=" else " ∨ ").join(pairs) + ")"
            return None, "(" + self.cmp_int(a, b, sym) + ")"
        if isinstance(node, ast.Call):
            v = self.expr(node, env, pre)
            if v.ty == PROP:
                return None, v.code
        raise Unsupported("test %s" % ast.unparse(node)[:80])

    def cmp_int(self, a, b, sym):
        if not (self.is_intlike(a) or a.lit is not None) or not (self.is_intlike(b) or b.lit is not None):
            raise Unsupported("comparison of %s and %s" % (a.ty, b.ty))
        if (a.ty == NAT or (a.lit is not None and a.lit >= 0)) and (b.ty == NAT or (b.lit is not None and b.lit >= 0)) \
                and not (a.lit is not None and b.lit is not None):
            return "%s %s %s" % (self.as_nat(a), sym, self.as_nat(b))
        return "%s %s %s" % (self.as_int(a), sym, self.as_int(b))

    # -- expressions --------------------------------------------------------------------------
    def expr(self, node, env, pre):
        if isinstance(node, ast.Name):
            if node.id in env:
                return env[node.id]
            raise Unsupported("unknown name %s" % node.id)
        if isinstance(node, ast.Constant):
            if type(node.value) is int:
                return V("(%d : Int)" % node.value, INT, lit=node.value)
            raise Unsupported("constant %r" % (node.value,))
        if isinstance(node, ast.UnaryOp) and isinstance(node.op, ast.USub):
            v = self.expr(node.operand, env, pre)
            if v.lit is not None:
                return V("(%d : Int)" % -v.lit, INT, lit=-v.lit)
            if v.ty == MAT:
                return V("(PMat.neg %s)" % v.code, MAT)
            if v.ty == NUM:
                return V("(-%s)" % v.code, NUM)
            if v.ty in (INT, NAT):
                return V("(-%s)" % self.as_int(v), INT)
            if v.ty == SS:
                return self.call_method("__neg__", v, [], pre)
            raise Unsupported("unary minus on %s" % v.ty)
        if isinstance(node, ast.Tuple):
            items = [self.expr(e, env, pre) for e in node.elts]
            return V(None, SHAPE, items=items)
        if isinstance(node, ast.Attribute):
            return self.attribute(node, env, pre)
        if isinstance(node, ast.Subscript):
            return self.subscript(node, env, pre)
        if isinstance(node, ast.BinOp):
            return self.binop(node, env, pre)
        if isinstance(node, ast.Call):
            return self.call(node, env, pre)
        raise Unsupported("expression %s" % ast.unparse(node)[:80])

    def attribute(self, node, env, pre):
        v = self.expr(node.value, env, pre)
        a = node.attr
        if v.ty == SS:
            if a in ("A", "B", "C", "D"):
                return V("(PySS.%s %s)" % (a, v.code), MAT)
            if a == "dt":
                return V("%s.dt" % v.code, DT)
            if a in ("nstates", "ninputs", "noutputs"):
                return V("%s.%s" % (v.code, {"nstates": "n", "ninputs": "m", "noutputs": "p"}[a]), NAT)
        if v.ty == MAT:
            if a == "T":
                return V("(PMat.T %s)" % v.code, MAT)
            if a == "shape":
                return V(None, SHAPE, items=[V("%s.r" % v.code, NAT), V("%s.c" % v.code, NAT)])
        raise Unsupported("attribute .%s of %s" % (a, v.ty))

    def slice_bound(self, node, env, pre):
        if node is None:
            return "none"
        v = self.expr(node, env, pre)
        return "(some %s)" % self.as_int(v)

    def subscript(self, node, env, pre):
        v = self.expr(node.value, env, pre)
        sl = node.slice
        if v.ty == SHAPE:
            if isinstance(sl, ast.UnaryOp) and isinstance(sl.op, ast.USub) and isinstance(sl.operand, ast.Constant):
                k = -sl.operand.value
            elif isinstance(sl, ast.Constant) and type(sl.value) is int:
                k = sl.value
            else:
                raise Unsupported("shape index %s" % ast.unparse(sl))
            if k in (0, -2):
                return v.items[0]
            if k in (1, -1):
                return v.items[1]
            raise Unsupported("shape index %d" % k)
        if v.ty == MAT:
            rs, cs = self.two_slices(sl)
            out = v.code
            if rs is not None:
                out = "(PMat.sliceRows %s %s %s)" % (out, self.slice_bound(rs.lower, env, pre),
                                                     self.slice_bound(rs.upper, env, pre))
            if cs is not None:
                out = "(PMat.sliceCols %s %s %s)" % (out, self.slice_bound(cs.lower, env, pre),
                                                     self.slice_bound(cs.upper, env, pre))
            return V(out, MAT)
        raise Unsupported("subscript of %s" % v.ty)

    def two_slices(self, sl):
        """`X[a:b, c:d]` -> (row slice or None for `:`, column slice or None)"""
        if not (isinstance(sl, ast.Tuple) and len(sl.elts) == 2 and all(isinstance(e, ast.Slice) for e in sl.elts)):
            raise Unsupported("index %s (only X[a:b, c:d])" % ast.unparse(sl))
        out = []
        for e in sl.elts:
            if e.step is not None:
                raise Unsupported("slice step")
            out.append(None if (e.lower is None and e.upper is None) else e)
        return out

    def binop(self, node, env, pre):
        op = node.op
        a = self.expr(node.left, env, pre)
        b = self.expr(node.right, env, pre)
        ints = lambda v: v.ty in (INT, NAT)
        if isinstance(op, ast.MatMult):
            if a.ty == MAT and b.ty == MAT:
                return self.bind(pre, "PMat.matmul %s %s" % (a.code, b.code), MAT)
            raise Unsupported("%s @ %s" % (a.ty, b.ty))
        if isinstance(op, (ast.Add, ast.Sub)):
            plus = isinstance(op, ast.Add)
            if a.ty == MAT and b.ty == MAT:
                return self.bind(pre, "PMat.%s %s %s" % ("add" if plus else "sub", a.code, b.code), MAT)
            if a.ty == MAT and (b.ty == NUM or ints(b)) and plus:
                return V("(PMat.addNum %s %s)" % (a.code, self.as_num(b)), MAT)
            if ints(a) and ints(b):
                if a.lit is not None and b.lit is not None:
                    k = a.lit + b.lit if plus else a.lit - b.lit
                    return V("(%d : Int)" % k, INT, lit=k)
                if plus and a.ty == NAT and b.ty == NAT and a.lit is None and b.lit is None:
                    return V("(%s + %s)" % (a.code, b.code), NAT)
                return V("(%s %s %s)" % (self.as_int(a), "+" if plus else "-", self.as_int(b)), INT)
            if plus and a.ty == SS:
                return self.call_method("__add__", a, [b], pre)
            if plus and b.ty == SS and a.ty in (NUM, MAT, INT, NAT):
                return self.call_method("__radd__", b, [a], pre)
            if not plus and a.ty == SS:
                return self.call_method("__sub__", a, [b], pre)
            if not plus and b.ty == SS and a.ty in (NUM, MAT, INT, NAT):
                return self.call_method("__rsub__", b, [a], pre)
            raise Unsupported("%s %s %s" % (a.ty, "+" if plus else "-", b.ty))
        if isinstance(op, ast.Mult):
            if (a.ty == NUM or ints(a)) and b.ty == MAT:
                return V("(PMat.smul %s %s)" % (self.as_num(a), b.code), MAT)
            if a.ty == MAT and (b.ty == NUM or ints(b)):
                return V("(PMat.mulNum %s %s)" % (a.code, self.as_num(b)), MAT)
            if a.ty == SS:
                return self.call_method("__mul__", a, [b], pre)
            if b.ty == SS and a.ty in (NUM, MAT, INT, NAT):
                return self.call_method("__rmul__", b, [a], pre)
            if ints(a) and ints(b) and a.ty == NAT and b.ty == NAT:
                return V("(%s * %s)" % (self.as_nat(a), self.as_nat(b)), NAT)
            raise Unsupported("%s * %s" % (a.ty, b.ty))
        if isinstance(op, ast.Div):
            if (a.ty == NUM or ints(a)) and (b.ty == NUM or ints(b)):
                return self.bind(pre, "PyNum.div %s %s" % (self.as_num(a), self.as_num(b)), NUM)
            if a.ty == SS:
                return self.call_method("__truediv__", a, [b], pre)
            if b.ty == SS and a.ty in (NUM, MAT, INT, NAT):
                return self.call_method("__rtruediv__", b, [a], pre)
            raise Unsupported("%s / %s" % (a.ty, b.ty))
        if isinstance(op, ast.Pow):
            if a.ty == SS and ints(b):
                return self.call_method("__pow__", a, [b], pre, raw=[self.as_int(b)])
            raise Unsupported("%s ** %s" % (a.ty, b.ty))
        raise Unsupported("operator %s" % type(op).__name__)

    def call_method(self, name, recv, args, pre, raw=None):
        """a call of a generated sibling method (or of the method being generated: recursion)"""
        if name == self.job["func"]:
            if not self.job.get("recursive"):
                raise Unsupported("recursive call of %s" % name)
            lean = self.job["lean"]
        elif name in self.available:
            lean = self.available[name]
        else:
            raise Unsupported("call of %s, which has no generated counterpart (yet)" % name)
        if raw is None:
            raw = [self.as_operand(x) for x in args]
        return self.bind(pre, " ".join([lean, recv.code] + raw), SS)

    def dotted(self, node):
        try:
            return ast.unparse(node)
        except Exception:
            return None

    def call(self, node, env, pre):
        f = self.dotted(node.func)
        args, kws = node.args, {k.arg: k.value for k in node.keywords}
        # method calls on values
        if isinstance(node.func, ast.Attribute) and node.func.attr == "issiso" and not args and not kws:
            v = self.expr(node.func.value, env, pre)
            if v.ty == SS:
                return V("(PySS.issiso %s = true)" % v.code, PROP)
        if f in ("zeros", "np.zeros", "np.ones"):
            self.need("zeros" if f == "zeros" else "np", IMPORTS["zeros" if f == "zeros" else "np"])
            if len(args) == 1 and isinstance(args[0], ast.Tuple) and len(args[0].elts) == 2 and not kws:
                r = self.expr(args[0].elts[0], env, pre)
                c = self.expr(args[0].elts[1], env, pre)
                fn = "ones" if f.endswith("ones") else "zeros"
                if self.nat_ok(r) and self.nat_ok(c):
                    return V("(PMat.%s %s %s)" % (fn, self.as_nat(r), self.as_nat(c)), MAT)
                if fn == "zeros":
                    return self.bind(pre, "PMat.zerosI %s %s" % (self.as_int(r), self.as_int(c)), MAT)
            raise Unsupported("call %s" % ast.unparse(node)[:80])
        if f in ("eye", "np.eye") and len(args) == 1 and not kws:
            self.need("eye" if f == "eye" else "np", ("from", "numpy") if f == "eye" else IMPORTS["np"])
            n = self.expr(args[0], env, pre)
            if self.nat_ok(n):
                return V("(PMat.eye %s)" % self.as_nat(n), MAT)
            return self.bind(pre, "PMat.eyeI %s" % self.as_int(n), MAT)
        if f == "np.ones_like" and len(args) == 1 and not kws:
            self.need("np", IMPORTS["np"])
            v = self.expr(args[0], env, pre)
            if v.ty == MAT:
                return V("(PMat.onesLike %s)" % v.code, MAT)
        if f == "np.atleast_2d" and len(args) == 1 and not kws:
            self.need("np", IMPORTS["np"])
            v = self.expr(args[0], env, pre)
            if v.ty == MAT:
                return V("(PMat.atleast2d %s)" % v.code, MAT)
        if f in ("concatenate", "np.concatenate") and len(args) == 1 and isinstance(args[0], ast.Tuple) \
                and set(kws) == {"axis"} and isinstance(kws["axis"], ast.Constant) and kws["axis"].value in (0, 1):
            self.need("concatenate" if f == "concatenate" else "np",
                      IMPORTS["concatenate" if f == "concatenate" else "np"])
            parts = [self.expr(e, env, pre) for e in args[0].elts]
            if len(parts) < 2 or any(p.ty != MAT for p in parts):
                raise Unsupported("concatenate of %s" % [p.ty for p in parts])
            fn = "PMat.hcat" if kws["axis"].value == 1 else "PMat.vcat"
            acc = parts[-1]
            for p in reversed(parts[:-1]):
                acc = self.bind(pre, "%s %s %s" % (fn, p.code, acc.code), MAT)
            return acc
        if f == "np.block" and len(args) == 1 and isinstance(args[0], ast.List) and not kws \
                and all(isinstance(r, ast.List) for r in args[0].elts):
            self.need("np", IMPORTS["np"])
            rows = []
            for r in args[0].elts:
                vs = [self.expr(e, env, pre) for e in r.elts]
                if any(x.ty != MAT for x in vs):
                    raise Unsupported("np.block of %s" % [x.ty for x in vs])
                rows.append("[" + ", ".join(x.code for x in vs) + "]")
            return self.bind(pre, "PMat.block [" + ", ".join(rows) + "]", MAT)
        if f in ("solve", "np.linalg.solve") and len(args) == 2 and not kws:
            self.need("solve" if f == "solve" else "np", IMPORTS["solve" if f == "solve" else "np"])
            a = self.expr(args[0], env, pre)
            b = self.expr(args[1], env, pre)
            if a.ty == MAT and b.ty == MAT:
                return self.bind(pre, "PMat.solve %s %s" % (a.code, b.code), MAT)
        if f == "scipy.linalg.inv" and len(args) == 1 and not kws:
            self.need("scipy", IMPORTS["scipy"])
            a = self.expr(args[0], env, pre)
            if a.ty == MAT:
                return self.bind(pre, "PMat.inv %s" % a.code, MAT)
        if f in ("matrix_rank", "np.linalg.matrix_rank") and len(args) == 1 and not kws:
            self.need("matrix_rank" if f == "matrix_rank" else "np",
                      IMPORTS["matrix_rank" if f == "matrix_rank" else "np"])
            a = self.expr(args[0], env, pre)
            if a.ty == MAT:
                return V("(PMat.rank %s)" % a.code, NAT)
        if f == "common_timebase" and len(args) == 2 and not kws:
            self.need("common_timebase", IMPORTS["common_timebase"])
            a = self.expr(args[0], env, pre)
            b = self.expr(args[1], env, pre)
            if a.ty == DT and b.ty == DT:
                return self.bind(pre, "common %s %s" % (a.code, b.code), DT)
        if f == "_convert_to_statespace" and len(args) == 1 and not kws:
            self.need("_convert_to_statespace", ("def",))
            a = self.expr(args[0], env, pre)
            return V("(PySS.convert %s)" % self.as_operand(a), SS)
        if f == "min" and len(args) == 2 and not kws:
            a = self.expr(args[0], env, pre)
            b = self.expr(args[1], env, pre)
            if a.ty == NAT and b.ty == NAT:
                return V("(min %s %s)" % (a.code, b.code), NAT)
            return V("(min %s %s)" % (self.as_int(a), self.as_int(b)), INT)
        if f == "StateSpace" and len(args) == 5 and not kws:
            self.need("StateSpace", ("class",))
            if all(isinstance(x, ast.List) and not x.elts for x in args[:3]):
                d = self.expr(args[3], env, pre)
                dt = self.expr(args[4], env, pre)
                if d.ty == MAT and dt.ty == DT:
                    return V("(PySS.mkStatic %s %s)" % (d.code, dt.code), SS)
            vs = [self.expr(x, env, pre) for x in args]
            if [x.ty for x in vs] == [MAT, MAT, MAT, MAT, DT]:
                return self.bind(pre, "PySS.mk " + " ".join(x.code for x in vs), SS)
            raise Unsupported("StateSpace(%s)" % ", ".join(x.ty for x in vs))
        if f == "bdalg.append" and len(args) == 1 and isinstance(args[0], ast.Starred) and not kws:
            # bdalg.append(*([x] * k))
            self.need("bdalg", IMPORTS["bdalg"])
            inner = args[0].value
            if isinstance(inner, ast.BinOp) and isinstance(inner.op, ast.Mult) and isinstance(inner.left, ast.List) \
                    and len(inner.left.elts) == 1:
                x = self.expr(inner.left.elts[0], env, pre)
                k = self.expr(inner.right, env, pre)
                if x.ty == SS and self.nat_ok(k):
                    if "append" not in self.available:
                        raise Unsupported("bdalg.append before StateSpace.append has been generated")
                    return self.bind(pre, "PySS.appendCopies %s %s %s" % (self.available["append"], x.code,
                                                                          self.as_nat(k)), SS)
        raise Unsupported("call %s" % ast.unparse(node)[:80])

    def nat_ok(self, v):
        return v.ty == NAT or (v.lit is not None and v.lit >= 0)

    # -- statements ---------------------------------------------------------------------------
    def is_doc(self, s):
        return isinstance(s, ast.Expr) and isinstance(s.value, ast.Constant) and isinstance(s.value.value, str)

    def value_stmt(self, v, pre):
        """the lines that end a block with the value `v` (a `return v`)"""
        if v.ty != SS:
            raise Unsupported("returns a %s" % v.ty)
        # a value bound by the last temporary is returned directly
        if pre and pre[-1].startswith("let %s ← " % v.code):
            last = pre.pop()
            return pre + [last[len("let %s ← " % v.code):]]
        return pre + ["pure %s" % v.code]

    def let(self, name, v, env, pre):
        """`name = v` (static type follows the value)"""
        if v.ty in (SHAPE, PROP):
            raise Unsupported("assignment of a %s" % v.ty)
        self.locals.add(name)
        lines = pre
        if pre and pre[-1].startswith("let %s ← " % v.code) and re.fullmatch(r"t\d+", v.code):
            last = pre.pop()
            self.ntmp -= 1
            lines = pre + ["let %s ← %s" % (name, last[len("let %s ← " % v.code):])]
        else:
            code = v.code
            if v.lit is not None:
                code = "(%d : Int)" % v.lit
            lines = pre + ["let %s : %s := %s" % (name, LEAN_TY[v.ty], code)]
        env[name] = V(name, v.ty)
        return lines

    def seq(self, stmts, env, tail):
        """translate a statement list; returns (lines, ended).  `tail`: None = the block must end in
        return / raise; a list of variable names = a branch of a join: ends with `pure (vars)`."""
        lines = []
        stmts = [s for s in stmts if not self.is_doc(s) and not isinstance(s, (ast.ImportFrom, ast.Pass))]
        for idx, s in enumerate(stmts):
            rest = stmts[idx + 1:]
            if isinstance(s, ast.Return):
                if s.value is None:
                    raise Unsupported("bare return")
                if isinstance(s.value, ast.Name) and s.value.id == "NotImplemented":
                    return lines + ["throw Err.notImplemented"], True
                pre = []
                v = self.expr(s.value, env, pre)
                return lines + self.value_stmt(v, pre), True
            if isinstance(s, ast.Raise):
                e = s.exc
                if isinstance(e, ast.Call) and isinstance(e.func, ast.Name) and e.func.id == "ValueError" \
                        and len(e.args) == 1:
                    msg = e.args[0]
                    if isinstance(msg, ast.Constant) and isinstance(msg.value, str):
                        return lines + ["throw Err.%s" % classify_message(msg.value)], True
                raise Unsupported("raise %s" % ast.unparse(s)[:60])
            if isinstance(s, ast.Assign) and len(s.targets) == 1:
                t = s.targets[0]
                if isinstance(t, ast.Name):
                    pre = []
                    v = self.expr(s.value, env, pre)
                    lines += self.let(t.id, v, env, pre)
                    continue
                if isinstance(t, ast.Tuple) and isinstance(s.value, ast.Tuple) and len(t.elts) == len(s.value.elts) \
                        and all(isinstance(x, ast.Name) for x in t.elts):
                    names = [x.id for x in t.elts]
                    used = {n.id for n in ast.walk(s.value) if isinstance(n, ast.Name)}
                    if used & set(names):
                        raise Unsupported("tuple assignment that reads its own targets")
                    for nm, val in zip(names, s.value.elts):
                        pre = []
                        v = self.expr(val, env, pre)
                        lines += self.let(nm, v, env, pre)
                    continue
                if isinstance(t, ast.Subscript) and isinstance(t.value, ast.Name):
                    x = self.expr(t.value, env, [])
                    if x.ty != MAT:
                        raise Unsupported("item assignment on %s" % x.ty)
                    rs, cs = self.two_slices(t.slice)
                    pre = []
                    bounds = [self.slice_bound(rs.lower if rs else None, env, pre),
                              self.slice_bound(rs.upper if rs else None, env, pre),
                              self.slice_bound(cs.lower if cs else None, env, pre),
                              self.slice_bound(cs.upper if cs else None, env, pre)]
                    v = self.expr(s.value, env, pre)
                    if v.ty != MAT:
                        raise Unsupported("slice assignment of a %s" % v.ty)
                    lines += pre + ["let %s ← PMat.setSlice %s %s %s" % (t.value.id, x.code, " ".join(bounds), v.code)]
                    env[t.value.id] = V(t.value.id, MAT)
                    continue
                raise Unsupported("assignment %s" % ast.unparse(s)[:60])
            if isinstance(s, ast.Try):
                got = self.try_stmt(s, env)
                if got[0] == "convert":
                    lines += got[1]
                    continue
                if got[0] == "guard":
                    lines += got[1]
                    if got[2]:
                        return lines, True
                    continue
            if isinstance(s, ast.If):
                # `if not isinstance(x, StateSpace): x = _convert_to_statespace(x)` on an operand of unknown kind
                conv = self.convert_if(s, env)
                if conv is not None:
                    lines += conv
                    continue
                pre = []
                st, cond = self.test(s.test, env, pre)
                if st is True:
                    sub, ended = self.seq(list(s.body) + rest, env, tail)
                    return lines + pre + sub, ended
                if st is False:
                    sub, ended = self.seq(list(s.orelse) + rest, env, tail)
                    return lines + pre + sub, ended
                hyp = ("h%d : " % self.next_hyp()) if self.job.get("recursive") else ""
                save, save_h = self.ntmp, getattr(self, "nhyp", 0)
                benv, eenv = dict(env), dict(env)
                bl, b_end = self.seq(list(s.body), benv, [])
                el, e_end = self.seq(list(s.orelse), eenv, [])
                self.ntmp, self.nhyp = save, save_h
                if b_end or e_end:
                    # continuation style: the rest of the block goes into the branch(es) that go on
                    benv, eenv = dict(env), dict(env)
                    bl, b_end = self.seq(list(s.body) + ([] if b_end else rest), benv, tail)
                    el, e_end = self.seq(list(s.orelse) + ([] if e_end else rest), eenv, tail)
                    return (lines + pre + ["if %s%s then" % (hyp, cond)] + _ind(bl) + ["else"] + _ind(el)), \
                        (b_end and e_end)
                # join: variables assigned in a branch that are known afterwards
                names = sorted(self.assigned(s.body) | self.assigned(s.orelse))
                live = []
                for nm in names:
                    tb, te = benv.get(nm), eenv.get(nm)
                    if tb is None or te is None:
                        continue            # defined on one path only: not available afterwards
                    if tb.ty != te.ty:
                        if {tb.ty, te.ty} == {NAT, INT}:
                            live.append((nm, INT))      # a size and an int: both as Python ints
                            continue
                        raise Unsupported("`%s` has type %s / %s after the branches" % (nm, tb.ty, te.ty))
                    live.append((nm, tb.ty))
                if not live:
                    raise Unsupported("an if statement without effect")
                benv, eenv = dict(env), dict(env)
                bl, _ = self.seq(list(s.body), benv, live)
                el, _ = self.seq(list(s.orelse), eenv, live)
                tys = [LEAN_TY[t] for _, t in live]
                pat = live[0][0] if len(live) == 1 else "(" + ", ".join(nm for nm, _ in live) + ")"
                ty = tys[0] if len(tys) == 1 else " × ".join(tys)
                lines += pre + ["let %s ← (do" % pat] + _ind(["if %s%s then" % (hyp, cond)] + _ind(bl) + ["else"] + _ind(el)) \
                    + ["  : Except Err (%s))" % ty]
                for nm, t in live:
                    env[nm] = V(nm, t)
                    self.locals.add(nm)
                live = [nm for nm, _ in live]
                for nm in names:
                    if nm not in live:
                        env.pop(nm, None)
                continue
            raise Unsupported("statement %s" % ast.unparse(s)[:60])
        if tail is None:
            self.notes.append("a path falls off the end of the method (Python returns None): `throw Err.badArg`")
            return lines + ["throw Err.badArg"], True
        if tail == []:
            return lines, False
        vals = []
        for nm, t in tail:
            if nm not in env:
                raise Unsupported("internal: join variable undefined")
            vals.append(self.as_int(env[nm]) if (t == INT and env[nm].ty == NAT) else env[nm].code)
        return lines + ["pure %s" % (vals[0] if len(vals) == 1 else "(" + ", ".join(vals) + ")")], False

    def next_hyp(self):
        self.nhyp = getattr(self, "nhyp", 0) + 1
        return self.nhyp

    def assigned(self, stmts):
        out = set()
        for s in stmts:
            for n in ast.walk(s):
                if isinstance(n, ast.Assign):
                    for t in n.targets:
                        for x in ast.walk(t):
                            if isinstance(x, ast.Name) and isinstance(x.ctx, ast.Store):
                                out.add(x.id)
                            elif isinstance(x, ast.Subscript) and isinstance(x.value, ast.Name):
                                out.add(x.value.id)
        return out

    def convert_if(self, s, env):
        """`if not isinstance(x, StateSpace): x = _convert_to_statespace(x)` for an operand of unknown kind:
        `_convert_to_statespace` returns a StateSpace argument as it is, so this is `x = convert(x)`"""
        t = s.test
        if not (isinstance(t, ast.UnaryOp) and isinstance(t.op, ast.Not) and isinstance(t.operand, ast.Call)
                and ast.unparse(t.operand.func) == "isinstance" and len(t.operand.args) == 2
                and isinstance(t.operand.args[0], ast.Name) and ast.unparse(t.operand.args[1]) == "StateSpace"):
            return None
        x = t.operand.args[0].id
        if x not in env or env[x].ty != OPERAND or s.orelse or len(s.body) != 1:
            return None
        b = s.body[0]
        if not (isinstance(b, ast.Assign) and len(b.targets) == 1 and isinstance(b.targets[0], ast.Name)
                and b.targets[0].id == x and ast.unparse(b.value) == "_convert_to_statespace(%s)" % x):
            return None
        self.need("_convert_to_statespace", ("def",))
        self.notes.append("`if not isinstance(%s, StateSpace): %s = _convert_to_statespace(%s)` is read as "
                          "`%s = _convert_to_statespace(%s)` (the function returns a StateSpace unchanged)" % ((x,) * 5))
        code = "(PySS.convert %s)" % env[x].code
        env[x] = V(x, SS)
        self.locals.add(x)
        return ["let %s : DSS K := %s" % (x, code)]

    def try_stmt(self, s, env):
        if s.orelse or s.finalbody or len(s.handlers) != 1:
            raise Unsupported("try statement shape")
        h = s.handlers[0]
        # try: x = _convert_to_statespace(x) / except: pass
        if h.type is None and len(h.body) == 1 and isinstance(h.body[0], ast.Pass) and len(s.body) == 1:
            b = s.body[0]
            if isinstance(b, ast.Assign) and len(b.targets) == 1 and isinstance(b.targets[0], ast.Name) \
                    and ast.unparse(b.value) == "_convert_to_statespace(%s)" % b.targets[0].id:
                x = b.targets[0].id
                self.need("_convert_to_statespace", ("def",))
                self.notes.append("`try: %s = _convert_to_statespace(%s) except: pass`: the conversion cannot fail on "
                                  "the three kinds of operand" % (x, x))
                code = "(PySS.convert %s)" % self.as_operand(env[x])
                env[x] = V(x, SS)
                self.locals.add(x)
                return ("convert", ["let %s : DSS K := %s" % (x, code)])
        # try: <stmts> except <E>: return NotImplemented
        if h.type is not None and len(h.body) == 1 and isinstance(h.body[0], ast.Return) \
                and isinstance(h.body[0].value, ast.Name) and h.body[0].value.id == "NotImplemented":
            exc = ast.unparse(h.type)
            if exc == "ValueError":
                pred = "PySS.isValueError"
            elif exc in ("scipy.linalg.LinAlgError", "LinAlgError", "np.linalg.LinAlgError"):
                pred = "PySS.isLinAlgError"
            else:
                raise Unsupported("except %s" % exc)
            names = sorted(self.assigned(s.body))
            benv = dict(env)
            probe_env = dict(env)
            save = self.ntmp
            self.seq(list(s.body), probe_env, [])
            self.ntmp = save
            bl, ended = self.seq(list(s.body), benv, None if self.always_ends(s.body)
                                 else [(nm, probe_env[nm].ty) for nm in names])
            handler = ["| .error e => if %s e then throw Err.notImplemented else throw e" % pred]
            if ended:
                return ("guard", ["match (do"] + _ind(bl, 4) + ["    : Except Err (DSS K)) with",
                                                                 "| .ok v => pure v"] + handler, True)
            tys = [LEAN_TY[benv[nm].ty] for nm in names]
            pat = names[0] if len(names) == 1 else "(" + ", ".join(names) + ")"
            ty = tys[0] if len(tys) == 1 else " × ".join(tys)
            for nm in names:
                env[nm] = V(nm, benv[nm].ty)
                self.locals.add(nm)
            return ("guard", ["let %s ← (match (do" % pat] + _ind(bl, 4) + ["    : Except Err (%s)) with" % ty,
                                                                        "  | .ok v => pure v"]
                    + ["  " + handler[0] + ")"], False)
        raise Unsupported("try statement %s" % ast.unparse(s)[:60])

    def always_ends(self, stmts):
        return bool(stmts) and isinstance(stmts[-1], (ast.Return, ast.Raise))


# -------------------------------------------------------------------------------------------------
# jobs: (python method, lean name, kind, extra parameters [(name, type)], expected defaults, out file)
#   kind 'unary'    : (self)
#        'dispatch' : (self, other) translated once per kind of `other`
#        'operand'  : (self, other, ...) `other` is converted by the body (`_convert_to_statespace`)
#        'int'      : (self, other) with an int `other` (`__pow__`)
# -------------------------------------------------------------------------------------------------
JOBS = [
    dict(func="__neg__", lean="ssNeg", kind="unary", extra=[], defaults={}, out="SSBasic.lean"),
    dict(func="append", lean="ssAppend", kind="operand", extra=[], defaults={}, out="SSBasic.lean"),
    dict(func="__mul__", lean="ssMul", kind="dispatch", extra=[], defaults={}, out="SSMul.lean"),
    dict(func="__rmul__", lean="ssRmul", kind="dispatch", extra=[], defaults={}, out="SSMul.lean"),
    dict(func="__add__", lean="ssAdd", kind="dispatch", extra=[], defaults={}, out="SSAdd.lean"),
    dict(func="__radd__", lean="ssRadd", kind="dispatch", extra=[], defaults={}, out="SSAdd.lean"),
    dict(func="__sub__", lean="ssSub", kind="dispatch", extra=[], defaults={}, out="SSAdd.lean"),
    dict(func="__rsub__", lean="ssRsub", kind="dispatch", extra=[], defaults={}, out="SSAdd.lean"),
    dict(func="feedback", lean="ssFeedback", kind="operand", extra=[("sign", NUM)],
         defaults={"other": "1", "sign": "-1"}, out="SSFeedback.lean"),
    dict(func="__pow__", lean="ssPow", kind="int", extra=[], defaults={}, out="SSPow.lean", recursive=True,
         termination="termination_by 2 * other.natAbs + min 1 (-other).toNat\n"
                     "decreasing_by all_goals (simp_wf; omega)"),
    dict(func="__rtruediv__", lean="ssRtruediv", kind="dispatch", extra=[], defaults={}, out="SSPow.lean"),
    dict(func="__truediv__", lean="ssTruediv", kind="dispatch", extra=[], defaults={}, out="SSPow.lean",
         skip_kinds={"array": "`1 / ndarray` (element-wise reciprocal, inf for a zero entry) is not modelled"}),
    dict(func="lft", lean="ssLft", kind="operand", extra=[("nu", INT), ("ny", INT)],
         defaults={"nu": "-1", "ny": "-1"}, out="SSLft.lean"),
]
FILES = [("SSBasic.lean", []), ("SSMul.lean", ["SSBasic"]), ("SSAdd.lean", ["SSMul"]), ("SSFeedback.lean", []),
         ("SSPow.lean", ["SSMul"]), ("SSLft.lean", [])]
REL = "control/statesp.py"
KINDS = [("scalar", NUM, "| .scalar other =>", []),
         ("array", MAT, "| .array other_r other_c other_M =>", ["let other : PMat K := ⟨other_r, other_c, other_M⟩"]),
         ("sys", SS, "| .sys other =>", [])]


def find_method(module, cls, func):
    for node in module.body:
        if isinstance(node, ast.ClassDef) and node.name == cls:
            found = [n for n in node.body if isinstance(n, ast.FunctionDef) and n.name == func]
            if len(found) == 1:
                return found[0]
            raise Unsupported("method %s.%s %s" % (cls, func, "not found" if not found else "defined twice"))
    raise Unsupported("class %s not found" % cls)


def signature(job):
    if job["kind"] == "unary":
        return "(self : DSS K)"
    if job["kind"] == "int":
        return "(self : DSS K) (other : Int)"
    return "(self : DSS K) (other : SOperand K)" + "".join(" (%s : %s)" % (n, LEAN_TY[t]) for n, t in job["extra"])


def translate(src, module, bindings, job, available):
    """-> (lean text of the definition, info)"""
    fn = find_method(module, "StateSpace", job["func"])
    a = fn.args
    if a.vararg or a.kwarg or a.kwonlyargs or a.posonlyargs:
        raise Unsupported("signature")
    got = [x.arg for x in a.args]
    want = ["self"] + ([] if job["kind"] == "unary" else ["other"]) + [n for n, _ in job["extra"]]
    if got != want:
        raise Unsupported("parameters %s, expected %s" % (got, want))
    defaults = dict(zip(got[len(got) - len(a.defaults):], [ast.unparse(d) for d in a.defaults]))
    if defaults != job["defaults"]:
        raise Unsupported("default values %s, expected %s" % (defaults, job["defaults"]))
    text = ast.get_source_segment(src, fn)
    sha = hashlib.sha256(text.encode()).hexdigest()
    notes = []
    base_env = {"self": V("self", SS)}
    for n, t in job["extra"]:
        base_env[n] = V(n, t)
    body = []
    ntmp = 0
    if job["kind"] in ("unary", "operand", "int"):
        tr = Translator(job, bindings, available)
        env = dict(base_env)
        if job["kind"] == "operand":
            env["other"] = V("other", OPERAND)
        if job["kind"] == "int":
            env["other"] = V("other", INT)
        lines, _ = tr.seq(fn.body, env, None)
        body = ["do"] + _ind(lines)
        notes += tr.notes
        ntmp = tr.ntmp
    else:
        body = ["match other with"]
        for kname, kty, arm, intro in KINDS:
            if kname in job.get("skip_kinds", {}):
                notes.append("kind %s: %s" % (kname, job["skip_kinds"][kname]))
                body += [arm + " throw Err.notImplemented   -- not modelled: " + job["skip_kinds"][kname]]
                continue
            tr = Translator(job, bindings, available)
            env = dict(base_env)
            env["other"] = V("other", kty)
            lines, _ = tr.seq(fn.body, env, None)
            body += [arm + " do"] + _ind(intro + lines)
            notes += ["kind %s: %s" % (kname, n) for n in tr.notes]
            ntmp = max(ntmp, tr.ntmp)
    where = REL + ":StateSpace." + job["func"]
    doc = ("/-- `%s` as the source text says it (sha256 of the function text\n%s).\nDefaults: %s.%s -/\n" % (
        where, sha, ", ".join("%s=%s" % kv for kv in sorted(defaults.items())) or "none",
        "".join("\n  note: " + n.replace("-/", "- /") for n in notes)))
    lean = doc + "def %s %s : Except Err (DSS K) :=\n" % (job["lean"], signature(job)) + "\n".join(_ind(body)) + "\n"
    if job.get("termination"):
        lean += job["termination"] + "\n"
    return lean, {"sha": sha, "lines": fn.end_lineno - fn.lineno + 1, "temporaries": ntmp, "notes": notes}


def regenerate(repo, lean_dir, only=None):
    """Rewrite Generated/SS*.lean; returns (list of problems, info dict).  The files are deterministic
    functions of the source text (no timestamps) and rewritten only when changed."""
    problems, info = [], {}
    gen_dir = os.path.join(lean_dir, "CtrlVerif", "Generated")
    os.makedirs(gen_dir, exist_ok=True)
    path = os.path.join(repo, REL)
    try:
        src = open(path).read()
        module = ast.parse(src)
        bindings = module_bindings(module)
        load_error = None
    except (OSError, SyntaxError) as e:
        src = module = bindings = None
        load_error = str(e)
    available = {}
    texts = {out: [] for out, _ in FILES}
    for job in JOBS:
        where = REL + ":StateSpace." + job["func"]
        try:
            if load_error:
                raise Unsupported(load_error)
            lean, inf = translate(src, module, bindings, job, available)
            info[job["func"]] = inf
        except Unsupported as e:
            msg = str(e).replace("\n", " ").replace("-/", "- /")[:300]
            problems.append("py2lean_ss: %s cannot be translated: %s" % (where, msg))
            # a definition that cannot be equal to the model, so the obligation visibly fails
            lean = "/-- translation of `%s` FAILED: %s -/\ndef %s %s : Except Err (DSS K) :=\n  .error Err.notImplemented\n" % (
                where, msg, job["lean"], signature(job).replace("(self :", "(_self :").replace("(other :", "(_other :"))
        available[job["func"]] = job["lean"]
        texts[job["out"]].append(lean)
    for out, deps in FILES:
        if only and out not in only:
            continue
        shas = ", ".join("%s %s" % (j["func"], info[j["func"]]["sha"][:16] if j["func"] in info else "FAILED")
                         for j in JOBS if j["out"] == out)
        text = ("-- GENERATED on every run by harness/core/py2lean_ss.py from %s (%s).  Do not edit.\n" % (REL, shas)
                + "import CtrlVerif.Model.PyMat\n"
                + "".join("import CtrlVerif.Generated.%s\n" % d for d in deps)
                + "\nnamespace CtrlVerif.Generated\n\nopen CtrlVerif\n\nnoncomputable section\n\n"
                + "variable {K : Type} [Field K] [DecidableEq K]\n\n"
                + "\n".join(texts[out]) + "\nend\n\nend CtrlVerif.Generated\n")
        p = os.path.join(gen_dir, out)
        old = open(p).read() if os.path.exists(p) else None
        if old != text:
            with open(p, "w") as f:
                f.write(text)
    return problems, info


if __name__ == "__main__":
    import sys
    probs, inf = regenerate(sys.argv[1], sys.argv[2])
    for p in probs:
        print("PROBLEM", p)
    for k, v in inf.items():
        print(k, v["sha"][:16], v["lines"], "lines,", v["temporaries"], "temporaries", v["notes"])
