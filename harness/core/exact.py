"""Exact arithmetic helpers: floats -> Fractions, token encodings, polynomials over Fraction."""
from fractions import Fraction
import math


def fr(x):
    """exact rational value of a Python/NumPy real number"""
    if isinstance(x, Fraction):
        return x
    if isinstance(x, bool):
        return Fraction(int(x))
    if isinstance(x, int):
        return Fraction(x)
    xf = float(x)
    if math.isnan(xf) or math.isinf(xf):
        raise ValueError("non-finite")
    return Fraction(xf)


def tok(q):
    q = Fraction(q)
    return str(q.numerator) if q.denominator == 1 else "%d/%d" % (q.numerator, q.denominator)


def untok(s):
    return Fraction(s)


def toks(lst):
    return "%d%s" % (len(lst), "".join(" " + tok(x) for x in lst))


def dt_tok(dt):
    if dt is None:
        return "N"
    if dt is True:
        return "T"
    if dt == 0:
        return "C"
    return "D" + tok(fr(dt))


def dt_untok(s):
    if s == "N":
        return None
    if s == "T":
        return True
    if s == "C":
        return 0
    return Fraction(s[1:])


def dt_canon(dt):
    """canonical JSON-able form of an implementation timebase"""
    if dt is None:
        return "N"
    if dt is True:
        return "T"
    if dt is False:
        return "F"
    if dt == 0:
        return "C"
    return "D" + tok(fr(dt))


# polynomials: lists of Fraction, highest power first
def ptrim(p):
    p = list(p)
    while len(p) > 1 and p[0] == 0:
        p.pop(0)
    return p or [Fraction(0)]


def pmul(p, q):
    out = [Fraction(0)] * (len(p) + len(q) - 1)
    for i, a in enumerate(p):
        for j, b in enumerate(q):
            out[i + j] += a * b
    return out


def padd(p, q):
    n = max(len(p), len(q))
    p = [Fraction(0)] * (n - len(p)) + list(p)
    q = [Fraction(0)] * (n - len(q)) + list(q)
    return [a + b for a, b in zip(p, q)]


def pscale(c, p):
    return [c * a for a in p]


def pzero(p):
    return all(a == 0 for a in p)


def pval(p, x):
    acc = Fraction(0)
    for a in p:
        acc = acc * x + a
    return acc


def frac_equal(n1, d1, n2, d2):
    """n1/d1 == n2/d2 as rational functions (d1, d2 non-zero polynomials)"""
    return pzero(padd(pmul(n1, d2), pscale(Fraction(-1), pmul(n2, d1))))


class Tokens:
    def __init__(self, s):
        self.t = s.split()
        self.i = 0

    def next(self):
        v = self.t[self.i]
        self.i += 1
        return v

    def nat(self):
        return int(self.next())

    def rat(self):
        return Fraction(self.next())

    def rats(self):
        n = self.nat()
        return [self.rat() for _ in range(n)]

    def done(self):
        return self.i >= len(self.t)
