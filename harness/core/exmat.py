"""Exact matrices over Fraction (lists of lists): the oracle side of matrix-valued comparisons."""
from fractions import Fraction

from .exact import fr, tok


def zeros(p, m):
    return [[Fraction(0)] * m for _ in range(p)]


def eye(n):
    return [[Fraction(int(i == j)) for j in range(n)] for i in range(n)]


def from_np(a, p=None, m=None):
    """exact Fractions of a 2-D float/int array (shape forced to p x m when given)"""
    import numpy as np
    a = np.asarray(a)
    if p is not None:
        a = a.reshape(p, m)
    return [[fr(x) for x in row] for row in a.tolist()] if a.size else zeros(a.shape[0], a.shape[1])


def from_flat(v, p, m):
    v = [Fraction(x) for x in v]
    return [v[i * m:(i + 1) * m] for i in range(p)]


def flat_tokens(M):
    return [tok(x) for row in M for x in row]


def shape(M, cols=None):
    return (len(M), len(M[0]) if M else (cols or 0))


def mul(A, B, inner=None):
    p = len(A)
    k = len(B)
    m = len(B[0]) if B else 0
    if not B:
        return zeros(p, 0)
    return [[sum((A[i][t] * B[t][j] for t in range(k)), Fraction(0)) for j in range(m)] for i in range(p)]


def add(A, B):
    return [[a + b for a, b in zip(r, s)] for r, s in zip(A, B)]


def sub(A, B):
    return [[a - b for a, b in zip(r, s)] for r, s in zip(A, B)]


def scale(c, A):
    return [[c * a for a in r] for r in A]


def solve(F, R):
    """X with F X = R (F square), or None when F is singular.  Exact Gauss-Jordan."""
    n = len(F)
    k = len(R[0]) if R and R[0] is not None and n else 0
    M = [list(F[i]) + list(R[i]) for i in range(n)]
    for c in range(n):
        piv = None
        for r in range(c, n):
            if M[r][c] != 0:
                piv = r
                break
        if piv is None:
            return None
        M[c], M[piv] = M[piv], M[c]
        pv = M[c][c]
        M[c] = [x / pv for x in M[c]]
        for r in range(n):
            if r != c and M[r][c] != 0:
                f = M[r][c]
                M[r] = [x - f * y for x, y in zip(M[r], M[c])]
    return [row[n:] for row in M]


def det(F):
    n = len(F)
    M = [list(r) for r in F]
    d = Fraction(1)
    for c in range(n):
        piv = None
        for r in range(c, n):
            if M[r][c] != 0:
                piv = r
                break
        if piv is None:
            return Fraction(0)
        if piv != c:
            M[c], M[piv] = M[piv], M[c]
            d = -d
        d *= M[c][c]
        for r in range(c + 1, n):
            if M[r][c] != 0:
                f = M[r][c] / M[c][c]
                M[r] = [x - f * y for x, y in zip(M[r], M[c])]
    return d


def ss_eval(A, B, C, D, s, p, m):
    """C (sI - A)^-1 B + D exactly (None at a pole).  p, m give the I/O shape when n = 0."""
    n = len(A)
    if n == 0:
        return [list(r) for r in D]
    sIA = [[(s if i == j else Fraction(0)) - A[i][j] for j in range(n)] for i in range(n)]
    if m == 0:
        return [list(r) for r in D]
    X = solve(sIA, B)
    if X is None:
        return None
    Y = mul(C, X)
    return add(Y, D) if p else D


def maxabs(M):
    v = [abs(x) for r in M for x in r]
    return max(v) if v else Fraction(0)


def close(A, B, tol):
    """entrywise |a-b| <= tol * max(1, max|B|)"""
    if shape(A) != shape(B) and (A or B):
        if [len(r) for r in A] != [len(r) for r in B]:
            return False
    sc = max(Fraction(1), maxabs(B))
    return all(abs(a - b) <= tol * sc for r, s in zip(A, B) for a, b in zip(r, s))
