"""A small translator Python `ast` -> Lean 4 for pure decision functions of python-control
(DESIGN §2.5).  It regenerates `lean/CtrlVerif/Generated/*.lean` from the source text in /repo on
every run; `Props/*Gen.lean` proves the hand-written model equal to the generated function, so a
semantic edit of the source breaks a proof obligation (and an edit that leaves the supported
subset makes the translation fail, which is reported the same way).

Supported subset (anything else raises `Unsupported`):
  statements : docstring, `if/elif/else`, `return <name>`, `raise ValueError(...)`,
               `if hasattr(x, 'dt'): x = x.dt`   (argument unwrapping: recorded, skipped - the
               generated function takes timebases)
  tests      : `x is None`, `x is not None`, `x is True`, `x is False`, `x > 0`, `x == 0`,
               `np.isclose(x, y)`, `not t`, `t and u`, `t or u`
The meaning of the primitive tests on the abstract timebase type is fixed in
`lean/CtrlVerif/Model/PyDt.lean` (hand-written, 25 lines, part of the trusted base)."""
import ast
import hashlib
import os
import textwrap


class Unsupported(Exception):
    pass


def _name(node):
    if isinstance(node, ast.Name):
        return node.id
    raise Unsupported("expected a variable, got %s" % ast.dump(node)[:80])


def _test(node):
    """Python test -> Lean Bool expression"""
    if isinstance(node, ast.Compare) and len(node.ops) == 1:
        op, lhs, rhs = node.ops[0], node.left, node.comparators[0]
        if isinstance(op, (ast.Is, ast.IsNot)) and isinstance(rhs, ast.Constant):
            if rhs.value is None:
                base = "PyDt.isNone"
            elif rhs.value is True:
                base = "PyDt.isTrue"
            elif rhs.value is False:
                base = "PyDt.isFalse"
            else:
                raise Unsupported("is-comparison with %r" % (rhs.value,))
            e = "%s %s" % (base, _name(lhs))
            return e if isinstance(op, ast.Is) else "(!%s)" % e
        zero = isinstance(rhs, ast.Constant) and type(rhs.value) in (int, float) and rhs.value == 0
        if isinstance(op, ast.Gt) and zero:
            return "PyDt.gtZero %s" % _name(lhs)
        if isinstance(op, ast.Eq) and zero:
            return "PyDt.eqZero %s" % _name(lhs)
        raise Unsupported("comparison %s" % ast.dump(node)[:100])
    if isinstance(node, ast.Call):
        f = node.func
        if isinstance(f, ast.Attribute) and f.attr == "isclose" and isinstance(f.value, ast.Name) \
                and f.value.id == "np" and len(node.args) == 2 and not node.keywords:
            return "PyDt.isclose %s %s" % (_name(node.args[0]), _name(node.args[1]))
        raise Unsupported("call %s" % ast.dump(node)[:100])
    if isinstance(node, ast.UnaryOp) and isinstance(node.op, ast.Not):
        return "(!%s)" % _test(node.operand)
    if isinstance(node, ast.BoolOp):
        op = " && " if isinstance(node.op, ast.And) else " || "
        return "(" + op.join(_test(v) for v in node.values) + ")"
    raise Unsupported("test %s" % ast.dump(node)[:100])


def _is_unwrap(stmt, params):
    """`if hasattr(x, 'dt'): x = x.dt`"""
    if not isinstance(stmt, ast.If) or stmt.orelse or len(stmt.body) != 1:
        return False
    t = stmt.test
    if not (isinstance(t, ast.Call) and isinstance(t.func, ast.Name) and t.func.id == "hasattr"
            and len(t.args) == 2 and isinstance(t.args[0], ast.Name)
            and isinstance(t.args[1], ast.Constant) and t.args[1].value == "dt"):
        return False
    b = stmt.body[0]
    return (isinstance(b, ast.Assign) and len(b.targets) == 1 and isinstance(b.targets[0], ast.Name)
            and b.targets[0].id == t.args[0].id and t.args[0].id in params
            and isinstance(b.value, ast.Attribute) and b.value.attr == "dt"
            and isinstance(b.value.value, ast.Name) and b.value.value.id == t.args[0].id)


def _block(stmts, params, indent):
    """a statement list that must end in return/raise on every path -> Lean expression"""
    pad = "  " * indent
    stmts = [s for s in stmts if not (isinstance(s, ast.Expr) and isinstance(s.value, ast.Constant)
                                      and isinstance(s.value.value, str))]
    if not stmts:
        raise Unsupported("a path falls off the end of the function (returns None implicitly)")
    s, rest = stmts[0], stmts[1:]
    if isinstance(s, ast.Return):
        if rest:
            raise Unsupported("code after return")
        if s.value is None:
            raise Unsupported("bare return")
        v = _name(s.value)
        if v not in params:
            raise Unsupported("returns %s, not a parameter" % v)
        return pad + ".ok %s" % v
    if isinstance(s, ast.Raise):
        if rest:
            raise Unsupported("code after raise")
        e = s.exc
        if isinstance(e, ast.Call) and isinstance(e.func, ast.Name) and e.func.id == "ValueError":
            return pad + ".error .timebase"
        raise Unsupported("raise of %s" % ast.dump(e)[:60])
    if isinstance(s, ast.If):
        cond = _test(s.test)
        then_falls = not _terminates(s.body)
        else_falls = not _terminates(s.orelse) if s.orelse else True
        body = list(s.body) + (rest if then_falls else [])
        orelse = list(s.orelse) + (rest if else_falls else [])
        if rest and not (then_falls or else_falls):
            raise Unsupported("unreachable code after if")
        return (pad + "if %s then\n" % cond + _block(body, params, indent + 1) + "\n"
                + pad + "else\n" + _block(orelse, params, indent + 1))
    raise Unsupported("statement %s" % type(s).__name__)


def _terminates(stmts):
    if not stmts:
        return False
    s = stmts[-1]
    if isinstance(s, (ast.Return, ast.Raise)):
        return True
    if isinstance(s, ast.If):
        return bool(s.orelse) and _terminates(s.body) and _terminates(s.orelse)
    return False


def translate_dt_function(src_path, func, lean_name):
    """Returns (lean_source, info).  Raises Unsupported / FileNotFoundError / SyntaxError."""
    src = open(src_path).read()
    tree = ast.parse(src)
    fn = None
    for node in tree.body:
        if isinstance(node, ast.FunctionDef) and node.name == func:
            fn = node
    if fn is None:
        raise Unsupported("function %s not found in %s" % (func, src_path))
    a = fn.args
    if a.vararg or a.kwarg or a.kwonlyargs or a.defaults or a.posonlyargs:
        raise Unsupported("signature")
    params = [x.arg for x in a.args]
    body = list(fn.body)
    unwrapped = []
    kept = []
    for s in body:
        if _is_unwrap(s, params) and not kept_nontrivial(kept):
            unwrapped.append(s.test.args[0].id)
        else:
            kept.append(s)
    text = ast.get_source_segment(src, fn)
    sha = hashlib.sha256(text.encode()).hexdigest()[:16]
    lean = ("-- GENERATED on every run by harness/core/py2lean.py from %s:%s (sha256 %s).  Do not edit.\n"
            "import CtrlVerif.Model.PyDt\n\nnamespace CtrlVerif.Generated\n\n"
            "/-- `%s` as the source text says it, on abstract timebases (arguments that are systems\n"
            "are replaced by their `dt`: %s). -/\n"
            "def %s %s : Except Err Dt :=\n%s\n\nend CtrlVerif.Generated\n") % (
        os.path.relpath(src_path, os.path.dirname(os.path.dirname(src_path))), func, sha, func,
        ", ".join(unwrapped) or "none", lean_name,
        " ".join("(%s : Dt)" % p for p in params), _block(kept, params, 1))
    return lean, {"sha": sha, "params": params, "unwrapped": unwrapped, "lines": fn.end_lineno - fn.lineno + 1}


def kept_nontrivial(kept):
    return any(not (isinstance(s, ast.Expr) and isinstance(s.value, ast.Constant)) for s in kept)


def regenerate(repo, lean_dir):
    """Rewrite the generated files; returns (list of problems, info dict)."""
    problems, info = [], {}
    jobs = [("control/iosys.py", "common_timebase", "commonTimebase", "CommonTimebase.lean")]
    os.makedirs(os.path.join(lean_dir, "CtrlVerif", "Generated"), exist_ok=True)
    for rel, func, lname, out in jobs:
        path = os.path.join(lean_dir, "CtrlVerif", "Generated", out)
        try:
            lean, inf = translate_dt_function(os.path.join(repo, rel), func, lname)
            info[func] = inf
        except (Unsupported, SyntaxError, OSError) as e:
            problems.append("py2lean: %s:%s cannot be translated: %s" % (rel, func, e))
            # a definition that cannot be equal to the model, so the obligation visibly fails
            lean = ("-- GENERATED: translation FAILED (%s)\nimport CtrlVerif.Model.PyDt\n\n"
                    "namespace CtrlVerif.Generated\n\ndef %s (_ _ : Dt) : Except Err Dt := .error .notImplemented\n\n"
                    "end CtrlVerif.Generated\n") % (str(e).replace("\n", " ")[:200], lname)
        old = open(path).read() if os.path.exists(path) else None
        if old != lean:
            with open(path, "w") as f:
                f.write(lean)
    return problems, info


if __name__ == "__main__":
    import sys
    lean, inf = translate_dt_function(sys.argv[1], sys.argv[2], sys.argv[2])
    print(lean)
    print(inf)
