"""A small translator Python `ast` -> Lean 4 for pure decision functions of python-control
(DESIGN §2.5).  It regenerates `lean/CtrlVerif/Generated/*.lean` from the source text in /repo on
every run; `Props/*Gen.lean` proves the hand-written model equal to the generated function, so a
semantic edit of the source breaks a proof obligation (and an edit that leaves the supported
subset makes the translation fail, which is reported the same way).

Supported subset (anything else raises `Unsupported`):
  statements : docstring, `if/elif/else`, `return <name>`, `raise ValueError(...)`,
               `if hasattr(x, 'dt'): x = x.dt`   (argument unwrapping: recorded, skipped - the
               generated function takes timebases)
  tests      : `x is None`, `x is not None`, `x is True`, `x is False`, `x > 0`, `x == 0`,
               `np.isclose(x, y)`, `not t`, `t and u`, `t or u`
The meaning of the primitive tests on the abstract timebase type is fixed in
`lean/CtrlVerif/Model/PyDt.lean` (hand-written, 25 lines, part of the trusted base)."""
import ast
import hashlib
import os
import textwrap


class Unsupported(Exception):
    pass


def _name(node):
    if isinstance(node, ast.Name):
        return node.id
    raise Unsupported("expected a variable, got %s" % ast.dump(node)[:80])


def _test(node):
    """Python test -> Lean Bool expression"""
    if isinstance(node, ast.Compare) and len(node.ops) == 1:
        op, lhs, rhs = node.ops[0], node.left, node.comparators[0]
        if isinstance(op, (ast.Is, ast.IsNot)) and isinstance(rhs, ast.Constant):
            if rhs.value is None:
                base = "PyDt.isNone"
            elif rhs.value is True:
                base = "PyDt.isTrue"
            elif rhs.value is False:
                base = "PyDt.isFalse"
            else:
                raise Unsupported("is-comparison with %r" % (rhs.value,))
            e = "%s %s" % (base, _name(lhs))
            return e if isinstance(op, ast.Is) else "(!%s)" % e
        zero = isinstance(rhs, ast.Constant) and type(rhs.value) in (int, float) and rhs.value == 0
        if isinstance(op, ast.Gt) and zero:
            return "PyDt.gtZero %s" % _name(lhs)
        if isinstance(op, ast.Eq) and zero:
            return "PyDt.eqZero %s" % _name(lhs)
        raise Unsupported("comparison %s" % ast.dump(node)[:100])
    if isinstance(node, ast.Call):
        f = node.func
        if isinstance(f, ast.Attribute) and f.attr == "isclose" and isinstance(f.value, ast.Name) \
                and f.value.id == "np" and len(node.args) == 2 and not node.keywords:
            return "PyDt.isclose %s %s" % (_name(node.args[0]), _name(node.args[1]))
        raise Unsupported("call %s" % ast.dump(node)[:100])
    if isinstance(node, ast.UnaryOp) and isinstance(node.op, ast.Not):
        return "(!%s)" % _test(node.operand)
    if isinstance(node, ast.BoolOp):
        op = " && " if isinstance(node.op, ast.And) else " || "
        return "(" + op.join(_test(v) for v in node.values) + ")"
    raise Unsupported("test %s" % ast.dump(node)[:100])


def _is_unwrap(stmt, params):
    """`if hasattr(x, 'dt'): x = x.dt`"""
    if not isinstance(stmt, ast.If) or stmt.orelse or len(stmt.body) != 1:
        return False
    t = stmt.test
    if not (isinstance(t, ast.Call) and isinstance(t.func, ast.Name) and t.func.id == "hasattr"
            and len(t.args) == 2 and isinstance(t.args[0], ast.Name)
            and isinstance(t.args[1], ast.Constant) and t.args[1].value == "dt"):
        return False
    b = stmt.body[0]
    return (isinstance(b, ast.Assign) and len(b.targets) == 1 and isinstance(b.targets[0], ast.Name)
            and b.targets[0].id == t.args[0].id and t.args[0].id in params
            and isinstance(b.value, ast.Attribute) and b.value.attr == "dt"
            and isinstance(b.value.value, ast.Name) and b.value.value.id == t.args[0].id)


def _block(stmts, params, indent):
    """a statement list that must end in return/raise on every path -> Lean expression"""
    pad = "  " * indent
    stmts = [s for s in stmts if not (isinstance(s, ast.Expr) and isinstance(s.value, ast.Constant)
                                      and isinstance(s.value.value, str))]
    if not stmts:
        raise Unsupported("a path falls off the end of the function (returns None implicitly)")
    s, rest = stmts[0], stmts[1:]
    if isinstance(s, ast.Return):
        if rest:
            raise Unsupported("code after return")
        if s.value is None:
            raise Unsupported("bare return")
        v = _name(s.value)
        if v not in params:
            raise Unsupported("returns %s, not a parameter" % v)
        return pad + ".ok %s" % v
    if isinstance(s, ast.Raise):
        if rest:
            raise Unsupported("code after raise")
        e = s.exc
        if isinstance(e, ast.Call) and isinstance(e.func, ast.Name) and e.func.id == "ValueError":
            return pad + ".error .timebase"
        raise Unsupported("raise of %s" % ast.dump(e)[:60])
    if isinstance(s, ast.If):
        cond = _test(s.test)
        then_falls = not _terminates(s.body)
        else_falls = not _terminates(s.orelse) if s.orelse else True
        body = list(s.body) + (rest if then_falls else [])
        orelse = list(s.orelse) + (rest if else_falls else [])
        if rest and not (then_falls or else_falls):
            raise Unsupported("unreachable code after if")
        return (pad + "if %s then\n" % cond + _block(body, params, indent + 1) + "\n"
                + pad + "else\n" + _block(orelse, params, indent + 1))
    raise Unsupported("statement %s" % type(s).__name__)


def _terminates(stmts):
    if not stmts:
        return False
    s = stmts[-1]
    if isinstance(s, (ast.Return, ast.Raise)):
        return True
    if isinstance(s, ast.If):
        return bool(s.orelse) and _terminates(s.body) and _terminates(s.orelse)
    return False


def translate_dt_function(src_path, func, lean_name):
    """Returns (lean_source, info).  Raises Unsupported / FileNotFoundError / SyntaxError."""
    src = open(src_path).read()
    tree = ast.parse(src)
    fn = None
    for node in tree.body:
        if isinstance(node, ast.FunctionDef) and node.name == func:
            fn = node
    if fn is None:
        raise Unsupported("function %s not found in %s" % (func, src_path))
    a = fn.args
    if a.vararg or a.kwarg or a.kwonlyargs or a.defaults or a.posonlyargs:
        raise Unsupported("signature")
    params = [x.arg for x in a.args]
    body = list(fn.body)
    unwrapped = []
    kept = []
    for s in body:
        if _is_unwrap(s, params) and not kept_nontrivial(kept):
            unwrapped.append(s.test.args[0].id)
        else:
            kept.append(s)
    text = ast.get_source_segment(src, fn)
    sha = hashlib.sha256(text.encode()).hexdigest()[:16]
    lean = ("-- GENERATED on every run by harness/core/py2lean.py from %s:%s (sha256 %s).  Do not edit.\n"
            "import CtrlVerif.Model.PyDt\n\nnamespace CtrlVerif.Generated\n\n"
            "/-- `%s` as the source text says it, on abstract timebases (arguments that are systems\n"
            "are replaced by their `dt`: %s). -/\n"
            "def %s %s : Except Err Dt :=\n%s\n\nend CtrlVerif.Generated\n") % (
        os.path.relpath(src_path, os.path.dirname(os.path.dirname(src_path))), func, sha, func,
        ", ".join(unwrapped) or "none", lean_name,
        " ".join("(%s : Dt)" % p for p in params), _block(kept, params, 1))
    return lean, {"sha": sha, "params": params, "unwrapped": unwrapped, "lines": fn.end_lineno - fn.lineno + 1}


def kept_nontrivial(kept):
    return any(not (isinstance(s, ast.Expr) and isinstance(s.value, ast.Constant)) for s in kept)


def regenerate(repo, lean_dir):
    """Rewrite the generated files; returns (list of problems, info dict)."""
    problems, info = [], {}
    jobs = [("control/iosys.py", "common_timebase", "commonTimebase", "CommonTimebase.lean")]
    os.makedirs(os.path.join(lean_dir, "CtrlVerif", "Generated"), exist_ok=True)
    for rel, func, lname, out in jobs:
        path = os.path.join(lean_dir, "CtrlVerif", "Generated", out)
        try:
            lean, inf = translate_dt_function(os.path.join(repo, rel), func, lname)
            info[func] = inf
        except (Unsupported, SyntaxError, OSError) as e:
            problems.append("py2lean: %s:%s cannot be translated: %s" % (rel, func, e))
            # a definition that cannot be equal to the model, so the obligation visibly fails
            lean = ("-- GENERATED: translation FAILED (%s)\nimport CtrlVerif.Model.PyDt\n\n"
                    "namespace CtrlVerif.Generated\n\ndef %s (_ _ : Dt) : Except Err Dt := .error .notImplemented\n\n"
                    "end CtrlVerif.Generated\n") % (str(e).replace("\n", " ")[:200], lname)
        old = open(path).read() if os.path.exists(path) else None
        if old != lean:
            with open(path, "w") as f:
                f.write(lean)
    return problems, info


if __name__ == "__main__":
    import sys
    lean, inf = translate_dt_function(sys.argv[1], sys.argv[2], sys.argv[2])
    print(lean)
    print(inf)


# ---------------------------------------------------------------------------------------------
# second translator: the two array post-processing functions of C18
#   control/timeresp.py:_process_time_response, control/lti.py:_process_frequency_response
# straight-line code with if/elif/else, re-assignment of parameters, a few NumPy calls.
# Target: Lean `do` notation in `Except Err` over `NDArr α` (Model/Shape.lean).
# ---------------------------------------------------------------------------------------------

class _ArrayFn:
    """translation context: which Python names are what"""

    def __init__(self, arrays, bools, sq, nats, cfg_keys, attr_calls, special_exprs):
        self.arrays, self.bools, self.sq, self.nats = arrays, bools, sq, nats
        self.cfg_keys = cfg_keys            # allowed config.defaults keys -> Lean name
        self.attr_calls = attr_calls        # e.g. ('sys', 'issiso') -> 'issiso'
        self.special = special_exprs        # ast.dump of an expression -> Lean Nat expression
        self.used_cfg = []

    # -- expressions ------------------------------------------------------------------------
    def arr(self, node):
        """array-valued expression -> (lean, monadic?)"""
        if isinstance(node, ast.Name) and node.id in self.arrays:
            return node.id, False
        if isinstance(node, ast.Subscript) and isinstance(node.slice, ast.Constant) \
                and type(node.slice.value) is int and node.slice.value >= 0:
            inner, mon = self.arr(node.value)
            i = node.slice.value
            if mon:
                return "(%s).bind (NDArr.index · %d)" % (inner, i), True
            return "NDArr.index %s %d" % (inner, i), True
        if isinstance(node, ast.Call) and isinstance(node.func, ast.Attribute) \
                and isinstance(node.func.value, ast.Name) and node.func.value.id == "np":
            f = node.func.attr
            if f == "squeeze" and len(node.args) == 1:
                v, mon = self.arr(node.args[0])
                if mon:
                    raise Unsupported("np.squeeze of a partial expression")
                if not node.keywords:
                    return "NDArr.squeeze %s" % v, False
                if len(node.keywords) == 1 and node.keywords[0].arg == "axis" \
                        and isinstance(node.keywords[0].value, ast.Constant) \
                        and type(node.keywords[0].value.value) is int and node.keywords[0].value.value >= 0:
                    return "NDArr.squeezeAxis %s %d" % (v, node.keywords[0].value.value), True
            if f == "transpose" and len(node.args) == 2 and not node.keywords:
                v, mon = self.arr(node.args[0])
                perm = node.args[1]
                want = "np.roll(range(%s.ndim), 1)" % v
                if not mon and ast.unparse(perm) == want:
                    return "NDArr.timeFirst %s" % v, True
        raise Unsupported("array expression %s" % ast.unparse(node)[:80])

    def test(self, node):
        if isinstance(node, ast.Name):
            if node.id in self.bools:
                return node.id
            raise Unsupported("truth value of %s" % node.id)
        if isinstance(node, ast.Call) and isinstance(node.func, ast.Attribute) \
                and isinstance(node.func.value, ast.Name) and not node.args and not node.keywords \
                and (node.func.value.id, node.func.attr) in self.attr_calls:
            return self.attr_calls[(node.func.value.id, node.func.attr)]
        if isinstance(node, ast.UnaryOp) and isinstance(node.op, ast.Not):
            return "(!%s)" % self.test(node.operand)
        if isinstance(node, ast.BoolOp):
            op = " && " if isinstance(node.op, ast.And) else " || "
            return "(" + op.join(self.test(v) for v in node.values) + ")"
        if isinstance(node, ast.Compare) and len(node.ops) == 1:
            op, lhs, rhs = node.ops[0], node.left, node.comparators[0]
            if isinstance(op, (ast.Is, ast.IsNot)) and isinstance(lhs, ast.Name) and lhs.id in self.sq \
                    and isinstance(rhs, ast.Constant) and (rhs.value is None or rhs.value is True or rhs.value is False):
                c = "Sq.none" if rhs.value is None else ("Sq.true" if rhs.value is True else "Sq.false")
                e = "decide (%s = %s)" % (lhs.id, c)
                return e if isinstance(op, ast.Is) else "(!%s)" % e
            if isinstance(rhs, ast.Constant) and type(rhs.value) is int and rhs.value >= 0:
                sym = {ast.Eq: "==", ast.Lt: "<", ast.LtE: "≤", ast.Gt: ">", ast.GtE: "≥", ast.NotEq: "!="}.get(type(op))
                if sym:
                    return "decide (%s %s %d)" % (self.nat(lhs), sym.replace("==", "=").replace("!=", "≠"), rhs.value)
        raise Unsupported("test %s" % ast.unparse(node)[:80])

    def nat(self, node):
        if isinstance(node, ast.Attribute) and node.attr == "ndim" and isinstance(node.value, ast.Name) \
                and node.value.id in self.arrays:
            return "NDArr.ndim %s" % node.value.id
        key = ast.unparse(node)
        if key in self.special:
            return self.special[key]
        raise Unsupported("number %s" % key[:80])

    def cfg(self, node):
        """config.defaults['key'] -> Lean name"""
        if isinstance(node, ast.Subscript) and isinstance(node.value, ast.Attribute) \
                and node.value.attr == "defaults" and isinstance(node.value.value, ast.Name) \
                and node.value.value.id == "config" and isinstance(node.slice, ast.Constant) \
                and node.slice.value in self.cfg_keys:
            self.used_cfg.append(node.slice.value)
            return self.cfg_keys[node.slice.value]
        return None

    # -- statements -------------------------------------------------------------------------
    def block(self, stmts, indent):
        pad = "  " * indent
        out = []
        for s in stmts:
            if isinstance(s, ast.Expr) and isinstance(s.value, ast.Constant) and isinstance(s.value.value, str):
                continue
            if isinstance(s, ast.Pass):
                out.append(pad + "pure ()")
            elif isinstance(s, ast.Return):
                if s.value is None:
                    raise Unsupported("bare return")
                v, mon = self.arr(s.value)
                out.append(pad + ("return (← %s)" % v if mon else "return %s" % v))
            elif isinstance(s, ast.Raise):
                e = s.exc
                if isinstance(e, ast.Call) and isinstance(e.func, ast.Name) and e.func.id == "ValueError":
                    out.append(pad + "throw Err.badArg")
                else:
                    raise Unsupported("raise %s" % ast.unparse(s)[:60])
            elif isinstance(s, ast.Assign) and len(s.targets) == 1 and isinstance(s.targets[0], ast.Name):
                t = s.targets[0].id
                if t in self.sq:
                    c = self.cfg(s.value)
                    if c is None:
                        raise Unsupported("assignment to %s of %s" % (t, ast.unparse(s.value)[:60]))
                    out.append(pad + "%s := %s" % (t, c))
                elif t in self.arrays:
                    v, mon = self.arr(s.value)
                    out.append(pad + ("%s ← %s" % (t, v) if mon else "%s := %s" % (t, v)))
                else:
                    raise Unsupported("assignment to %s" % t)
            elif isinstance(s, ast.If):
                out.append(pad + "if %s then" % self.test(s.test))
                out.append(self.block(s.body, indent + 1) or (pad + "  pure ()"))
                if s.orelse:
                    out.append(pad + "else")
                    out.append(self.block(s.orelse, indent + 1) or (pad + "  pure ()"))
            else:
                raise Unsupported("statement %s" % ast.unparse(s)[:60])
        return "\n".join(out)


def _find_function(src_path, func):
    src = open(src_path).read()
    for node in ast.parse(src).body:
        if isinstance(node, ast.FunctionDef) and node.name == func:
            return src, node
    raise Unsupported("function %s not found in %s" % (func, src_path))


ARRAY_JOBS = [
    # (file, function, lean name, lean binder list, python params in order, context)
    ("control/timeresp.py", "_process_time_response", "processTimeResponse",
     "{α : Type} (signal : NDArr α) (issiso : Bool) (transpose : Bool) (squeeze : Sq) (cfg : Sq)",
     ["signal", "issiso", "transpose", "squeeze"],
     dict(arrays=["signal"], bools=["issiso", "transpose"], sq=["squeeze"], nats=[],
          cfg_keys={"control.squeeze_time_response": "cfg"}, attr_calls={}, special_exprs={})),
    ("control/lti.py", "_process_frequency_response", "processFrequencyResponse",
     "{α : Type} (issiso : Bool) (omegaNdim : Nat) (out : NDArr α) (squeeze : Sq) (cfg : Sq)",
     ["sys", "omega", "out", "squeeze"],
     dict(arrays=["out"], bools=[], sq=["squeeze"], nats=[],
          cfg_keys={"control.squeeze_frequency_response": "cfg"},
          attr_calls={("sys", "issiso"): "issiso"},
          special_exprs={"np.asarray(omega).ndim": "omegaNdim"})),
]


def translate_array_function(repo, job):
    rel, func, lname, binders, params, ctxkw = job
    src, fn = _find_function(os.path.join(repo, rel), func)
    got = [x.arg for x in fn.args.args]
    if got != params or fn.args.vararg or fn.args.kwarg or fn.args.kwonlyargs:
        raise Unsupported("signature %s, expected %s" % (got, params))
    ctx = _ArrayFn(**ctxkw)
    body = ctx.block(fn.body, 1)
    muts = "".join("  let mut %s := %s\n" % (v, v) for v in ctx.sq + ctx.arrays)
    if not _terminates([s for s in fn.body if not isinstance(s, ast.Expr)]):
        raise Unsupported("a path falls off the end of the function")
    text = ast.get_source_segment(src, fn)
    sha = hashlib.sha256(text.encode()).hexdigest()[:16]
    lean = ("/-- `%s` (%s, sha256 %s) as the source text says it; configuration keys read: %s. -/\n"
            "def %s %s : Except Err (NDArr α) := do\n%s%s\n") % (
        func, rel, sha, ", ".join(sorted(set(ctx.used_cfg))) or "none", lname, binders, muts, body)
    return lean, {"sha": sha, "lines": fn.end_lineno - fn.lineno + 1}


def regenerate_arrays(repo, lean_dir):
    """Rewrite Generated/ProcessResponse.lean; returns (problems, info)."""
    problems, info, parts = [], {}, []
    for job in ARRAY_JOBS:
        rel, func, lname, binders = job[0], job[1], job[2], job[3]
        try:
            lean, inf = translate_array_function(repo, job)
            info[func] = inf
        except (Unsupported, SyntaxError, OSError) as e:
            problems.append("py2lean: %s:%s cannot be translated: %s" % (rel, func, e))
            lean = ("/-- translation FAILED: %s -/\ndef %s %s : Except Err (NDArr α) := .error .notImplemented\n"
                    % (str(e).replace("\n", " ").replace("-/", "- /")[:200], lname, binders))
        parts.append(lean)
    text = ("-- GENERATED on every run by harness/core/py2lean.py from the source text in /repo.  Do not edit.\n"
            "import CtrlVerif.Model.Shape\n\nnamespace CtrlVerif.Generated\n\nopen CtrlVerif\n\n"
            + "\n".join(parts) + "\nend CtrlVerif.Generated\n")
    path = os.path.join(lean_dir, "CtrlVerif", "Generated", "ProcessResponse.lean")
    os.makedirs(os.path.dirname(path), exist_ok=True)
    old = open(path).read() if os.path.exists(path) else None
    if old != text:
        with open(path, "w") as f:
            f.write(text)
    return problems, info


# ---------------------------------------------------------------------------------------------
# third translator: control/iosys.py:_process_dt_keyword  (dictionary look-ups + validation)
# ---------------------------------------------------------------------------------------------

def _dtkw_test(node):
    if isinstance(node, ast.Name) and node.id == "static":
        return "static"
    if isinstance(node, ast.UnaryOp) and isinstance(node.op, ast.Not):
        return "(!%s)" % _dtkw_test(node.operand)
    if isinstance(node, ast.BoolOp):
        op = " && " if isinstance(node.op, ast.And) else " || "
        return "(" + op.join(_dtkw_test(v) for v in node.values) + ")"
    if isinstance(node, ast.Compare) and len(node.ops) == 1:
        op, lhs, rhs = node.ops[0], node.left, node.comparators[0]
        if isinstance(op, (ast.In, ast.NotIn)) and isinstance(lhs, ast.Constant) and lhs.value == "dt" \
                and isinstance(rhs, ast.Name) and rhs.id in ("keywords", "defaults"):
            e = "Option.isSome %s" % {"keywords": "kw", "defaults": "dflt"}[rhs.id]
            return e if isinstance(op, ast.In) else "(!%s)" % e
        if isinstance(op, (ast.Is, ast.IsNot)) and isinstance(lhs, ast.Name) and lhs.id == "dt" \
                and isinstance(rhs, ast.Constant) and rhs.value is None:
            return "PyDtArg.isNone dt" if isinstance(op, ast.Is) else "(!PyDtArg.isNone dt)"
        if isinstance(op, ast.Lt) and isinstance(lhs, ast.Name) and lhs.id == "dt" \
                and isinstance(rhs, ast.Constant) and type(rhs.value) in (int, float) and rhs.value == 0:
            return "PyDtArg.ltZero dt"
    if isinstance(node, ast.Call) and isinstance(node.func, ast.Name) and node.func.id == "isinstance" \
            and len(node.args) == 2 and isinstance(node.args[0], ast.Name) and node.args[0].id == "dt" \
            and ast.unparse(node.args[1]).replace(" ", "") == "(bool,int,float)":
        return "PyDtArg.isNumber dt"
    raise Unsupported("test %s" % ast.unparse(node)[:80])


def _dtkw_block(stmts, indent):
    pad = "  " * indent
    out = []
    for s in stmts:
        if isinstance(s, ast.Expr) and isinstance(s.value, ast.Constant) and isinstance(s.value.value, str):
            continue
        if isinstance(s, ast.Assign) and len(s.targets) == 1 and isinstance(s.targets[0], ast.Name) \
                and s.targets[0].id == "dt":
            v = ast.unparse(s.value).replace('"', "'")
            if v == "None":
                out.append(pad + "dt := DtArg.none")
            elif v == "keywords.pop('dt')":
                out.append(pad + "dt ← PyDtArg.pop kw")
            elif v == "defaults.pop('dt')":
                out.append(pad + "dt ← PyDtArg.pop dflt")
            elif v == "config.defaults['control.default_dt']":
                out.append(pad + "dt := cfg")
            else:
                raise Unsupported("assignment dt = %s" % v[:60])
        elif isinstance(s, ast.If):
            out.append(pad + "if %s then" % _dtkw_test(s.test))
            out.append(_dtkw_block(s.body, indent + 1))
            if s.orelse:
                out.append(pad + "else")
                out.append(_dtkw_block(s.orelse, indent + 1))
        elif isinstance(s, ast.Raise) and isinstance(s.exc, ast.Call) and isinstance(s.exc.func, ast.Name) \
                and s.exc.func.id == "ValueError":
            out.append(pad + "throw Err.badArg")
        elif isinstance(s, ast.Return) and isinstance(s.value, ast.Name) and s.value.id == "dt":
            out.append(pad + "return dt")
        else:
            raise Unsupported("statement %s" % ast.unparse(s)[:60])
    return "\n".join(out)


def regenerate_dtkw(repo, lean_dir):
    problems, info = [], {}
    rel, func = "control/iosys.py", "_process_dt_keyword"
    try:
        src, fn = _find_function(os.path.join(repo, rel), func)
        got = [x.arg for x in fn.args.args]
        if got != ["keywords", "defaults", "static"]:
            raise Unsupported("signature %s" % got)
        body = _dtkw_block(fn.body, 1)
        sha = hashlib.sha256(ast.get_source_segment(src, fn).encode()).hexdigest()[:16]
        info[func] = {"sha": sha}
        lean = ("/-- `_process_dt_keyword` (%s, sha256 %s) as the source text says it: `kw` / `dflt` are the\n"
                "values under the key 'dt' of the two dictionaries (if present), `cfg` is\n"
                "`config.defaults['control.default_dt']`; returns the raw value. -/\n"
                "def processDtKeyword (kw dflt : Option DtArg) (static : Bool) (cfg : DtArg) : Except Err DtArg := do\n"
                "  let mut dt := DtArg.none\n%s\n") % (rel, sha, body)
    except (Unsupported, SyntaxError, OSError) as e:
        problems.append("py2lean: %s:%s cannot be translated: %s" % (rel, func, e))
        lean = ("/-- translation FAILED: %s -/\ndef processDtKeyword (kw dflt : Option DtArg) (static : Bool) "
                "(cfg : DtArg) : Except Err DtArg := .error .notImplemented\n"
                % str(e).replace("\n", " ").replace("-/", "- /")[:200])
    text = ("-- GENERATED on every run by harness/core/py2lean.py from the source text in /repo.  Do not edit.\n"
            "import CtrlVerif.Model.PyDt\nimport CtrlVerif.Model.DtOps\n\nnamespace CtrlVerif.Generated\n\n"
            "open CtrlVerif\n\n" + lean + "\nend CtrlVerif.Generated\n")
    path = os.path.join(lean_dir, "CtrlVerif", "Generated", "ProcessDtKeyword.lean")
    old = open(path).read() if os.path.exists(path) else None
    if old != text:
        with open(path, "w") as f:
            f.write(text)
    return problems, info
