"""Verdict logic shared by all properties (DESIGN §2.4)."""
import collections
import hashlib
import json
import os
import random
import sys
import time
import traceback

from . import leanproj
from .leanproj import InfraError, VERIF

AGREE, VIOLATES, DIFFERS = "agree", "violates", "differs"


class Verdict:
    """status: AGREE | VIOLATES (the property fails on the implementation at this input)
    | DIFFERS (model and implementation differ, property not shown to fail)."""

    def __init__(self, status, detail="", features=None):
        self.status = status
        self.detail = detail
        self.features = features or {}


class Family:
    """Interface a property family implements."""
    prop = "C00"
    extra_modules = []          # further Lean modules whose theorems are counted
    externals = []              # external routines assumed (trusted base)
    assumptions = []
    rule = ""
    exhaustive = False

    def corpus(self):
        return []

    def generate(self, rng, tier):
        raise NotImplementedError

    def line(self, case):
        raise NotImplementedError

    def impl(self, case):
        raise NotImplementedError

    def parse_model(self, case, out):
        raise NotImplementedError

    def compare(self, case, impl, model):
        raise NotImplementedError

    def nontrivial(self, case, model):
        return True

    def shrink(self, case):
        return []

    def search(self, rng, case, tier):
        """more cases near a non-violating disagreement"""
        return []

    def stats(self, case, impl, model):
        """dict of histogram keys for the evidence"""
        return {}


def canon(case):
    return json.dumps(case, sort_keys=True, separators=(",", ":"), default=str)


def load_known(prop):
    path = os.path.join(VERIF, "known_findings.json")
    if not os.path.exists(path):
        return []
    data = json.load(open(path))
    return [e for e in data.get("findings", []) if e.get("property") == prop and e.get("status") == "known"]


def match_known(known, features):
    for e in known:
        sig = e.get("signature", {})
        if sig and all(features.get(k) == v for k, v in sig.items()):
            return e
    return None


def evaluate(fam, cases, nproc=8):
    """Run implementation and model on every case.  Returns list of (case, impl, model, verdict)."""
    lines = []
    idx = []
    for i, c in enumerate(cases):
        ln = fam.line(c)
        if isinstance(ln, list):
            for l in ln:
                lines.append(l)
                idx.append(i)
        else:
            lines.append(ln)
            idx.append(i)
    outs = leanproj.run_driver(lines, nproc=nproc)
    per = collections.defaultdict(list)
    for i, o in zip(idx, outs):
        per[i].append(o)
    res = []
    for i, c in enumerate(cases):
        out = per[i] if isinstance(fam.line(c), list) else per[i][0]
        flat = out if isinstance(out, str) else " ".join(out)
        if "bad-op" in flat or "model-error" in flat:
            # the harness produced something the driver rejects, or a certificate failed:
            # a broken correspondence, never masked
            model = {"driver": flat}
            try:
                impl = fam.impl(c)
            except Exception:
                impl = {"harness_exc": traceback.format_exc()[-800:]}
            res.append((c, impl, model, Verdict(DIFFERS, "driver: " + flat[:300], {"kind": "driver"})))
            continue
        # an exception escaping the adapter (families catch the library's exceptions themselves)
        # or the comparison is a broken correspondence for this one case, never a crash of the run
        try:
            model = fam.parse_model(c, out)
        except Exception:
            model = {"driver": flat}
            res.append((c, None, model, Verdict(DIFFERS, "parse_model crashed: " + traceback.format_exc()[-800:],
                                                {"kind": "harness-parse"})))
            continue
        try:
            impl = fam.impl(c)
        except Exception:
            res.append((c, {"harness_exc": traceback.format_exc()[-800:]}, model,
                        Verdict(DIFFERS, "adapter crashed: " + traceback.format_exc()[-800:],
                                {"kind": "harness-impl"})))
            continue
        try:
            v = fam.compare(c, impl, model)
        except Exception:
            v = Verdict(DIFFERS, "compare crashed: " + traceback.format_exc()[-800:], {"kind": "harness"})
        res.append((c, impl, model, v))
    return res


def shrink_case(fam, case, pred, rounds=12, width=40):
    """Greedy shrinking, one driver batch per round: keep the first smaller candidate for
    which `pred(verdict)` still holds."""
    cur = case
    for _ in range(rounds):
        cands = []
        for cand in fam.shrink(cur):
            cands.append(cand)
            if len(cands) >= width:
                break
        if not cands:
            break
        try:
            res = evaluate(fam, cands)
        except InfraError:
            raise
        except Exception:
            break
        nxt = None
        for (c, _, _, v) in res:
            if pred(v) and len(canon(c)) < len(canon(cur)):
                nxt = c
                break
        if nxt is None:
            break
        cur = nxt
    return cur


def write_replay(prop, kind, payload):
    os.makedirs(os.path.join(VERIF, "replays"), exist_ok=True)
    h = hashlib.sha1(canon(payload).encode()).hexdigest()[:12]
    path = os.path.join(VERIF, "replays", "%s-%s.json" % (prop, h))
    payload = dict(payload)
    payload["property"] = prop
    payload["kind"] = kind
    payload["replay_cmd"] = "/venv/bin/python harness/check.py %s --replay %s" % (
        prop, os.path.relpath(path, VERIF))
    with open(path, "w") as f:
        json.dump(payload, f, indent=1, default=str)
    return os.path.relpath(path, VERIF)


def check_proofs(fam, tier):
    """Build + token scan + axiom audit (+ leanchecker in the thorough tier)."""
    prop = fam.prop
    info = {"obligations": 0, "discharged": 0, "bad": [], "axioms_seen": [], "theorems": []}
    extra = list(getattr(fam, "extra_modules", []) or [])
    mods = ["CtrlVerif.Props." + prop] + extra
    with leanproj.locked():
        return _check_proofs_locked(fam, tier, prop, info, extra, mods)


def _check_proofs_locked(fam, tier, prop, info, extra, mods):
    pre = getattr(fam, "pre_build", None)
    if pre is not None:
        # regenerate model files from /repo's source text (DESIGN §2.5); a failed translation is
        # a broken proof obligation.  Regeneration, build and audit are one critical section
        # (another check of the same property against another tree must not interleave).
        try:
            info["bad"].extend(pre())
        except Exception as e:  # noqa: a translator that cannot digest the source at all
            # (source outside the translated subset in a way its own checks did not anticipate):
            # the model was NOT regenerated from this tree, so the tie is broken, not the check
            import traceback
            info["bad"].append("source translation crashed (%s: %s) at %s; generated model files "
                               "may be stale" % (type(e).__name__, str(e)[:200],
                                                 traceback.format_exc().strip().split("\n")[-3].strip()[:160]))
    ok, log = leanproj.lake_build(mods + ["CtrlVerif.Driver.All"])
    names = leanproj.theorems_of(prop, extra)
    info["obligations"] = len(names)
    info["theorems"] = names
    if not ok:
        info["bad"].append("lake build failed: " + log[-1500:])
        return info
    hits = leanproj.token_scan()
    if hits:
        info["bad"].append("forbidden tokens: " + "; ".join(hits[:5]))
    a = leanproj.audit(prop, extra)
    seen = sorted({x for v in a["axioms"].values() for x in v})
    info["axioms_seen"] = seen
    info["bad"].extend(a["bad"])
    if not a["ok"] and not a["bad"]:
        info["bad"].append("audit failed: " + a["log"][-800:])
    info["discharged"] = sum(1 for n in names if n in a["axioms"]
                             and all(x in leanproj.ALLOWED_AXIOMS for x in a["axioms"][n]))
    if hits:
        info["discharged"] = 0
    if tier == "thorough" and not info["bad"]:
        ok2, log2 = leanproj.leanchecker(mods)
        info["leanchecker"] = "ok" if ok2 else "FAILED"
        if not ok2:
            info["bad"].append("leanchecker: " + log2)
    return info


def run_check(fam, tier, seed, replay=None):
    t0 = time.time()
    prop = fam.prop
    rng = random.Random("%s/%s/%s" % (prop, tier, seed))
    known = load_known(prop)
    lines_out = []
    try:
        proof = check_proofs(fam, tier)
    except InfraError as e:
        print("INFRA: %s" % e)
        return 2
    if replay:
        payload = json.load(open(os.path.join(VERIF, replay) if not os.path.isabs(replay) else replay))
        cases = [payload["case"]] if "case" in payload else payload.get("cases", [])
        gen_cases = []
    else:
        cases = list(fam.corpus())
        gen_cases = list(fam.generate(rng, tier))
    ncorpus = len(cases)
    cases = cases + gen_cases
    try:
        results = evaluate(fam, cases)
    except InfraError as e:
        print("INFRA: %s" % e)
        return 2

    hist = collections.Counter()
    distinct = set()
    nontrivial = 0
    samples = []
    violating, differing = [], []
    known_hit = collections.OrderedDict()
    for (c, impl, model, v) in results:
        key = canon(c)
        try:
            st = fam.stats(c, impl, model)
        except Exception:
            st = {"stats": "crashed"}       # statistics only: never a reason to abort the run
        for k, val in st.items():
            hist["%s=%s" % (k, val)] += 1
        if key not in distinct:
            distinct.add(key)
            try:
                if fam.nontrivial(c, model):
                    nontrivial += 1
            except Exception:
                pass
        if len(samples) < 4 and v.status == AGREE and len(key) < 1500:
            samples.append({"case": c, "model": model, "impl": impl})
        if v.status != AGREE and os.environ.get("VERIF_DEBUG"):
            print("DEBUG %s %s %s\n      case=%s" % (v.status, v.features, v.detail[:200], canon(c)[:600]))
        if v.status == VIOLATES:
            kf = match_known(known, v.features)
            if kf is not None:
                known_hit.setdefault(kf["id"], (kf, c, v))
            else:
                violating.append((c, impl, model, v))
        elif v.status == DIFFERS:
            differing.append((c, impl, model, v))

    searched = 0
    # search for a failing input when the correspondence or a proof obligation is broken
    if (differing or proof["bad"]) and not violating and not replay:
        extra = []
        for (c, _, _, _) in differing[:5]:
            extra.extend(fam.search(rng, c, tier))
        extra.extend(fam.generate(random.Random("%s/search/%s" % (prop, seed)), "thorough"))
        extra = extra[:6000]
        searched = len(extra)
        try:
            for (c, impl, model, v) in evaluate(fam, extra):
                if v.status == VIOLATES:
                    kf = match_known(known, v.features)
                    if kf is not None:
                        known_hit.setdefault(kf["id"], (kf, c, v))
                    else:
                        violating.append((c, impl, model, v))
        except InfraError as e:
            print("INFRA: %s" % e)
            return 2

    exit_code = 0
    reported = []
    # group violations by feature signature, report the smallest of each group
    groups = collections.OrderedDict()
    for item in violating:
        sig = canon(item[3].features)
        groups.setdefault(sig, []).append(item)
    for sig, items in list(groups.items())[:8]:
        items.sort(key=lambda it: len(canon(it[0])))
        c, impl, model, v = items[0]

        def still(r, v0=v):
            return r.status == VIOLATES and r.features == v0.features and \
                match_known(known, r.features) is None
        try:
            small = shrink_case(fam, c, still)
            (c2, impl2, model2, v2) = evaluate(fam, [small])[0]
        except InfraError:
            small, impl2, model2, v2 = c, impl, model, v
        path = write_replay(prop, "failing-input", {
            "case": small, "impl": impl2, "model": model2, "detail": v2.detail,
            "features": v2.features, "count_in_run": len(items)})
        lines_out.append("VIOLATION property=%s replay=%s" % (prop, path))
        reported.append(path)
        exit_code = 1
    if not violating and (differing or proof["bad"]):
        payload = {"broken_proof_obligations": proof["bad"],
                   "broken_correspondence": [
                       {"case": c, "impl": impl, "model": model, "detail": v.detail, "features": v.features}
                       for (c, impl, model, v) in differing[:5]],
                   "cases": [c for (c, _, _, _) in differing[:5]],
                   "searched_cases": searched}
        path = write_replay(prop, "no-failing-input-found", payload)
        lines_out.append("VIOLATION property=%s replay=%s no-failing-input-found" % (prop, path))
        reported.append(path)
        exit_code = 1
    for kid, (kf, c, v) in known_hit.items():
        lines_out.append("KNOWN-FINDING: property=%s %s [%s]" % (prop, kf["what"], kid))

    wall = time.time() - t0
    evidence = {
        "property_id": prop, "tier": tier, "seed": int(seed), "level": "proof",
        "coverage": {
            "obligations": proof["obligations"], "discharged": proof["discharged"],
            "checker_cmd": "cd lean && lake build CtrlVerif.Props.%s && lake env lean Audit/%s.lean"
                           " (#print axioms of every theorem)%s" % (
                               prop, prop, "; lake env leanchecker CtrlVerif.Props.%s" % prop
                               if tier == "thorough" else ""),
            "trusted_base": ["Lean 4.33 kernel", "Mathlib v4.33"]
                            + ["axiom " + a for a in proof["axioms_seen"]]
                            + ["correspondence harness (generators, adapters, canonicalisation, driver glue)"]
                            + ["external: " + e for e in fam.externals],
            "theorems": proof["theorems"],
            "proof_problems": proof["bad"],
            "evaluations": len(results) + searched,
            "distinct_nontrivial": nontrivial,
            "rule": fam.rule,
            "samples": samples,
            "traces_validated_against_impl": sum(1 for r in results if r[3].status == AGREE),
            "disagreements_checked": len(violating) + len(differing) + sum(1 for _ in known_hit),
            "corpus_cases": ncorpus,
            "exhaustive": bool(fam.exhaustive and (tier == "thorough" or getattr(fam, "exhaustive_quick", False))),
            "histogram": dict(sorted(hist.items())),
            "known_findings_hit": list(known_hit.keys()),
            "replays": reported,
        },
        "assumptions": list(fam.assumptions),
        "wall_s": round(wall, 2),
        "violations": len(reported),
    }
    if "leanchecker" in proof:
        evidence["coverage"]["leanchecker"] = proof["leanchecker"]
    if not replay and not os.environ.get("VERIF_NO_EVIDENCE"):   # (set when run on a patched scratch tree)
        os.makedirs(os.path.join(VERIF, "evidence"), exist_ok=True)
        with open(os.path.join(VERIF, "evidence", prop + ".json"), "w") as f:
            json.dump(evidence, f, indent=1, default=str)
    for l in lines_out:
        print(l)
    print("%s tier=%s seed=%s cases=%d agree=%d violating=%d differing=%d known=%d obligations=%d/%d wall=%.1fs"
          % (prop, tier, seed, len(results), evidence["coverage"]["traces_validated_against_impl"],
             len(violating), len(differing), len(known_hit), proof["discharged"], proof["obligations"], wall))
    return exit_code
