"""Translator Python `ast` -> Lean 4 (DESIGN §10.3, notes/NOTES-py2lean-grid.md) for the default frequency grid of
`control.freqplot.nyquist_response` (property C13).  (The dispatchers `sample_system` / `c2d` of `control/dtime.py`, C14,
were planned as a second job of this module and are NOT implemented.)

On every run of `check.py C13` (hook `Family.pre_build`, `VERIF_REPO` honoured) it rewrites
    lean/CtrlVerif/Generated/GridRange.lean      defaultFrequencyRange     (_default_frequency_range, whole body)
    lean/CtrlVerif/Generated/GridDetermine.lean  determineOmegaVector      (_determine_omega_vector, whole body)
    lean/CtrlVerif/Generated/GridNyquist.lean    nyquistGridCommon, nyquistOmegaSys, nyquistOmegaAll
                                                 (the grid statements of nyquist_response)
from the source text of the tree under check.  `Props/C13GenGrid*.lean` prove the hand-written
model equal to them.  A semantic edit breaks an equality; an edit that leaves the subset, or after which a located
statement is not found exactly once, makes the translation fail: the definitions of that file are then emitted as
`.error Err.notImplemented` (cannot equal the model) and the problem is returned to the runner.

Value model (`lean/CtrlVerif/Model/PyGrid.lean`, hand-written, trusted): float = element of an ordered field `K` with
floor; 1-D float array / list of floats = `List K`; boolean array = `List Bool`; `int`-or-`None` = `Option ℕ`;
float-or-`None` = `Option K`; a system = `PyGrid.Sys K`; system-or-sequence = `PyGrid.SysArg K`; `omega` / `omega_limits`
= `PyGrid.OmArg K`; externals (`np.log10`, `np.log`, `10 ** x`, `math.pi`, `config.defaults.get`) = fields of the
parameter `E : PyGrid.Ext K`.

Supported subset
  statements  docstring, `pass`; `x = e`; `x, y = f(..)` for a generated callee returning a pair; `x op= e`
              (`+ - * /`, scalars and arrays elementwise); `x.append(e)` on a list this function created; `x[i] = e`
              (literal `i`); `if / elif / else` (join of the re-bound names; a branch ending in `continue` / `return` /
              `raise` makes the `if` the tail of the block); `for x in seq:` / `for i, x in enumerate(seq):` over a
              system sequence as `List.foldlM` over the loop-carried names, with `continue`; `try: .. except
              NotImplementedError: pass` (only when no carried name is re-bound before a `raise NotImplementedError`);
              `raise <known exception>`; `return e`; `warnings.warn(..)` and an `if` whose body only warns: no-ops.
  expressions literals; names; `math.pi`, `np.pi`; `+ - * /`, unary `-`, `**` only as `10 ** x`; comparisons,
              `and / or / not`, `is None`, `is not None`, truth value of a list / int-or-None; elementwise array
              expressions over ONE base array are fused into a single `List.map` (`A[mask]` with a mask over `A` is
              `List.filter`, `np.any` is `List.any`); `np.array`, `np.concatenate`, `np.hstack`, `np.abs`, `np.log`,
              `np.log10`, `np.rint`, `np.min/max`, `min/max` (1 sequence or 2 scalars), `np.isclose`, `np.any`,
              `np.linspace`, `np.logspace(.., num=.., endpoint=True)`, `np.asarray`, `np.copy`, `len`, `a.shape[0]`,
              `a[i]`, `a[1:]`, `isinstance(x, (list, tuple))`, `isinstance(x, FrequencyResponseData)`,
              `hasattr(x, '__iter__')`, `(x,)`, `[x]`, the conditional expression, `config._get_param(m, p, v[, d])`,
              `sys.isctime()`, `sys.isdtime(strict=True)`, `sys.issiso()`, `sys.dt`, `sys.omega`, `sys._ifunc is None`,
              `np.abs(sys.poles())`, `np.abs(sys.zeros())`, `np.abs(np.log(A) / (1j * c))`, calls of the generated
              `_default_frequency_range` / `_determine_omega_vector` with keywords resolved against the callee's
              signature in the source.
Evaluation order: effectful sub-expressions are bound left to right before the statement.
"""
import ast
import hashlib
import os
from fractions import Fraction

from core.py2lean import Unsupported
from core.py2lean_arith import _ind, _do

K, NAT, ONAT, OK_, BOOL, ARR, BARR, SYS, SYSARG, OMARG, STR = (
    "K", "ℕ", "Option ℕ", "Option K", "Bool", "List K", "List Bool", "PyGrid.Sys K", "PyGrid.SysArg K",
    "PyGrid.OmArg K", "String")
BINDERS = "{K : Type} [Field K] [LinearOrder K] [IsStrictOrderedRing K] [FloorRing K]"
EXC = {"ValueError": "badArg", "TypeError": "badArg", "NotImplementedError": "notImplemented",
       "ControlMIMONotImplemented": "notImplemented", "IndexError": "indexRange"}
LEAN_WORDS = {
    "E", "K", "x", "st", "at", "from", "end", "do", "fun", "let", "open", "in", "if", "then", "else", "match", "with",
    "show", "have", "by", "def", "theorem", "lemma", "namespace", "section", "variable", "where", "instance", "class",
    "structure", "deriving", "import", "export", "universe", "mutual", "private", "protected", "return", "for", "calc",
    "using", "suffices", "obtain", "macro", "syntax", "notation", "prefix", "postfix", "attribute", "local",
    "set_option", "extends", "example", "axiom", "abbrev", "inductive", "noncomputable", "partial", "unsafe", "opaque",
    "mut", "unless", "forall", "exists", "this", "true", "false", "pure", "decide", "min", "max", "not", "List",
    "Option", "Except", "Err", "PyGrid", "PyNyq", "DtPred", "some", "none", "id", "Type", "Prop", "Bool", "String",
    "defaultFrequencyRange", "determineOmegaVector", "nyquistGridCommon", "nyquistOmegaSys", "nyquistOmegaAll"}


def lean_name(name):
    if not name.isidentifier() or not name.isascii():
        raise Unsupported("the variable name `%s` cannot be used in the generated code" % name)
    if name.startswith("_"):
        return "u" + name + "'"
    if name in LEAN_WORDS or (name[:1] == "t" and name[1:].isdigit()):
        return name + "'"
    return name


def klit(q):
    q = Fraction(q)
    if q.denominator == 1:
        return "(%d : K)" % q.numerator
    return "((%d : K) / %d)" % (q.numerator, q.denominator)


def const_fraction(node):
    """exact value of an int / float literal (floats by their shortest decimal repr, as written)"""
    if isinstance(node, ast.Constant) and type(node.value) in (int, float):
        if type(node.value) is int:
            return Fraction(node.value)
        return Fraction(repr(node.value))
    return None


class Val:
    """code: Lean term; ty; py: a Python scalar (division by it can raise); lit: Fraction of a literal;
    ew: (base, body) - the value is `List.map (fun x => body) base` (elementwise over the array variable `base`);
    own: an array / list object this function created"""

    def __init__(self, code, ty, py=False, lit=None, ew=None, own=False):
        self.code, self.ty, self.py, self.lit, self.ew, self.own = code, ty, py, lit, ew, own


class Var:
    def __init__(self, ty, ver, lname, ew=None, own=False, py=False):
        self.ty, self.ver, self.lname, self.ew, self.own, self.py = ty, ver, lname, ew, own, py


def _p(code):
    code = code.strip()
    if code.isidentifier() or (code.startswith("(") and _balanced(code)) or code.replace(".", "").replace("'", "").isidentifier():
        return code
    return "(" + code + ")"


def _balanced(code):
    d = 0
    for i, ch in enumerate(code):
        if ch == "(":
            d += 1
        elif ch == ")":
            d -= 1
            if d == 0 and i != len(code) - 1:
                return False
    return d == 0


class Signature:
    def __init__(self, fn):
        a = fn.args
        if a.vararg or a.posonlyargs or a.kwonlyargs:
            raise Unsupported("signature of %s: *args / positional-only / keyword-only parameters" % fn.name)
        self.names = [x.arg for x in a.args]
        self.kwarg = a.kwarg.arg if a.kwarg else None
        nd = len(a.defaults)
        self.defaults = dict(zip(self.names[len(self.names) - nd:], a.defaults))

    def resolve(self, call):
        """argument expression (or default expression, marked) for every parameter, in the callee's order"""
        out = {}
        if any(isinstance(x, ast.Starred) for x in call.args) or any(k.arg is None for k in call.keywords):
            raise Unsupported("* / ** in the call %s" % ast.unparse(call)[:50])
        if len(call.args) > len(self.names):
            raise Unsupported("too many positional arguments in %s" % ast.unparse(call)[:50])
        for n, x in zip(self.names, call.args):
            out[n] = ("arg", x)
        for k in call.keywords:
            if k.arg not in self.names or k.arg in out:
                raise Unsupported("keyword `%s` in %s" % (k.arg, ast.unparse(call)[:50]))
            out[k.arg] = ("arg", k.value)
        for n in self.names:
            if n not in out:
                if n not in self.defaults:
                    raise Unsupported("missing argument `%s` in %s" % (n, ast.unparse(call)[:50]))
                out[n] = ("default", self.defaults[n])
        return [out[n] for n in self.names]


class Exit(Exception):
    pass


class Tr:
    """expressions and blocks of the subset; `callees`: name -> (lean name, Signature, [param types], result types)"""

    def __init__(self, module, fn, callees=None):
        self.module, self.fn = module, fn
        self.ntmp = 0
        self.callees = callees or {}
        self.locals = {a.arg for a in ast.walk(fn) if isinstance(a, ast.arg)}
        for node in ast.walk(fn):
            if isinstance(node, ast.Name) and isinstance(node.ctx, (ast.Store, ast.Del)):
                self.locals.add(node.id)
        for b in ("min", "max", "len", "isinstance", "hasattr", "enumerate"):
            if b in self.locals or self.module_binds(b):
                raise Unsupported("the builtin `%s` is re-bound" % b)
        self.ver = 0
        self.try_entry = None       # (env at the entry of the innermost try, carried names)
        self.loop_tail = None
        self.aux = []               # loop bodies, emitted as definitions of their own
        self.defname = "aux"

    # -- module level ------------------------------------------------------------------------------
    def module_binds(self, name):
        n = 0
        for node in self.module.body:
            if isinstance(node, (ast.Import, ast.ImportFrom)):
                n += sum(1 for a in node.names if (a.asname or a.name.split(".")[0]) == name)
            elif isinstance(node, (ast.FunctionDef, ast.ClassDef)) and node.name == name:
                n += 1
            elif isinstance(node, ast.Assign):
                n += sum(1 for t in node.targets if isinstance(t, ast.Name) and t.id == name)
        return n

    def is_module(self, node, modname, alias):
        if not (isinstance(node, ast.Name) and node.id == alias and alias not in self.locals):
            return False
        ok = any(isinstance(n, ast.Import) and any(a.name == modname and (a.asname or a.name) == alias for a in n.names)
                 for n in self.module.body)
        return ok and self.module_binds(alias) == 1

    def np_attr(self, node):
        if isinstance(node, ast.Attribute) and self.is_module(node.value, "numpy", "np"):
            return node.attr
        return None

    def is_pi(self, node):
        return isinstance(node, ast.Attribute) and node.attr == "pi" and (
            self.is_module(node.value, "numpy", "np") or self.is_module(node.value, "math", "math"))

    def is_config_get(self, node):
        if not (isinstance(node, ast.Attribute) and node.attr == "_get_param" and isinstance(node.value, ast.Name)
                and node.value.id == "config" and "config" not in self.locals):
            return False
        ok = any(isinstance(n, ast.ImportFrom) and n.level == 1 and n.module is None
                 and any(a.name == "config" and a.asname is None for a in n.names) for n in self.module.body)
        return ok and self.module_binds("config") == 1

    def is_global_class(self, node, name):
        return isinstance(node, ast.Name) and node.id == name and name not in self.locals \
            and self.module_binds(name) == 1

    def fresh(self):
        self.ntmp += 1
        return "t%d" % self.ntmp

    def bind(self, binds, rhs, ty, **kw):
        t = self.fresh()
        binds.append("let %s ← %s" % (t, rhs))
        return Val(t, ty, **kw)

    # -- expressions -------------------------------------------------------------------------------
    def scalar(self, v, what="a float"):
        if v.ty == K:
            return v
        if v.ty == NAT:
            return Val("(%s : K)" % v.code if v.lit is None else klit(v.lit), K, py=True, lit=v.lit)
        raise Unsupported("a value of type %s where %s is needed" % (v.ty, what))

    def as_ew(self, v):
        """(base, body) of an array value: a plain array variable `a` is `map (fun x => x) a`"""
        if v.ew is not None:
            return v.ew
        if v.ty in (ARR, BARR) and v.code.replace("'", "").replace(".", "").isidentifier():
            return (v.code, "x")
        return None

    def mk_ew(self, base, body, ty):
        return Val("List.map (fun x => %s) %s" % (body, base), ty, ew=(base, body))

    def elementwise(self, args, ty, f, what):
        """combine array / scalar operands elementwise; f(list of codes) -> body"""
        base = None
        codes = []
        for a in args:
            if a.ty in (ARR, BARR):
                e = self.as_ew(a)
                if e is None:
                    raise Unsupported("%s: an array operand that is not elementwise over a named array" % what)
                if base is not None and e[0] != base:
                    raise Unsupported("%s: arrays over different bases `%s`, `%s`" % (what, base, e[0]))
                base = e[0]
                codes.append(e[1])
            else:
                codes.append(_p(a.code))
        return self.mk_ew(base, f(codes), ty)

    def expr(self, node, env, binds):
        if isinstance(node, ast.Constant):
            if node.value is None:
                return Val("none", "None")
            if node.value is True or node.value is False:
                return Val("true" if node.value else "false", BOOL)
            q = const_fraction(node)
            if q is not None:
                if type(node.value) is int and q >= 0:
                    return Val("%d" % q, NAT, lit=q, py=True)
                return Val(klit(q), K, lit=q, py=True)
            if isinstance(node.value, str):
                return Val('"%s"' % node.value.replace('"', ''), STR)
            raise Unsupported("constant %r" % (node.value,))
        if isinstance(node, ast.Name):
            if node.id in env:
                v = env[node.id]
                return Val(v.lname, v.ty, ew=v.ew, own=v.own, py=v.py)
            raise Unsupported("name `%s` is not a value of this fragment here" % node.id)
        if self.is_pi(node):
            return Val("E.pi", K, py=True)
        if isinstance(node, ast.Attribute):
            return self.attribute(node, env, binds)
        if isinstance(node, ast.UnaryOp):
            if isinstance(node.op, ast.Not):
                return Val("!" + _p(self.truth(self.expr(node.operand, env, binds)).code), BOOL)
            if isinstance(node.op, ast.USub):
                v = self.expr(node.operand, env, binds)
                if v.ty in (K, NAT):
                    v = self.scalar(v)
                    return Val("-" + _p(v.code), K, py=v.py, lit=None if v.lit is None else -v.lit)
                if v.ty == ARR:
                    return self.elementwise([v], ARR, lambda c: "-" + _p(c[0]), "unary minus")
            if isinstance(node.op, ast.Invert):
                v = self.expr(node.operand, env, binds)
                if v.ty == BARR:
                    return self.elementwise([v], BARR, lambda c: "!" + _p(c[0]), "~")
            raise Unsupported("unary operator in %s" % ast.unparse(node)[:40])
        if isinstance(node, ast.BoolOp):
            is_and = isinstance(node.op, ast.And)
            op = " && " if is_and else " || "
            acc = None
            for x in node.values:
                b = []
                v = self.truth(self.expr(x, env, b))
                if acc is None:
                    binds.extend(b)
                    acc = v
                elif not b:
                    acc = Val(_p(acc.code) + op + _p(v.code), BOOL)
                else:       # short circuit: the operand is evaluated only when the prefix does not decide
                    inner = _do(b + ["pure " + _p(v.code)])
                    other = "(pure false)" if is_and else "(pure true)"
                    acc = self.bind(binds, "(if %s then %s else %s : Except Err Bool)" % (
                        acc.code, inner if is_and else other, other if is_and else inner), BOOL)
            return acc
        if isinstance(node, ast.BinOp):
            return self.binop(node, env, binds)
        if isinstance(node, ast.Compare):
            return self.compare(node, env, binds)
        if isinstance(node, ast.IfExp):
            c = self.truth(self.expr(node.test, env, binds))
            b1, b2 = [], []
            v1 = self.expr(node.body, env, b1)
            v2 = self.expr(node.orelse, env, b2)
            if v1.ty != v2.ty:
                raise Unsupported("conditional expression of types %s / %s" % (v1.ty, v2.ty))
            if not b1 and not b2:
                return Val("if %s then %s else %s" % (c.code, v1.code, v2.code), v1.ty)
            return self.bind(binds, "(if %s then %s else %s : Except Err (%s))" % (
                c.code, _do(b1 + ["pure " + _p(v1.code)]), _do(b2 + ["pure " + _p(v2.code)]), v1.ty), v1.ty)
        if isinstance(node, ast.Tuple) and len(node.elts) == 1 or isinstance(node, ast.List) and len(node.elts) == 1:
            v = self.expr(node.elts[0], env, binds)
            if v.ty == SYSARG:
                return self.bind(binds, "PyGrid.single %s" % _p(v.code), SYSARG)
            if v.ty in (K, NAT):
                return Val("[%s]" % self.scalar(v).code, ARR, own=True)
            raise Unsupported("one-element sequence of a %s" % v.ty)
        if isinstance(node, ast.List) and len(node.elts) == 0:
            return Val("([] : List K)", ARR, own=True)
        if isinstance(node, ast.Subscript):
            return self.subscript(node, env, binds)
        if isinstance(node, ast.Call):
            return self.call(node, env, binds)
        raise Unsupported("expression %s" % ast.unparse(node)[:60])

    def truth(self, v):
        if v.ty == BOOL:
            return v
        if v.ty == ONAT:
            return Val("PyGrid.truthyN %s" % _p(v.code), BOOL)
        if v.ty == ARR and v.own and v.ew is None:
            return Val("!(List.isEmpty %s)" % _p(v.code), BOOL)      # a Python list
        raise Unsupported("truth value of a %s" % v.ty)

    def attribute(self, node, env, binds):
        v = self.expr(node.value, env, binds)
        if v.ty == SYS:
            if node.attr == "dt":
                return self.bind(binds, "PyGrid.dtNum %s.dt" % v.code, K, py=True)
            if node.attr == "omega":
                return Val("%s.omega" % v.code, ARR)
        if v.ty == ARR and node.attr == "real":
            return v
        if v.ty == ARR and node.attr == "imag":
            return self.elementwise([v], ARR, lambda c: "(0 : K)", ".imag")
        raise Unsupported("attribute %s of a %s" % (node.attr, v.ty))

    def binop(self, node, env, binds):
        if isinstance(node.op, ast.Pow):
            q = const_fraction(node.left)
            if q == 10:
                r = self.scalar(self.expr(node.right, env, binds))
                return Val("E.pow10 %s" % _p(r.code), K)
            raise Unsupported("power %s" % ast.unparse(node)[:40])
        sym = {ast.Add: "+", ast.Sub: "-", ast.Mult: "*", ast.Div: "/", ast.BitAnd: "&&", ast.BitOr: "||"}.get(type(node.op))
        if sym is None:
            raise Unsupported("operator in %s" % ast.unparse(node)[:40])
        l = self.expr(node.left, env, binds)
        r = self.expr(node.right, env, binds)
        return self.arith(sym, l, r, binds, ast.unparse(node)[:40])

    def arith(self, sym, l, r, binds, what):
        if sym in ("&&", "||"):
            if l.ty == BARR and r.ty == BARR:
                return self.elementwise([l, r], BARR, lambda c: "%s %s %s" % (_p(c[0]), sym, _p(c[1])), what)
            raise Unsupported("& / | on %s, %s" % (l.ty, r.ty))
        if l.ty in (K, NAT) and r.ty in (K, NAT):
            l, r = self.scalar(l), self.scalar(r)
            if sym == "/":
                if r.lit is not None and r.lit != 0:
                    return Val("%s / %s" % (_p(l.code), _p(r.code)), K, py=l.py and r.py)
                if l.py and r.py:
                    return self.bind(binds, "PyGrid.pdiv %s %s" % (_p(l.code), _p(r.code)), K, py=True)
            return Val("%s %s %s" % (_p(l.code), sym, _p(r.code)), K, py=l.py and r.py)
        if ARR in (l.ty, r.ty) and l.ty in (K, NAT, ARR) and r.ty in (K, NAT, ARR):
            l = l if l.ty == ARR else self.scalar(l)
            r = r if r.ty == ARR else self.scalar(r)
            return self.elementwise([l, r], ARR, lambda c: "%s %s %s" % (_p(c[0]), sym, _p(c[1])), what)
        raise Unsupported("`%s` on %s, %s" % (sym, l.ty, r.ty))

    def compare(self, node, env, binds):
        if len(node.ops) != 1:
            raise Unsupported("chained comparison")
        op, rn = node.ops[0], node.comparators[0]
        if isinstance(op, (ast.Is, ast.IsNot)):
            if not (isinstance(rn, ast.Constant) and rn.value is None):
                raise Unsupported("`is` with something else than None")
            neg = isinstance(op, ast.IsNot)
            if isinstance(node.left, ast.Attribute) and node.left.attr == "_ifunc":
                s = self.expr(node.left.value, env, binds)
                if s.ty == SYS:
                    return Val(("!%s.ifuncNone" if neg else "%s.ifuncNone") % s.code, BOOL)
            v = self.expr(node.left, env, binds)
            if v.ty == OMARG:
                c = "PyGrid.OmArg.isNone %s" % _p(v.code)
            elif v.ty in (ONAT, OK_):
                c = "Option.isNone %s" % _p(v.code)
            else:
                raise Unsupported("`is None` on a %s" % v.ty)
            return Val("!(%s)" % c if neg else c, BOOL)
        sym = {ast.Lt: "<", ast.LtE: "≤", ast.Gt: ">", ast.GtE: "≥", ast.Eq: "=", ast.NotEq: "≠"}.get(type(op))
        if sym is None:
            raise Unsupported("comparison in %s" % ast.unparse(node)[:40])
        l = self.expr(node.left, env, binds)
        r = self.expr(rn, env, binds)
        if l.ty == NAT and r.ty == NAT:
            return Val("decide (%s %s %s)" % (_p(l.code), sym, _p(r.code)), BOOL)
        if l.ty in (K, NAT) and r.ty in (K, NAT):
            l, r = self.scalar(l), self.scalar(r)
            return Val("decide (%s %s %s)" % (_p(l.code), sym, _p(r.code)), BOOL)
        if ARR in (l.ty, r.ty) and l.ty in (K, NAT, ARR) and r.ty in (K, NAT, ARR):
            l = l if l.ty == ARR else self.scalar(l)
            r = r if r.ty == ARR else self.scalar(r)
            return self.elementwise([l, r], BARR, lambda c: "decide (%s %s %s)" % (_p(c[0]), sym, _p(c[1])), "comparison")
        raise Unsupported("comparison of %s with %s" % (l.ty, r.ty))

    def subscript(self, node, env, binds):
        sl = node.slice
        # a.shape[0]
        if isinstance(node.value, ast.Attribute) and node.value.attr == "shape" and const_fraction(sl) == 0:
            a = self.expr(node.value.value, env, binds)
            if a.ty == ARR:
                return Val("List.length %s" % _p(a.code), NAT)
        a = self.expr(node.value, env, binds)
        if a.ty != ARR:
            raise Unsupported("subscript of a %s" % a.ty)
        if isinstance(sl, ast.Slice):
            lo = const_fraction(sl.lower) if sl.lower is not None else None
            if sl.upper is None and sl.step is None and lo is not None and lo >= 0 and lo.denominator == 1:
                return Val("List.drop %d %s" % (lo, _p(a.code)), ARR, own=True)
            raise Unsupported("slice %s" % ast.unparse(node)[:40])
        q = const_fraction(sl)
        if q is not None and q >= 0 and q.denominator == 1:
            return self.bind(binds, "PyGrid.item %s %d" % (_p(a.code), q), K)
        binds2 = []
        m = self.expr(sl, env, binds2)
        if m.ty == BARR and not binds2:
            e = self.as_ew(m)
            base = self.as_ew(a)
            if e is not None and base is not None and base == (e[0], "x"):
                return Val("List.filter (fun x => %s) %s" % (e[1], e[0]), ARR, own=True)
            raise Unsupported("boolean index %s whose mask is not elementwise over the indexed array"
                              % ast.unparse(node)[:50])
        raise Unsupported("subscript %s" % ast.unparse(node)[:40])

    def seq_items(self, node):
        if isinstance(node, (ast.Tuple, ast.List)):
            return node.elts
        raise Unsupported("expected a literal tuple / list: %s" % ast.unparse(node)[:40])

    def call(self, node, env, binds):
        f = node.func
        kw = {k.arg: k.value for k in node.keywords}
        npf = self.np_attr(f)
        if npf is not None:
            return self.np_call(npf, node, kw, env, binds)
        if self.is_config_get(f):
            if kw or len(node.args) not in (3, 4) or not all(
                    isinstance(x, ast.Constant) and isinstance(x.value, str) for x in node.args[:2]):
                raise Unsupported("config._get_param call %s" % ast.unparse(node)[:60])
            key = node.args[0].value + "." + node.args[1].value
            v = self.expr(node.args[2], env, binds)
            if v.ty == ONAT and len(node.args) == 3:
                return Val('PyGrid.getParamO (E.cfgN "%s") %s' % (key, _p(v.code)), ONAT)
            if v.ty == OK_ and len(node.args) == 4:
                d = self.scalar(self.expr(node.args[3], env, binds))
                return Val('PyGrid.getParam (E.cfgK "%s" %s) %s' % (key, _p(d.code), _p(v.code)), K)
            raise Unsupported("config._get_param on a %s with %d arguments" % (v.ty, len(node.args)))
        if isinstance(f, ast.Name) and f.id in ("min", "max") and not kw:
            prim = "PyGrid.%sOf" % f.id
            if len(node.args) == 1:
                a = self.expr(node.args[0], env, binds)
                if a.ty == ARR:
                    return self.bind(binds, "%s %s" % (prim, _p(a.code)), K)
            if len(node.args) == 2:
                a = self.scalar(self.expr(node.args[0], env, binds))
                b = self.scalar(self.expr(node.args[1], env, binds))
                return Val("%s %s %s" % (f.id, _p(a.code), _p(b.code)), K)
            raise Unsupported("%s" % ast.unparse(node)[:50])
        if isinstance(f, ast.Name) and f.id == "len" and len(node.args) == 1 and not kw:
            a = self.expr(node.args[0], env, binds)
            if a.ty == ARR:
                return Val("List.length %s" % _p(a.code), NAT)
            if a.ty == OMARG:
                return self.bind(binds, "PyGrid.OmArg.len %s" % _p(a.code), NAT)
            raise Unsupported("len of a %s" % a.ty)
        if isinstance(f, ast.Name) and f.id == "isinstance" and len(node.args) == 2 and not kw:
            a = self.expr(node.args[0], env, binds)
            cls = node.args[1]
            is_lt = isinstance(cls, ast.Tuple) and sorted(ast.unparse(x) for x in cls.elts) == ["list", "tuple"] \
                and "list" not in self.locals and "tuple" not in self.locals
            if a.ty == SYSARG and is_lt:
                return Val("PyGrid.hasIter %s" % _p(a.code), BOOL)
            if a.ty == OMARG and is_lt:
                return Val("PyGrid.OmArg.isSeq %s" % _p(a.code), BOOL)
            if a.ty == SYS and self.is_global_class(cls, "FrequencyResponseData"):
                return Val("%s.frd" % a.code, BOOL)
            raise Unsupported("%s" % ast.unparse(node)[:60])
        if isinstance(f, ast.Name) and f.id == "hasattr" and len(node.args) == 2 and not kw:
            a = self.expr(node.args[0], env, binds)
            if a.ty == SYSARG and isinstance(node.args[1], ast.Constant) and node.args[1].value == "__iter__":
                return Val("PyGrid.hasIter %s" % _p(a.code), BOOL)
            raise Unsupported("%s" % ast.unparse(node)[:60])
        if isinstance(f, ast.Attribute) and f.attr in ("isctime", "isdtime", "issiso"):
            s = self.expr(f.value, env, binds)
            if s.ty == SYS:
                if f.attr == "issiso" and not node.args and not kw:
                    return Val("%s.siso" % s.code, BOOL)
                strict = "false"
                if node.args or set(kw) - {"strict"}:
                    raise Unsupported("%s" % ast.unparse(node)[:60])
                if "strict" in kw:
                    b = kw["strict"]
                    if not (isinstance(b, ast.Constant) and b.value in (True, False)):
                        raise Unsupported("strict=%s" % ast.unparse(b))
                    strict = "true" if b.value else "false"
                if f.attr != "issiso":
                    return Val("DtPred.%s %s %s.dt" % (f.attr, strict, s.code), BOOL)
        if isinstance(f, ast.Name) and f.id in self.callees and f.id not in self.locals:
            lname, sig, ptys, rty = self.callees[f.id]
            args = []
            for (kind, x), ty in zip(sig.resolve(node), ptys):
                if kind == "default":
                    v = self.expr(x, {}, binds)
                else:
                    v = self.expr(x, env, binds)
                args.append(self.coerce(v, ty, ast.unparse(x)))
            return self.bind(binds, "%s E %s" % (lname, " ".join(_p(a) for a in args)), rty)
        raise Unsupported("call %s" % ast.unparse(node)[:60])

    def coerce(self, v, ty, what):
        """pass a value where the callee expects `ty`"""
        if v.ty == ty:
            return v.code
        if v.ty == "None" and ty in (ONAT, OK_):
            return "none"
        if v.ty == "None" and ty == OMARG:
            return "PyGrid.OmArg.none"
        if v.ty == "None" and ty == BOOL:
            return "false"          # `Hz=None`: only its truth value is used
        if ty == OK_ and v.ty in (K, NAT):
            return "some %s" % _p(self.scalar(v).code)
        if ty == ONAT and v.ty == NAT:
            return "some %s" % _p(v.code)
        raise Unsupported("argument %s of type %s where %s is expected" % (what[:30], v.ty, ty))

    def np_call(self, name, node, kw, env, binds):
        args = node.args
        if name == "array" and len(args) == 1 and not kw:
            elts = self.seq_items(args[0])
            vs = [self.scalar(self.expr(x, env, binds)) for x in elts]
            if not vs:
                return Val("([] : List K)", ARR, own=True)
            return Val("[%s]" % ", ".join(v.code for v in vs), ARR, own=True)
        if name in ("concatenate", "hstack") and len(args) == 1 and not kw:
            parts = []
            for x in self.seq_items(args[0]):
                v = self.expr(x, env, binds)
                if v.ty == ARR:
                    parts.append(_p(v.code))
                elif v.ty in (K, NAT) and name == "hstack":
                    parts.append("[%s]" % self.scalar(v).code)
                else:
                    raise Unsupported("np.%s of a %s" % (name, v.ty))
            return Val(" ++ ".join(parts), ARR, own=True)
        if name == "abs" and len(args) == 1 and not kw:
            x = args[0]
            # np.abs(sys.poles()), np.abs(sys.zeros())
            if isinstance(x, ast.Call) and isinstance(x.func, ast.Attribute) and x.func.attr in ("poles", "zeros") \
                    and not x.args and not x.keywords:
                s = self.expr(x.func.value, env, binds)
                if s.ty == SYS:
                    return Val("%s.%s" % (s.code, "absPoles" if x.func.attr == "poles" else "absZeros"), ARR)
            # np.abs(<real> / (1j * c))
            if isinstance(x, ast.BinOp) and isinstance(x.op, ast.Div) and isinstance(x.right, ast.BinOp) \
                    and isinstance(x.right.op, ast.Mult) and isinstance(x.right.left, ast.Constant) \
                    and x.right.left.value == 1j:
                num = self.expr(x.left, env, binds)
                c = self.scalar(self.expr(x.right.right, env, binds))
                if num.ty == ARR:
                    return self.elementwise([num, c], ARR, lambda cs: "PyGrid.absDivJ %s %s" % (_p(cs[0]), _p(cs[1])),
                                            "np.abs(x / (1j * c))")
                return Val("PyGrid.absDivJ %s %s" % (_p(self.scalar(num).code), _p(c.code)), K)
            v = self.expr(x, env, binds)
            if v.ty == ARR:
                return self.elementwise([v], ARR, lambda c: "|%s|" % c[0], "np.abs")
            return Val("|%s|" % self.scalar(v).code, K)
        if name in ("log10", "log", "rint") and len(args) == 1 and not kw:
            fn = {"log10": "E.log10", "log": "E.ln", "rint": "PyNyq.round0"}[name]
            v = self.expr(args[0], env, binds)
            if v.ty == ARR:
                return self.elementwise([v], ARR, lambda c: "%s %s" % (fn, _p(c[0])), "np." + name)
            return Val("%s %s" % (fn, _p(self.scalar(v).code)), K)
        if name in ("min", "max") and len(args) == 1 and not kw:
            v = self.expr(args[0], env, binds)
            if v.ty == ARR:
                return self.bind(binds, "PyGrid.%sOf %s" % (name, _p(v.code)), K)
        if name == "isclose" and len(args) == 2 and not kw:
            a = self.expr(args[0], env, binds)
            b = self.scalar(self.expr(args[1], env, binds))
            if a.ty == ARR:
                return self.elementwise([a, b], BARR, lambda c: "PyGrid.isclose %s %s" % (_p(c[0]), _p(c[1])), "isclose")
            return Val("PyGrid.isclose %s %s" % (_p(self.scalar(a).code), _p(b.code)), BOOL)
        if name == "any" and len(args) == 1 and not kw:
            v = self.expr(args[0], env, binds)
            e = self.as_ew(v) if v.ty == BARR else None
            if e is not None:
                return Val("List.any %s (fun x => %s)" % (_p(e[0]), e[1]), BOOL)
        if name == "linspace" and len(args) == 3 and not kw:
            a = self.scalar(self.expr(args[0], env, binds))
            b = self.scalar(self.expr(args[1], env, binds))
            n = self.expr(args[2], env, binds)
            if n.ty == NAT:
                return Val("PyGrid.linspace %s %s %s" % (_p(a.code), _p(b.code), _p(n.code)), ARR, own=True)
        if name == "logspace" and len(args) == 2 and set(kw) <= {"num", "endpoint"}:
            if "endpoint" in kw and not (isinstance(kw["endpoint"], ast.Constant) and kw["endpoint"].value is True):
                raise Unsupported("np.logspace with endpoint=%s" % ast.unparse(kw["endpoint"]))
            a = self.scalar(self.expr(args[0], env, binds))
            b = self.scalar(self.expr(args[1], env, binds))
            if "num" in kw:
                n = self.expr(kw["num"], env, binds)
                if n.ty == ONAT:
                    n = self.bind(binds, "PyGrid.natOf %s" % _p(n.code), NAT)
                if n.ty != NAT:
                    raise Unsupported("np.logspace with num of type %s" % n.ty)
                ncode = _p(n.code)
            else:
                ncode = "50"
            return Val("PyGrid.logspace E.pow10 %s %s %s" % (_p(a.code), _p(b.code), ncode), ARR, own=True)
        if name in ("asarray", "copy") and len(args) == 1 and not kw:
            v = self.expr(args[0], env, binds)
            if v.ty == OMARG:
                return self.bind(binds, "PyGrid.OmArg.toArr %s" % _p(v.code), ARR, own=(name == "copy"))
            if v.ty == ARR:
                return Val(v.code, ARR, ew=v.ew, own=(name == "copy") or v.own)
        raise Unsupported("np.%s call %s" % (name, ast.unparse(node)[:60]))

    # -- statements --------------------------------------------------------------------------------
    @staticmethod
    def is_doc(s):
        return isinstance(s, ast.Expr) and isinstance(s.value, ast.Constant) and isinstance(s.value.value, str)

    def is_warn(self, s):
        return isinstance(s, ast.Expr) and isinstance(s.value, ast.Call) and isinstance(s.value.func, ast.Attribute) \
            and s.value.func.attr == "warn" and self.is_module(s.value.func.value, "warnings", "warnings")

    def exits(self, stmts):
        """the block never falls through"""
        if not stmts:
            return False
        s = stmts[-1]
        if isinstance(s, (ast.Continue, ast.Raise, ast.Return)):
            return True
        if isinstance(s, ast.If):
            return self.exits(s.body) and self.exits(s.orelse)
        return False

    @staticmethod
    def assigned(stmts):
        out = []
        for s in stmts:
            for node in ast.walk(s):
                nm = None
                if isinstance(node, ast.Name) and isinstance(node.ctx, ast.Store):
                    nm = node.id
                elif isinstance(node, ast.Subscript) and isinstance(node.ctx, ast.Store) and isinstance(node.value, ast.Name):
                    nm = node.value.id
                elif isinstance(node, ast.Call) and isinstance(node.func, ast.Attribute) and node.func.attr == "append" \
                        and isinstance(node.func.value, ast.Name):
                    nm = node.func.value.id
                if nm is not None and nm not in out:
                    out.append(nm)
        return out

    def store(self, env, items, name, v):
        if v.ty not in (K, NAT, ONAT, OK_, BOOL, ARR, BARR, SYSARG, OMARG):
            raise Unsupported("assignment of a %s to `%s`" % (v.ty, name))
        ln = lean_name(name)
        items.append("let %s : %s := %s" % (ln, v.ty, v.code))
        ew = v.ew
        if ew is not None and ew[0] == ln:
            ew = None                       # elementwise over the old value of the same name
        for n, var in env.items():
            if var.ew is not None and var.ew[0] == ln:
                env[n] = Var(var.ty, var.ver, var.lname, None, var.own, var.py)
        self.ver += 1
        env[name] = Var(v.ty, self.ver, ln, ew, v.own, v.py and v.ty in (K, NAT))

    def tup(self, env, names):
        if len(names) == 1:
            return env[names[0]].lname
        return "(" + ", ".join(env[n].lname for n in names) + ")"

    def tup_ty(self, env, names):
        return " × ".join(env[n].ty for n in names)

    def unpack(self, env, items, names, t, tys, src_env):
        for k, n in enumerate(names):
            proj = t if len(names) == 1 else t + ".2" * k + ("" if k == len(names) - 1 else ".1")
            sv = src_env[n]
            self.store(env, items, n, Val(proj, tys[k], own=sv.own, py=False))

    def block(self, stmts, env, tail):
        """items of a `do` block; `tail(env)` gives the final items on fall-through"""
        items = []
        env = dict(env)
        for idx, s in enumerate(stmts):
            if self.is_doc(s) or isinstance(s, ast.Pass) or self.is_warn(s):
                continue
            if isinstance(s, ast.Assign) and len(s.targets) == 1 and isinstance(s.targets[0], ast.Name):
                binds = []
                v = self.expr(s.value, env, binds)
                if isinstance(s.value, ast.Name) and v.ty == ARR:
                    v.own = False
                tgt = s.targets[0].id
                if v.ty == "None":
                    if tgt not in env or env[tgt].ty not in (OMARG, ONAT, OK_):
                        raise Unsupported("`%s = None` for a name without an optional type" % tgt)
                    v = Val(self.coerce(v, env[tgt].ty, "None"), env[tgt].ty)
                items.extend(binds)
                self.store(env, items, s.targets[0].id, v)
                continue
            if isinstance(s, ast.Assign) and len(s.targets) == 1 and isinstance(s.targets[0], ast.Tuple) \
                    and isinstance(s.value, ast.Call) and isinstance(s.value.func, ast.Name) \
                    and s.value.func.id in self.callees and all(isinstance(x, ast.Name) for x in s.targets[0].elts):
                rty = self.callees[s.value.func.id][3]
                tys = rty.split(" × ")
                if len(tys) != len(s.targets[0].elts):
                    raise Unsupported("unpacking %d values into %d names" % (len(tys), len(s.targets[0].elts)))
                binds = []
                v = self.expr(s.value, env, binds)
                items.extend(binds)
                for k, x in enumerate(s.targets[0].elts):
                    proj = v.code + ".2" * k + ("" if k == len(tys) - 1 else ".1")
                    self.store(env, items, x.id, Val(proj, tys[k], own=True))
                continue
            if isinstance(s, ast.Assign) and len(s.targets) == 1 and isinstance(s.targets[0], ast.Subscript):
                t = s.targets[0]
                q = const_fraction(t.slice)
                if isinstance(t.value, ast.Name) and t.value.id in env and env[t.value.id].ty == ARR \
                        and q is not None and q >= 0 and q.denominator == 1:
                    if not env[t.value.id].own:
                        raise Unsupported("element assignment to `%s`, which may alias an argument" % t.value.id)
                    binds = []
                    v = self.scalar(self.expr(s.value, env, binds))
                    items.extend(binds)
                    tmp = self.fresh()
                    items.append("let %s ← PyGrid.setItem %s %d %s" % (tmp, env[t.value.id].lname, q, _p(v.code)))
                    self.store(env, items, t.value.id, Val(tmp, ARR, own=True))
                    continue
                raise Unsupported("assignment %s" % ast.unparse(s)[:60])
            if isinstance(s, ast.AugAssign) and isinstance(s.target, ast.Name) and s.target.id in env:
                sym = {ast.Add: "+", ast.Sub: "-", ast.Mult: "*", ast.Div: "/"}.get(type(s.op))
                if sym is None:
                    raise Unsupported("augmented assignment %s" % ast.unparse(s)[:60])
                binds = []
                cur = self.expr(s.target.__class__(id=s.target.id, ctx=ast.Load()), env, binds)
                if cur.ty == ARR and not cur.own:
                    raise Unsupported("in-place update of `%s`, which may alias an argument" % s.target.id)
                r = self.expr(s.value, env, binds)
                v = self.arith(sym, cur, r, binds, ast.unparse(s)[:40])
                v.own = cur.own
                items.extend(binds)
                self.store(env, items, s.target.id, v)
                continue
            if isinstance(s, ast.Expr) and isinstance(s.value, ast.Call) and isinstance(s.value.func, ast.Attribute) \
                    and s.value.func.attr == "append" and isinstance(s.value.func.value, ast.Name) \
                    and len(s.value.args) == 1 and not s.value.keywords:
                nm = s.value.func.value.id
                if nm not in env or env[nm].ty != ARR or not env[nm].own:
                    raise Unsupported("append to `%s`, which is not a list this function created" % nm)
                binds = []
                v = self.scalar(self.expr(s.value.args[0], env, binds))
                items.extend(binds)
                self.store(env, items, nm, Val("%s ++ [%s]" % (env[nm].lname, v.code), ARR, own=True))
                continue
            if isinstance(s, ast.Raise):
                exc = s.exc.func if isinstance(s.exc, ast.Call) else s.exc
                if not (isinstance(exc, ast.Name) and exc.id in EXC and exc.id not in self.locals) or s.cause:
                    raise Unsupported("raise %s" % ast.unparse(s)[:50])
                if EXC[exc.id] == "notImplemented" and self.try_entry is not None:
                    e0, names = self.try_entry
                    if any(env[n].ver != e0[n].ver for n in names):
                        raise Unsupported("a carried name is re-bound before `raise %s` inside the try" % exc.id)
                items.append("(.error Err.%s)" % EXC[exc.id])
                return items
            if isinstance(s, ast.Continue):
                if self.loop_tail is None or self.try_entry is not None:
                    raise Unsupported("continue outside a loop / inside a try")
                items.extend(self.loop_tail(env))
                return items
            if isinstance(s, ast.Return):
                if s.value is None or self.loop_tail is not None or self.try_entry is not None:
                    raise Unsupported("return without a value / inside a loop or a try")
                binds = []
                elts = s.value.elts if isinstance(s.value, ast.Tuple) else [s.value]
                vs = [self.expr(x, env, binds) for x in elts]
                items.extend(binds)
                self.returned = getattr(self, "returned", []) + [" × ".join(v.ty for v in vs)]
                items.append("pure " + (_p(vs[0].code) if len(vs) == 1 else "(" + ", ".join(v.code for v in vs) + ")"))
                return items
            if isinstance(s, ast.If):
                if not s.orelse and s.body and all(self.is_warn(x) for x in s.body):
                    b = []
                    self.truth(self.expr(s.test, env, b))     # must be a test of the subset
                    if b and any("PyGrid.item" in x or "pdiv" in x for x in b):
                        raise Unsupported("the test of a warning can raise")
                    continue
                binds = []
                c = self.truth(self.expr(s.test, env, binds))
                items.extend(binds)
                x1, x2 = self.exits(s.body), self.exits(s.orelse)
                rest = stmts[idx + 1:]
                if x1 or x2:
                    c1 = self.block(s.body + ([] if x1 else rest), env, tail)
                    c2 = self.block(s.orelse + ([] if x2 else rest), env, tail)
                    items.append("if %s then\n%s\nelse\n%s" % (c.code, _ind(_do(c1), 2), _ind(_do(c2), 2)))
                    return items
                self.join(items, env, c.code, s.body, s.orelse, "if")
                continue
            if isinstance(s, ast.Try):
                self.try_stmt(s, items, env)
                continue
            if isinstance(s, ast.For):
                self.for_stmt(s, items, env)
                continue
            raise Unsupported("statement %s" % ast.unparse(s).split("\n")[0][:70])
        items.extend(tail(env))
        return items

    def join_names(self, env, *blocks):
        asg = []
        for b in blocks:
            for n in self.assigned(b):
                if n not in asg:
                    asg.append(n)
        return [n for n in asg if n in env], [n for n in asg if n not in env]

    def loaded_outside(self, name, stmts):
        """`name` may be read after the statements `stmts` (later in the function, or anywhere in the enclosing loop)"""
        inside = {id(n) for x in stmts for n in ast.walk(x)}
        end = max(x.end_lineno for x in stmts)
        loop = getattr(self, "loop_node", None)
        in_loop = {id(n) for n in ast.walk(loop)} if loop is not None else set()
        return any(isinstance(n, ast.Name) and n.id == name and isinstance(n.ctx, ast.Load) and id(n) not in inside
                   and (n.lineno > end or id(n) in in_loop) for n in ast.walk(self.fn))

    def join(self, items, env, cond, body, orelse, what):
        names, fresh_names = self.join_names(env, body, orelse)
        # names bound on BOTH paths but not before are joined as well
        both = [n for n in fresh_names if n in self.assigned(body) and n in self.assigned(orelse)
                and self.loaded_outside(n, body + orelse)]
        dead = [n for n in names if not self.loaded_outside(n, body + orelse)]
        names = [n for n in names if n not in dead]
        outs = []

        def keep(e):
            outs.append(e)
            return ["pure " + self.tup(e, names + both)]
        if not names and not both:
            raise Unsupported("an `%s` that binds nothing" % what)
        c1 = self.block(body, env, keep)
        c2 = self.block(orelse, env, keep)
        e1, e2 = outs
        for n in names + both:
            if e1[n].ty != e2[n].ty:
                raise Unsupported("`%s` has type %s on one path and %s on the other" % (n, e1[n].ty, e2[n].ty))
        ty = self.tup_ty(e1, names + both)
        def is_pure(c):
            return c[-1].startswith("pure ") and all(x.startswith("let ") and " ← " not in x.split("\n")[0] for x in c[:-1])
        pure1, pure2 = is_pure(c1), is_pure(c2)
        t = self.fresh()
        if pure1 and pure2:
            def pure_code(c):
                return "\n".join(c[:-1] + [c[-1][len("pure "):]])
            items.append("let %s : %s := (if %s then\n%s\n  else\n%s)" % (
                t, ty, cond, _ind("(" + pure_code(c1) + ")", 4), _ind("(" + pure_code(c2) + ")", 4)))
        else:
            items.append("let %s ← ((if %s then\n%s\n  else\n%s) : Except Err (%s))" % (
                t, cond, _ind(_do(c1), 4), _ind(_do(c2), 4), ty))
        merged = {}
        for n in names + both:
            merged[n] = Var(e1[n].ty, 0, e1[n].lname, None, e1[n].own and e2[n].own, False)
        self.unpack(env, items, names + both, t, [e1[n].ty for n in names + both], merged)
        for n in fresh_names + dead:
            if n not in both:
                env.pop(n, None)

    def try_stmt(self, s, items, env):
        if s.finalbody or s.orelse or len(s.handlers) != 1:
            raise Unsupported("try with finally / else / several handlers")
        h = s.handlers[0]
        if not (isinstance(h.type, ast.Name) and h.type.id == "NotImplementedError" and h.name is None
                and "NotImplementedError" not in self.locals and not self.module_binds("NotImplementedError")):
            raise Unsupported("except clause %s" % (ast.unparse(h.type) if h.type else "<bare>"))
        if any(isinstance(n, (ast.Continue, ast.Return, ast.Break, ast.Try)) for b in (s.body, h.body) for x in b
               for n in ast.walk(x)):
            raise Unsupported("continue / return / break / nested try inside a try")
        names, fresh_names = self.join_names(env, s.body, h.body)
        if not names:
            raise Unsupported("a try that binds nothing")
        saved = self.try_entry
        self.try_entry = (dict(env), names)
        c1 = self.block(s.body, env, lambda e: ["pure " + self.tup(e, names)])
        self.try_entry = saved
        c2 = self.block(h.body, env, lambda e: ["pure " + self.tup(e, names)])
        t = self.fresh()
        items.append("let %s ← PyGrid.catchNotImpl (α := %s)\n%s\n%s" % (
            t, self.tup_ty(env, names), _ind(_do(c1), 4), _ind(_do(c2), 4)))
        self.unpack(env, items, names, t, [env[n].ty for n in names], dict(env))
        for n in fresh_names:
            env.pop(n, None)

    def for_stmt(self, s, items, env):
        if s.orelse:
            raise Unsupported("for ... else")
        it, tgt = s.iter, s.target
        if isinstance(it, ast.Call) and isinstance(it.func, ast.Name) and it.func.id == "enumerate" \
                and len(it.args) == 1 and not it.keywords and isinstance(tgt, ast.Tuple) and len(tgt.elts) == 2:
            idxname = tgt.elts[0].id if isinstance(tgt.elts[0], ast.Name) else None
            if idxname is None or any(isinstance(n, ast.Name) and n.id == idxname and isinstance(n.ctx, ast.Load)
                                      for x in s.body for n in ast.walk(x)):
                raise Unsupported("the loop index is used")
            it, tgt = it.args[0], tgt.elts[1]
        if not isinstance(tgt, ast.Name):
            raise Unsupported("loop target %s" % ast.unparse(tgt))
        binds = []
        seq = self.expr(it, env, binds)
        if seq.ty != SYSARG:
            raise Unsupported("loop over a %s" % seq.ty)
        items.extend(binds)
        if any(isinstance(n, (ast.Break, ast.Return)) for x in s.body for n in ast.walk(x)):
            raise Unsupported("break / return inside the loop")
        names, fresh_names = self.join_names(env, s.body)
        if tgt.id in names:
            raise Unsupported("the loop variable shadows a live name")
        if not names:
            raise Unsupported("a loop that binds nothing")
        lst = self.fresh()
        items.append("let %s ← PyGrid.iter %s" % (lst, _p(seq.code)))
        benv = dict(env)
        pre = []
        stv = "st"
        for k, n in enumerate(names):
            proj = stv if len(names) == 1 else stv + ".2" * k + ("" if k == len(names) - 1 else ".1")
            v = env[n]
            self.ver += 1
            benv[n] = Var(v.ty, self.ver, v.lname, None, v.own, False)
            pre.append("let %s : %s := %s" % (v.lname, v.ty, proj))
        self.ver += 1
        benv[tgt.id] = Var(SYS, self.ver, lean_name(tgt.id))
        saved = self.loop_tail, self.try_entry, getattr(self, "loop_node", None)
        self.loop_tail = lambda e: ["pure " + self.tup(e, names)]
        self.try_entry = None
        self.loop_node = s
        body = self.block(s.body, benv, self.loop_tail)
        self.loop_tail, self.try_entry, self.loop_node = saved
        t = self.fresh()
        ty = self.tup_ty(env, names)
        # the loop body as a definition of its own: parameters = the live names it reads that it does not carry
        reads = {n.id for x in s.body for n in ast.walk(x) if isinstance(n, ast.Name) and isinstance(n.ctx, ast.Load)}
        cap = [n for n in env if n in reads and n not in names and n != tgt.id]
        self.nloops = getattr(self, "nloops", 0) + 1
        lname = "%sLoop%s" % (self.defname, "" if self.nloops == 1 else str(self.nloops))
        self.aux.append(
            "/-- the body of the loop `for %s in %s:` of `%s`: one iteration on the carried names (%s). -/\n"
            "def %s %s (E : PyGrid.Ext K)\n    %s(st : %s) (%s : %s) :\n    Except Err (%s) :=\n%s\n" % (
                ast.unparse(s.target), ast.unparse(s.iter), self.fn.name, ", ".join(names), lname, BINDERS,
                "".join("(%s : %s) " % (env[n].lname, env[n].ty) for n in cap), ty, lean_name(tgt.id), SYS, ty,
                _ind(_do(pre + body), 2)))
        items.append("let %s ← List.foldlM (%s E %s) %s %s" % (
            t, lname, " ".join(env[n].lname for n in cap), self.tup(env, names), lst))
        self.unpack(env, items, names, t, [env[n].ty for n in names], dict(env))
        for n in fresh_names + [tgt.id]:
            env.pop(n, None)


# ------------------------------------------------------------------------------------------------
# the jobs
# ------------------------------------------------------------------------------------------------
def _sha(text):
    return hashlib.sha256(text.encode()).hexdigest()


def _parse(repo, rel):
    src = open(os.path.join(repo, rel)).read()
    return src, ast.parse(src)


def find_function(module, name):
    found = [n for n in module.body if isinstance(n, ast.FunctionDef) and n.name == name]
    if len(found) != 1:
        raise Unsupported("%d module-level definitions of %s" % (len(found), name))
    if found[0].decorator_list:
        raise Unsupported("decorated function")
    return found[0]


def no_fallthrough(env):
    raise Unsupported("a path falls off the end of the function")


RANGE_PARAMS = [("syslist", SYSARG), ("Hz", BOOL), ("number_of_samples", ONAT), ("feature_periphery_decades", OK_)]
DETERMINE_PARAMS = [("syslist", SYSARG), ("omega_in", OMARG), ("omega_limits", OMARG), ("omega_num", ONAT),
                    ("Hz", BOOL), ("feature_periphery_decades", OK_)]


def _whole_function(repo, pyname, params, lname, rty, callees_of):
    src, module = _parse(repo, "control/freqplot.py")
    fn = find_function(module, pyname)
    sig = Signature(fn)
    if sig.names != [p for p, _ in params] or sig.kwarg:
        raise Unsupported("signature of %s: %s, expected %s" % (pyname, sig.names, [p for p, _ in params]))
    for n, d in sig.defaults.items():
        if not (isinstance(d, ast.Constant) and d.value is None):
            raise Unsupported("default value of `%s` is not None" % n)
    tr = Tr(module, fn, callees_of(module))
    tr.defname = lname
    env = {}
    for n, ty in params:
        tr.ver += 1
        env[n] = Var(ty, tr.ver, lean_name(n))
    items = tr.block(fn.body, env, no_fallthrough)
    if set(getattr(tr, "returned", [])) != {rty}:
        raise Unsupported("%s returns %s, expected %s" % (pyname, sorted(set(getattr(tr, "returned", []))), rty))
    text = ast.get_source_segment(src, fn)
    sha = _sha(text)
    lean = ("".join(a + "\n" for a in tr.aux) +
            "/-- `control/freqplot.py:%s` as the source text says it (sha256 of the function text\n%s). -/\n"
            "def %s %s (E : PyGrid.Ext K)\n    %s :\n    Except Err (%s) :=\n%s\n") % (
        pyname, sha, lname, BINDERS, " ".join("(%s : %s)" % (lean_name(n), ty) for n, ty in params), rty,
        _ind(_do(items), 2))
    return lean, {"sha": sha, "lines": fn.end_lineno - fn.lineno + 1, "temporaries": tr.ntmp}, sig


def _range_callee(module):
    fn = find_function(module, "_default_frequency_range")
    return ("defaultFrequencyRange", Signature(fn), [ty for _, ty in RANGE_PARAMS], ARR)


def _determine_callee(module):
    fn = find_function(module, "_determine_omega_vector")
    return ("determineOmegaVector", Signature(fn), [ty for _, ty in DETERMINE_PARAMS], ARR + " × " + BOOL)


def translate_range(repo):
    lean, inf, _ = _whole_function(repo, "_default_frequency_range", RANGE_PARAMS, "defaultFrequencyRange", ARR,
                                   lambda m: {})
    return lean, inf


def translate_determine(repo):
    def callees(module):
        sig = _range_callee(module)
        if sig[1].names != [p for p, _ in RANGE_PARAMS]:
            raise Unsupported("signature of _default_frequency_range: %s" % sig[1].names)
        return {"_default_frequency_range": sig}
    lean, inf, _ = _whole_function(repo, "_determine_omega_vector", DETERMINE_PARAMS, "determineOmegaVector",
                                   ARR + " × " + BOOL, callees)
    return lean, inf


def _failed(defs):
    def f(msg):
        return "\n".join("/-- translation FAILED: %s -/\ndef %s %s (E : PyGrid.Ext K)\n    %s :\n    Except Err (%s) :=\n"
                         "  .error Err.notImplemented\n" % (msg, nm, BINDERS, ps, rty) for nm, ps, rty in defs)
    return f


def _ps(params):
    return " ".join("(%s : %s)" % (lean_name(n), ty) for n, ty in params)


failed_range = _failed([("defaultFrequencyRangeLoop", "(feature_periphery_decades : K) (st : List K × List K) (sys : %s)" % SYS,
                         "List K × List K"), ("defaultFrequencyRange", _ps(RANGE_PARAMS), ARR)])
failed_determine = _failed([("determineOmegaVector", _ps(DETERMINE_PARAMS), ARR + " × " + BOOL)])


# -- the grid statements of nyquist_response -------------------------------------------------------
NYQ_PARAMS = {"sysdata": SYSARG, "omega": OMARG, "omega_limits": OMARG, "omega_num": ONAT, "warn_nyquist": BOOL}
NYQ_CONFIG_INPUTS = {"indent_points": NAT}      # values read from the keyword dictionary: inputs


def _loads(node):
    return {n.id for n in ast.walk(node) if isinstance(n, ast.Name) and isinstance(n.ctx, ast.Load)}


def _nyquist_parts(repo):
    src, module = _parse(repo, "control/freqplot.py")
    fn = find_function(module, "nyquist_response")
    sig = Signature(fn)
    for n in ("sysdata", "omega", "omega_limits", "omega_num", "warn_nyquist"):
        if n not in sig.names:
            raise Unsupported("nyquist_response has no parameter `%s`" % n)
    if sig.names[:4] != ["sysdata", "omega", "omega_limits", "omega_num"]:
        raise Unsupported("the first four parameters of nyquist_response are %s" % sig.names[:4])
    callee = _determine_callee(module)
    if callee[1].names != [p for p, _ in DETERMINE_PARAMS]:
        raise Unsupported("signature of _determine_omega_vector: %s" % callee[1].names)
    tr = Tr(module, fn, {"_determine_omega_vector": callee})
    body = fn.body
    calls = [i for i, s in enumerate(body) if isinstance(s, ast.Assign) and isinstance(s.value, ast.Call)
             and isinstance(s.value.func, ast.Name) and s.value.func.id == "_determine_omega_vector"]
    allcalls = [n for n in ast.walk(fn) if isinstance(n, ast.Call) and isinstance(n.func, ast.Name)
                and n.func.id == "_determine_omega_vector"]
    if len(calls) != 1 or len(allcalls) != 1:
        raise Unsupported("%d calls of _determine_omega_vector in nyquist_response, expected one top-level assignment"
                          % len(allcalls))
    ci = calls[0]
    tgt = body[ci].targets[0]
    if not (len(body[ci].targets) == 1 and isinstance(tgt, ast.Tuple) and len(tgt.elts) == 2
            and all(isinstance(x, ast.Name) for x in tgt.elts)):
        raise Unsupported("the result of _determine_omega_vector is not unpacked into two names")
    om, given = tgt.elts[0].id, tgt.elts[1].id
    loops = [i for i, s in enumerate(body) if isinstance(s, ast.For)]
    if len(loops) != 1 or loops[0] < ci:
        raise Unsupported("expected exactly one top-level loop after the call of _determine_omega_vector")
    li = loops[0]
    loop = body[li]
    between = [s for s in body[ci + 1:li] if om in Tr.assigned([s]) or given in Tr.assigned([s])]
    if len(between) != 1 or not isinstance(between[0], ast.If):
        raise Unsupported("expected exactly one `if` re-binding `%s` between the call and the loop" % om)
    for s in body[li:]:
        st = Tr.assigned([s])
        if om in st or given in st:
            raise Unsupported("`%s` / `%s` is re-bound in or after the loop over the systems" % (om, given))
    it = loop.iter
    if not (isinstance(it, ast.Call) and isinstance(it.func, ast.Name) and it.func.id == "enumerate"
            and len(it.args) == 1 and isinstance(it.args[0], ast.Name) and isinstance(loop.target, ast.Tuple)
            and len(loop.target.elts) == 2 and isinstance(loop.target.elts[1], ast.Name)):
        raise Unsupported("the loop is not `for <i>, <sys> in enumerate(<syslist>):`")
    sysl, sysname = it.args[0].id, loop.target.elts[1].id
    # backward slice of the two root statements + the sequence the loop visits
    roots = [body[ci], between[0]]
    needed = set().union(*[_loads(s) for s in roots]) | {sysl}
    chosen, inputs = list(roots), {}
    for s in reversed(body[:ci]):
        st = [n for n in Tr.assigned([s]) if n in needed]
        if not st:
            continue
        if not (isinstance(s, ast.Assign) and len(s.targets) == 1 and isinstance(s.targets[0], ast.Name)):
            raise Unsupported("`%s` is bound by %s" % (st[0], ast.unparse(s).split("\n")[0][:50]))
        v = s.value
        if isinstance(v, ast.Call) and tr.is_config_get(v.func) and len(v.args) >= 3 and isinstance(v.args[2], ast.Name) \
                and v.args[2].id == "_kwargs":
            key = v.args[1].value if isinstance(v.args[1], ast.Constant) else None
            if not (isinstance(v.args[0], ast.Constant) and v.args[0].value == "nyquist" and key in NYQ_CONFIG_INPUTS
                    and key == st[0]):
                raise Unsupported("`%s` is read from the configuration key %s" % (st[0], ast.unparse(v)[:60]))
            if st[0] in inputs:
                raise Unsupported("`%s` is read twice" % st[0])
            inputs[st[0]] = NYQ_CONFIG_INPUTS[key]
            continue
        chosen.insert(0, s)
        needed |= _loads(s)
    return src, module, fn, tr, chosen, inputs, om, given, sysl, sysname, loop


def translate_nyquist(repo):
    src, module, fn, tr, chosen, inputs, om, given, sysl, sysname, loop = _nyquist_parts(repo)
    # (A) common grid
    env = {}
    params = [(n, NYQ_PARAMS[n]) for n in ("sysdata", "omega", "omega_limits", "omega_num")] + sorted(inputs.items())
    for n, ty in params:
        tr.ver += 1
        env[n] = Var(ty, tr.ver, lean_name(n))

    def tail(e):
        for n, ty in ((sysl, SYSARG), (om, ARR), (given, BOOL)):
            if n not in e or e[n].ty != ty:
                raise Unsupported("`%s` is not a %s after the grid statements" % (n, ty))
        return ["pure (%s, %s, %s)" % (e[sysl].lname, e[om].lname, e[given].lname)]
    items = tr.block(chosen, env, tail)
    text_a = "\n".join(ast.get_source_segment(src, s) for s in chosen)
    # (B) per system
    cut = [i for i, s in enumerate(loop.body) if isinstance(s, ast.Assign) and isinstance(s.value, ast.BinOp)
           and isinstance(s.value.op, ast.Mult) and isinstance(s.value.left, ast.Constant) and s.value.left.value == 1j
           and isinstance(s.value.right, ast.Name)]
    if len(cut) != 1:
        raise Unsupported("%d statements `<contour> = 1j * <omega_sys>` in the loop, expected one" % len(cut))
    prefix = loop.body[:cut[0]]
    osys = loop.body[cut[0]].value.right.id
    tr2 = Tr(module, fn, {})
    tr2.loop_node = loop
    env2 = {}
    params2 = [(sysname, SYS), (om, ARR), (given, BOOL), ("warn_nyquist", BOOL)]
    for n, ty in params2:
        tr2.ver += 1
        env2[n] = Var(ty, tr2.ver, lean_name(n))

    def tail2(e):
        if osys not in e or e[osys].ty != ARR:
            raise Unsupported("`%s` is not an array where the contour is formed" % osys)
        return ["pure %s" % e[osys].lname]
    items2 = tr2.block(prefix, env2, tail2)
    text_b = "\n".join(ast.get_source_segment(src, s) for s in prefix + [loop.body[cut[0]]])
    sha = _sha(text_a + "\n" + text_b)
    doc_a = "\n".join("    " + l for s in chosen for l in ast.unparse(s).split("\n")).replace("-/", "- /")
    ps_a = " ".join("(%s : %s)" % (lean_name(n), ty) for n, ty in params)
    ps_b = " ".join("(%s : %s)" % (lean_name(n), ty) for n, ty in params2)
    lean = ("/-- the statements of `control/freqplot.py:nyquist_response` that determine the common frequency grid (backward\n"
            "slice of the call of `_determine_omega_vector` and of the `if` that lets the grid start at 0; sha256 of these and\n"
            "of the per-system statements below\n%s):\n%s\nResult: `(%s, %s, %s)`.  `indent_points` is the value read from the "
            "keyword dictionary. -/\n"
            "def nyquistGridCommon %s (E : PyGrid.Ext K)\n    %s :\n    Except Err (%s × %s × %s) :=\n%s\n\n"
            "/-- the statements of the loop over the systems up to `<contour> = 1j * %s`: the frequencies of one system. -/\n"
            "def nyquistOmegaSys %s (E : PyGrid.Ext K)\n    %s :\n    Except Err (%s) :=\n%s\n\n"
            "/-- the frequencies of every system of the list: the common grid, then the loop `for .., %s in enumerate(%s)`. -/\n"
            "def nyquistOmegaAll %s (E : PyGrid.Ext K)\n    %s (warn_nyquist : Bool) :\n    Except Err (List (List K)) :=\n"
            "  (do\n    let c ← nyquistGridCommon E %s\n    let l ← PyGrid.iter c.1\n"
            "    List.mapM (fun s => nyquistOmegaSys E s c.2.1 c.2.2 warn_nyquist) l)\n") % (
        sha, doc_a, sysl, om, given, BINDERS, ps_a, SYSARG, ARR, BOOL, _ind(_do(items), 2),
        osys, BINDERS, ps_b, ARR, _ind(_do(items2), 2),
        sysname, sysl, BINDERS, ps_a, " ".join(lean_name(n) for n, _ in params))
    return lean, {"sha": sha, "lines": len(chosen) + len(prefix) + 1, "temporaries": tr.ntmp + tr2.ntmp,
                  "inputs": sorted(inputs)}


def failed_nyquist(msg):
    ps_a = "(sysdata : %s) (omega : %s) (omega_limits : %s) (omega_num : %s) (indent_points : ℕ)" % (SYSARG, OMARG, OMARG, ONAT)
    ps_b = "(sys : %s) (omega : %s) (omega_range_given : Bool) (warn_nyquist : Bool)" % (SYS, ARR)
    return _failed([("nyquistGridCommon", ps_a, "%s × %s × %s" % (SYSARG, ARR, BOOL)),
                    ("nyquistOmegaSys", ps_b, ARR),
                    ("nyquistOmegaAll", ps_a + " (warn_nyquist : Bool)", "List (List K)")])(msg)


JOBS = [
    ("range", "GridRange.lean", ["CtrlVerif.Model.PyGrid"], translate_range, failed_range,
     "control/freqplot.py:_default_frequency_range"),
    ("determine", "GridDetermine.lean", ["CtrlVerif.Model.PyGrid", "CtrlVerif.Generated.GridRange"], translate_determine,
     failed_determine, "control/freqplot.py:_determine_omega_vector"),
    ("nyquist", "GridNyquist.lean", ["CtrlVerif.Model.PyGrid", "CtrlVerif.Generated.GridDetermine"], translate_nyquist,
     failed_nyquist, "control/freqplot.py:nyquist_response (frequency grid)"),
]
C13_KEYS = ("range", "determine", "nyquist")


def regenerate(repo, lean_dir, keys=C13_KEYS):
    """Rewrite Generated/Grid*.lean; returns (list of problems, info dict).  Deterministic, rewritten only when changed."""
    problems, info = [], {}
    os.makedirs(os.path.join(lean_dir, "CtrlVerif", "Generated"), exist_ok=True)
    for key, out, imports, translate, failed, where in JOBS:
        if keys is not None and key not in keys:
            continue
        try:
            lean, inf = translate(repo)
            info[key] = inf
            head = "-- GENERATED on every run by harness/core/py2lean_grid.py from %s (sha256 %s).  Do not edit.\n" % (
                where, inf["sha"])
        except (Unsupported, SyntaxError, OSError, KeyError, AttributeError) as e:
            msg = str(e).replace("\n", " ").replace("-/", "- /").replace("/-", "/ -")[:200]
            problems.append("py2lean_grid: %s cannot be translated: %s" % (where, msg))
            head = "-- GENERATED by harness/core/py2lean_grid.py: translation of %s FAILED.  Do not edit.\n" % where
            lean = failed(msg)
        text = (head + "".join("import %s\n" % m for m in imports)
                + "\nnamespace CtrlVerif.Generated\n\nopen CtrlVerif\n\n" + lean + "\nend CtrlVerif.Generated\n")
        path = os.path.join(lean_dir, "CtrlVerif", "Generated", out)
        old = open(path).read() if os.path.exists(path) else None
        if old != text:
            with open(path, "w") as f:
                f.write(text)
    return problems, info


if __name__ == "__main__":
    import sys
    for key, out, imports, translate, failed, where in JOBS:
        if len(sys.argv) > 2 and key not in sys.argv[2:]:
            continue
        try:
            lean, inf = translate(sys.argv[1])
            print(lean)
            print("--", inf)
        except Unsupported as e:
            print("-- %s FAILED: %s" % (key, e))
