"""Fifth translator Python `ast` -> Lean 4 (DESIGN §10.3 / notes/NOTES-py2lean-statefbk.md): the
reachability / observability matrices, Ackermann pole placement and the argument plumbing of the LQ
designs of property C11 -

    control/statefbk.py : ctrb, obsv, place_acker (alias acker), lqr, dlqr
    control/stochsys.py : lqe, dlqe

It regenerates `lean/CtrlVerif/Generated/Sfb*.lean` from the source text of the tree the check runs
against on every run; `Props/C11Gen*.lean` prove the hand-written C11 model (`Model/StateFbk.lean`,
`Model/StateFbkDyn.lean`: `ctrbDyn obsvDyn ackerDyn / placeAcker`, `route intBlock lqr lqrInt lqe`)
EQUAL to the generated functions, so a semantic edit of the source breaks a proof obligation, and an
edit that leaves the supported subset makes the translation fail (reported the same way: the emitted
definition is then `.error .notImplemented` for every argument, which cannot equal the model).

The matrix layer, the expression translation and the effect ordering are those of
`core/py2lean_ss.py` (class `Translator` is subclassed, nothing there is edited): a 2-D ndarray is a
`PMat K` (`Model/PyMat.lean`), floats are exact elements of a field `K`, Python ints are `Int`, sizes
`Nat`, every operation that can raise is bound to a temporary left to right in Python's order.
Added here (meaning fixed in the ONE new trusted file `Model/PySfb.lean`, plus `PyArith.range /
getItem` of `Model/PyArith.lean`):

  statements   `for k in range(a, b)` / `np.arange(a, b)` (a `List.foldlM` over `PyArith.range`; the
               state is the tuple of variables assigned in the body that exist before the loop),
               `X[a:b, c:d] = V` with NumPy broadcasting (`PySfb.setSliceB`),
               `if x is None or <test>: <body>` for an optional int `x` (a `match`),
               `raise ValueError | ControlArgument | ControlDimension | ControlNotImplemented |
               TypeError(...)` classified by the rule of `families/c11.py: classify_exc`,
               `a, b, c = care(...)`, `return a, b, c`
  expressions  `_ssmatrix(X, axis=, square=, rows=, cols=, name=)`, `np.dot(X, Y)`, `np.size(v)`,
               `np.poly(v)`, `np.real(v)`, `v[i]`, `np.linalg.matrix_power(X, i)`, `X[i, :]`,
               int `*`, calls of functions generated earlier (`ctrb(A, B)`)
  *args / **kwargs functions (`lqr dlqr lqe dlqe`): see `ArgsTranslator` below.

Names are resolved through the module's imports (a re-bound name is a failed translation), default
values of parameters are compared with the expected ones, the sha256 of each function text is
recorded in the generated file; output is deterministic and rewritten only when changed.
"""
import ast
import hashlib
import os

from core.py2lean import Unsupported
from core import py2lean_ss as ss
from core.py2lean_ss import V, _ind, SS, MAT, NUM, NAT, INT, DT, PROP, OPERAND, SHAPE, module_bindings

OPTINT, VEC, CVEC, NONE, TRIPLE = "OPTINT", "VEC", "CVEC", "NONE", "TRIPLE"
RESERVED = {"K", "L", "re", "Err", "PMat", "PySfb", "PyArith", "List", "Int", "Nat", "Option", "Except"}


def lean_name(name):
    """a Python variable whose name means something else in the generated file is renamed"""
    return name + "_v" if name in RESERVED else name

LEAN_TY = dict(ss.LEAN_TY)
LEAN_TY.update({OPTINT: "Option Int", VEC: "List K", CVEC: "List L"})

# what the free names of the two modules must be bound to
IMPORTS = {
    "np": ("import", "numpy"),
    "_ssmatrix": ("from", "statesp"),
    "ControlArgument": ("from", "exception"), "ControlDimension": ("from", "exception"),
    "ControlNotImplemented": ("from", "exception"),
}


ARGS, ARG, LTIOBJ, KWARGS, OPTKW, NOTARR, METHOD, OPTMAT, EIG, RICRES = \
    "ARGS", "ARG", "LTIOBJ", "KWARGS", "OPTKW", "NOTARR", "METHOD", "OPTMAT", "EIG", "RICRES"
LEAN_TY.update({OPTMAT: "Option (PMat K)", EIG: "ε", ARG: "PySfb.Arg K", OPTKW: "Option (PySfb.KwVal K)"})
IMPORTS.update({"LTI": ("from", "lti"), "StateSpace": ("from", "statesp"), "care": ("from", "mateqn"),
                "dare": ("from", "mateqn"), "_check_shape": ("from", "mateqn"),
                "isdtime": ("from", "iosys"), "isctime": ("from", "iosys")})


def classify_raise(cls, msg):
    """the rule of harness/families/c11.py: classify_exc"""
    if cls == "ControlDimension":
        return "shape"
    if cls == "ControlArgument":
        return "badArg"
    if cls == "ControlNotImplemented":
        return "notImplemented"
    if cls == "TypeError":
        return "badArg"
    if cls == "ValueError":
        if "reachable" in msg:
            return "illPosed"
        if "poles" in msg or "eigenvalue" in msg:
            return "badArg"
        return "shape"
    raise Unsupported("raise %s" % cls)


class _Raises(Exception):
    """evaluation of an expression raises statically (`args[0]` of an empty argument list)"""

    def __init__(self, kind, pre):
        Exception.__init__(self, kind)
        self.kind, self.pre = kind, pre


class SfbTranslator(ss.Translator):
    """module-level numeric functions (`ctrb`, `obsv`, `place_acker`)"""

    def __init__(self, job, bindings, available):
        super().__init__(job, bindings, available)
        self.ret_ty = job.get("ret")

    # -- names --------------------------------------------------------------------------------
    def need_sfb(self, name):
        got = self.bindings.get(name)
        if name in self.locals:
            raise Unsupported("`%s` is re-bound inside the function" % name)
        if got != IMPORTS[name]:
            raise Unsupported("`%s` is bound to %s in the module, expected %s" % (name, got, IMPORTS[name]))

    # -- expressions --------------------------------------------------------------------------
    def binop(self, node, env, pre):
        if isinstance(node.op, ast.Mult):
            save = list(pre)
            a = self.expr(node.left, env, pre)
            b = self.expr(node.right, env, pre)
            ints = lambda v: v.ty in (INT, NAT) or v.lit is not None
            if ints(a) and ints(b) and not (a.ty == NAT and b.ty == NAT):
                if a.lit is not None and b.lit is not None:
                    return V("(%d : Int)" % (a.lit * b.lit), INT, lit=a.lit * b.lit)
                return V("(%s * %s)" % (self.as_int(a), self.as_int(b)), INT)
            del pre[:]
            pre.extend(save)
        return super().binop(node, env, pre)

    def subscript(self, node, env, pre):
        sl = node.slice
        if isinstance(node.value, ast.Name) and node.value.id in env:
            v = env[node.value.id]
            if v.ty == VEC and not isinstance(sl, (ast.Tuple, ast.Slice)):
                i = self.expr(sl, env, pre)
                return self.bind(pre, "PyArith.getItem %s %s" % (v.code, self.as_int(i)), NUM)
            if v.ty == MAT and isinstance(sl, ast.Tuple) and len(sl.elts) == 2 \
                    and not isinstance(sl.elts[0], ast.Slice) and isinstance(sl.elts[1], ast.Slice) \
                    and sl.elts[1].lower is None and sl.elts[1].upper is None and sl.elts[1].step is None:
                i = self.expr(sl.elts[0], env, pre)
                return self.bind(pre, "PySfb.row %s %s" % (v.code, self.as_int(i)), VEC)
        return super().subscript(node, env, pre)

    def const_kw(self, node, allowed):
        if isinstance(node, ast.Constant) and node.value in allowed:
            return node.value
        raise Unsupported("keyword value %s" % ast.unparse(node))

    def call(self, node, env, pre):
        f = self.dotted(node.func)
        args, kws = node.args, {k.arg: k.value for k in node.keywords}
        if f == "_ssmatrix" and len(args) == 1 and set(kws) <= {"axis", "square", "rows", "cols", "name"}:
            self.need_sfb("_ssmatrix")
            x = self.expr(args[0], env, pre)
            if x.ty != MAT:
                raise Unsupported("_ssmatrix of a %s" % x.ty)
            if "axis" in kws:
                self.const_kw(kws["axis"], (0, 1))          # only matters for 1-D input
            if "name" in kws and not (isinstance(kws["name"], ast.Constant) and isinstance(kws["name"].value, str)):
                raise Unsupported("_ssmatrix name")
            sq = "false"
            if "square" in kws:
                sq = "true" if self.const_kw(kws["square"], (True, False, None)) is True else "false"
            dims = []
            for k in ("rows", "cols"):
                if k in kws and not (isinstance(kws[k], ast.Constant) and kws[k].value is None):
                    d = self.expr(kws[k], env, pre)
                    if not self.nat_ok(d):
                        raise Unsupported("_ssmatrix %s=%s is not a size" % (k, ast.unparse(kws[k])))
                    dims.append("(some %s)" % self.as_nat(d))
                else:
                    dims.append("none")
            return self.bind(pre, "PySfb.ssmatrix %s %s %s %s" % (x.code, sq, dims[0], dims[1]), MAT)
        if f == "np.dot" and len(args) == 2 and not kws:
            self.need("np", IMPORTS["np"])
            a = self.expr(args[0], env, pre)
            b = self.expr(args[1], env, pre)
            if a.ty == MAT and b.ty == MAT:        # np.dot of two 2-D arrays is the matrix product
                return self.bind(pre, "PMat.matmul %s %s" % (a.code, b.code), MAT)
            raise Unsupported("np.dot(%s, %s)" % (a.ty, b.ty))
        if f == "np.size" and len(args) == 1 and not kws:
            self.need("np", IMPORTS["np"])
            a = self.expr(args[0], env, pre)
            if a.ty in (VEC, CVEC):
                return V("%s.length" % a.code, NAT)
            raise Unsupported("np.size(%s)" % a.ty)
        if f == "np.poly" and len(args) == 1 and not kws:
            self.need("np", IMPORTS["np"])
            a = self.expr(args[0], env, pre)
            if a.ty == CVEC:
                return V("(PySfb.poly %s)" % a.code, CVEC)
            raise Unsupported("np.poly(%s)" % a.ty)
        if f == "np.real" and len(args) == 1 and not kws:
            self.need("np", IMPORTS["np"])
            a = self.expr(args[0], env, pre)
            if a.ty == CVEC:
                return V("(PySfb.real re %s)" % a.code, VEC)
            raise Unsupported("np.real(%s)" % a.ty)
        if f == "np.linalg.matrix_power" and len(args) == 2 and not kws:
            self.need("np", IMPORTS["np"])
            a = self.expr(args[0], env, pre)
            i = self.expr(args[1], env, pre)
            if a.ty == MAT and (i.ty in (INT, NAT) or i.lit is not None):
                return self.bind(pre, "PySfb.matrixPower %s %s" % (a.code, self.as_int(i)), MAT)
            raise Unsupported("matrix_power(%s, %s)" % (a.ty, i.ty))
        if isinstance(node.func, ast.Name) and node.func.id in self.available and not kws:
            name = node.func.id
            if name in self.locals:
                raise Unsupported("`%s` is re-bound inside the function" % name)
            if self.bindings.get(name) != ("def",):
                raise Unsupported("`%s` is not the module's function" % name)
            lean, params, ret = self.available[name]
            if len(args) > len(params):
                raise Unsupported("call %s" % ast.unparse(node)[:60])
            out = []
            for (pn, pt), a in zip(params, args):
                v = self.expr(a, env, pre)
                if pt == OPTINT:
                    out.append("(some %s)" % self.as_int(v))
                elif v.ty != pt:
                    raise Unsupported("argument %s of %s is a %s" % (pn, name, v.ty))
                else:
                    out.append(v.code)
            for pn, pt in params[len(args):]:
                if pt != OPTINT:
                    raise Unsupported("missing argument %s of %s" % (pn, name))
                out.append("none")              # the default `None`, checked when the callee was translated
            return self.bind(pre, " ".join([lean] + out), ret)
        return super().call(node, env, pre)

    # -- statements ---------------------------------------------------------------------------
    def let(self, name, v, env, pre):
        if v.ty in (SHAPE, PROP, NONE, TRIPLE):
            raise Unsupported("assignment of a %s" % v.ty)
        self.locals.add(name)
        import re as _re
        if pre and pre[-1].startswith("let %s ← " % v.code) and _re.fullmatch(r"t\d+", v.code):
            last = pre.pop()
            self.ntmp -= 1
            lines = pre + ["let %s ← %s" % (lean_name(name), last[len("let %s ← " % v.code):])]
        else:
            code = v.code
            if v.lit is not None:
                code = "(%d : Int)" % v.lit
            lines = pre + ["let %s : %s := %s" % (lean_name(name), LEAN_TY[v.ty], code)]
        env[name] = V(lean_name(name), v.ty, lit=v.lit)
        return lines

    def ret_lines(self, v, pre):
        if v.ty != self.ret_ty:
            raise Unsupported("returns a %s, expected %s" % (v.ty, self.ret_ty))
        return pre + ["pure %s" % v.code]

    def raise_line(self, s):
        e = s.exc
        if isinstance(e, ast.Call) and isinstance(e.func, ast.Name) and e.args \
                and isinstance(e.args[0], ast.Constant) and isinstance(e.args[0].value, str):
            cls = e.func.id
            if cls in IMPORTS:
                self.need_sfb(cls)
            elif cls in self.bindings or cls in self.locals:
                raise Unsupported("exception class %s is re-bound" % cls)
            return "throw Err.%s" % classify_raise(cls, e.args[0].value)
        raise Unsupported("raise %s" % ast.unparse(s)[:60])

    def range_args(self, it, env, pre):
        f = self.dotted(it.func) if isinstance(it, ast.Call) else None
        if f not in ("range", "np.arange") or it.keywords or not (1 <= len(it.args) <= 2):
            raise Unsupported("loop over %s" % ast.unparse(it)[:60])
        if f == "np.arange":
            self.need("np", IMPORTS["np"])
        elif "range" in self.bindings or "range" in self.locals:
            raise Unsupported("`range` is re-bound")
        vs = [self.expr(a, env, pre) for a in it.args]
        for v in vs:
            if not (v.ty in (INT, NAT) or v.lit is not None):
                raise Unsupported("range bound of type %s" % v.ty)
        if len(vs) == 1:
            return "(0 : Int)", self.as_int(vs[0])
        return self.as_int(vs[0]), self.as_int(vs[1])

    def for_stmt(self, s, env):
        if s.orelse or not isinstance(s.target, ast.Name):
            raise Unsupported("for statement shape")
        pre = []
        lo, hi = self.range_args(s.iter, env, pre)
        k = s.target.id
        carried = [n for n in self.assigned_in_order(s.body) if n in env]
        if not carried or k in carried:
            raise Unsupported("loop without carried state")
        for n in carried:
            if env[n].ty not in LEAN_TY:
                raise Unsupported("loop state %s of type %s" % (n, env[n].ty))
        tys = [LEAN_TY[env[n].ty] for n in carried]
        benv = dict(env)
        benv[k] = V(lean_name(k), INT)
        for n in carried:
            benv[n] = V(lean_name(n), env[n].ty)
        self.locals.add(k)
        body, ended = self.seq(list(s.body), benv, [(n, env[n].ty) for n in carried])
        if ended:
            raise Unsupported("return / raise at the end of a loop body")
        for n in carried:
            if benv[n].ty != env[n].ty:
                raise Unsupported("loop state %s changes its type" % n)
        inits = [env[n].code for n in carried]
        k = lean_name(k)
        if len(carried) == 1:
            n = lean_name(carried[0])
            lines = pre + ["let %s ← List.foldlM (fun (%s : %s) (%s : Int) => ((do" % (n, n, tys[0], k)] \
                + _ind(body[:-1], 4) + ["    %s) : Except Err (%s))) %s (PyArith.range %s %s)" % (body[-1], tys[0], inits[0], lo, hi)]
        else:
            st = self.tmp()
            ty = " × ".join(tys)
            unpack = []
            for i, n in enumerate(carried):
                proj = st + "".join([".2"] * i) + (".1" if i < len(carried) - 1 else "")
                unpack.append("let %s : %s := %s" % (lean_name(n), tys[i], proj))
            res = self.tmp()
            lines = pre + ["let %s ← List.foldlM (fun (%s : %s) (%s : Int) => ((do" % (res, st, ty, k)] \
                + _ind(unpack + body[:-1], 4) \
                + ["    %s) : Except Err (%s))) (%s) (PyArith.range %s %s)" % (body[-1], ty, ", ".join(inits), lo, hi)]
            for i, n in enumerate(carried):
                proj = res + "".join([".2"] * i) + (".1" if i < len(carried) - 1 else "")
                lines.append("let %s : %s := %s" % (lean_name(n), tys[i], proj))
        for n in carried:
            env[n] = V(lean_name(n), env[n].ty)
        env.pop(s.target.id, None)
        return lines

    def assigned_in_order(self, stmts):
        out = []
        for s in stmts:
            for n in ast.walk(s):
                if isinstance(n, ast.Assign):
                    for t in n.targets:
                        for x in ast.walk(t):
                            nm = None
                            if isinstance(x, ast.Name) and isinstance(x.ctx, ast.Store):
                                nm = x.id
                            elif isinstance(x, ast.Subscript) and isinstance(x.value, ast.Name):
                                nm = x.value.id
                            if nm and nm not in out:
                                out.append(nm)
        return out

    def none_or_if(self, s, env):
        """`if x is None or <test>: <body>` (no else) for an optional int `x` assigned in the body"""
        t = s.test
        if not (isinstance(t, ast.BoolOp) and isinstance(t.op, ast.Or) and len(t.values) == 2):
            return None
        first = t.values[0]
        if not (isinstance(first, ast.Compare) and len(first.ops) == 1 and isinstance(first.ops[0], ast.Is)
                and isinstance(first.left, ast.Name) and isinstance(first.comparators[0], ast.Constant)
                and first.comparators[0].value is None):
            return None
        x = first.left.id
        if x not in env or env[x].ty != OPTINT or s.orelse:
            return None
        if self.assigned_in_order(s.body) != [x]:
            raise Unsupported("`if %s is None or ...` must (only) assign %s" % (x, x))
        nenv = dict(env)
        nenv[x] = V(x, NONE)
        nl, n_end = self.seq(list(s.body), nenv, [(x, INT)])
        senv = dict(env)
        senv[x] = V(lean_name(x), INT)
        pre = []
        st, cond = self.test(t.values[1], senv, pre)
        if pre or st is not None:
            raise Unsupported("test %s" % ast.unparse(t.values[1]))
        benv = dict(senv)
        bl, b_end = self.seq(list(s.body), benv, [(x, INT)])
        if n_end or b_end or nenv[x].ty not in (INT, NAT) or benv[x].ty not in (INT, NAT):
            raise Unsupported("`if %s is None or ...` body" % x)
        lx = lean_name(x)
        lines = ["let %s ← ((match %s with" % (lx, env[x].code),
                 "  | none => (do"] + _ind(nl[:-1], 4) + ["    %s)" % nl[-1],
                 "  | some %s => (do" % lx,
                 "    if %s then" % cond] + _ind(bl, 6) + ["    else", "      pure %s)) : Except Err Int)" % lx]
        env[x] = V(lx, INT)
        self.locals.add(x)
        return lines

    def seq(self, stmts, env, tail):
        """statement list -> (lines, ended); `tail`: None = must end in return / raise; a list of
        (name, type) = a branch of a join / a loop body: ends with `pure (vars)`"""
        lines = []
        stmts = [s for s in stmts if not self.is_doc(s) and not isinstance(s, ast.Pass)]
        for idx, s in enumerate(stmts):
            rest = stmts[idx + 1:]
            try:
                got = self.stmt(s, rest, env, tail)
            except _Raises as r:       # the statement raises statically (`args[0]` without arguments)
                return lines + list(r.pre) + ["throw Err.%s" % r.kind], True
            lines += got[0]
            if got[1] is not None:
                return lines, got[1]
        return lines + self.block_end(env, tail)[0], self.block_end(env, tail)[1]

    def stmt(self, s, rest, env, tail):
        """one statement -> (lines, None) to go on, (lines, ended) when the rest of the block has been
        consumed"""
        lines = []
        if True:
            if isinstance(s, ast.Return):
                if s.value is None:
                    raise Unsupported("bare return")
                pre = []
                v = self.expr(s.value, env, pre)
                return lines + self.ret_lines(v, pre), True
            if isinstance(s, ast.Raise):
                return lines + [self.raise_line(s)], True
            if isinstance(s, ast.For):
                return lines + self.for_stmt(s, env), None
            if isinstance(s, ast.Assign) and len(s.targets) == 1:
                t = s.targets[0]
                if isinstance(t, ast.Name):
                    pre = []
                    v = self.expr(s.value, env, pre)
                    return lines + self.let(t.id, v, env, pre), None
                if isinstance(t, ast.Tuple) and all(isinstance(x, ast.Name) for x in t.elts):
                    return lines + self.tuple_assign(t, s.value, env), None
                if isinstance(t, ast.Subscript) and isinstance(t.value, ast.Name):
                    x = self.expr(t.value, env, [])
                    if x.ty != MAT:
                        raise Unsupported("item assignment on %s" % x.ty)
                    rs, cs = self.two_slices(t.slice)
                    pre = []
                    bounds = [self.slice_bound(rs.lower if rs else None, env, pre),
                              self.slice_bound(rs.upper if rs else None, env, pre),
                              self.slice_bound(cs.lower if cs else None, env, pre),
                              self.slice_bound(cs.upper if cs else None, env, pre)]
                    v = self.expr(s.value, env, pre)
                    if v.ty != MAT:
                        raise Unsupported("slice assignment of a %s" % v.ty)
                    lines += pre + ["let %s ← PySfb.setSliceB %s %s %s" % (lean_name(t.value.id), x.code, " ".join(bounds), v.code)]
                    env[t.value.id] = V(lean_name(t.value.id), MAT)
                    self.locals.add(t.value.id)
                    return lines, None
                raise Unsupported("assignment %s" % ast.unparse(s)[:60])
            if isinstance(s, ast.If):
                special = self.none_or_if(s, env)
                if special is not None:
                    return lines + special, None
                cont = self.continuation_if(s, env, rest, tail)
                if cont is not None:
                    return lines + cont, True
                pre = []
                st, cond = self.test(s.test, env, pre)
                if st is True:
                    sub, ended = self.seq(list(s.body) + rest, env, tail)
                    return lines + pre + sub, ended
                if st is False:
                    sub, ended = self.seq(list(s.orelse) + rest, env, tail)
                    return lines + pre + sub, ended
                save, save_locals = self.ntmp, set(self.locals)
                benv, eenv = dict(env), dict(env)
                _, b_end = self.seq(list(s.body), benv, [])
                _, e_end = self.seq(list(s.orelse), eenv, [])
                self.ntmp, self.locals = save, save_locals
                if b_end or e_end:
                    benv, eenv = dict(env), dict(env)
                    bl, b_end = self.seq(list(s.body) + ([] if b_end else rest), benv, tail)
                    el, e_end = self.seq(list(s.orelse) + ([] if e_end else rest), eenv, tail)
                    if not b_end:
                        env.clear(); env.update(benv)
                    elif not e_end:
                        env.clear(); env.update(eenv)
                    return (lines + pre + ["if %s then" % cond] + _ind(bl) + ["else"] + _ind(el)), (b_end and e_end)
                names = [n for n in self.assigned_in_order(list(s.body) + list(s.orelse))]
                live = []
                for nm in names:
                    tb, te = benv.get(nm), eenv.get(nm)
                    if tb is None or te is None:
                        continue
                    if {tb.ty, te.ty} == {MAT, NONE}:
                        live.append((nm, OPTMAT))       # an array or None
                        continue
                    if tb.ty != te.ty:
                        raise Unsupported("`%s` has type %s / %s after the branches" % (nm, tb.ty, te.ty))
                    if tb.ty not in LEAN_TY:
                        raise Unsupported("`%s` of type %s after the branches" % (nm, tb.ty))
                    live.append((nm, tb.ty))
                if not live:
                    raise Unsupported("an if statement without effect")
                benv, eenv = dict(env), dict(env)
                bl, _ = self.seq(list(s.body), benv, live)
                el, _ = self.seq(list(s.orelse), eenv, live)
                tys = [LEAN_TY[t] for _, t in live]
                pat = lean_name(live[0][0]) if len(live) == 1 else "(" + ", ".join(lean_name(nm) for nm, _ in live) + ")"
                ty = tys[0] if len(tys) == 1 else " × ".join(tys)
                lines += pre + ["let %s ← (do" % pat] + _ind(["if %s then" % cond] + _ind(bl) + ["else"] + _ind(el)) \
                    + ["  : Except Err (%s))" % ty]
                for nm, t in live:
                    env[nm] = V(lean_name(nm), t)
                    self.locals.add(nm)
                for nm in names:
                    if nm not in [l for l, _ in live]:
                        env.pop(nm, None)
                return lines, None
            return lines + self.other_stmt(s, env), None

    def continuation_if(self, s, env, rest, tail):
        return None

    def block_end(self, env, tail):
        lines = []
        if tail is None:
            raise Unsupported("a path falls off the end of the function")
        if tail == []:
            return lines, False
        vals = []
        for nm, t in tail:
            if nm in env and t == INT and env[nm].ty == NAT:
                vals.append(self.as_int(env[nm]))       # a size where a Python int is expected
                continue
            if nm in env and t == OPTMAT and env[nm].ty in (MAT, NONE):
                vals.append("(some %s)" % env[nm].code if env[nm].ty == MAT else "none")
                continue
            if nm not in env or env[nm].ty != t:
                raise Unsupported("variable %s undefined / of another type at the end of a block" % nm)
            vals.append(env[nm].code)
        return lines + ["pure %s" % (vals[0] if len(vals) == 1 else "(" + ", ".join(vals) + ")")], False

    def tuple_assign(self, t, value, env):
        raise Unsupported("tuple assignment %s" % ast.unparse(t))

    def other_stmt(self, s, env):
        raise Unsupported("statement %s" % ast.unparse(s)[:60])


class ArgsTranslator(SfbTranslator):
    """`f(*args, **kwargs)` (`lqr dlqr lqe dlqe`).  Dynamic typing is resolved by SPECIALISATION, as in
    py2lean_ss: the body is translated once per kind of `args[0]` (no argument at all, a StateSpace,
    another LTI object, array-like) and once per kind of the keyword `integral_action` (absent, an
    ndarray, something else); `isinstance` is evaluated statically, dead branches are not translated.
    `kwargs.pop(key, None)` reads a field of `PySfb.Kw`; `if kwargs:` is `Kw.rest` with the set of keys
    popped so far; `care(...)` / `dare(...)` are the parameters `care` / `dare` of the generated function
    (`method=` must pass the popped `method` through, the `_Xs=` name keywords are ignored, a sixth
    positional argument must be `None`)."""

    def __init__(self, job, bindings, available, arg0):
        super().__init__(job, bindings, available)
        self.arg0 = arg0            # V for args[0], or None when there is no argument
        self.popped = set()
        self.ret_ty = TRIPLE

    def class_matches(self, ty, node):
        if isinstance(node, ast.Tuple):
            return any(self.class_matches(ty, e) for e in node.elts)
        src = ast.unparse(node)
        if src in ("LTI", "StateSpace"):
            self.need_sfb(src)
            if ty == SS:
                return True
            if ty == LTIOBJ:
                return src == "LTI"
            if ty in (MAT, NOTARR):
                return False
            raise Unsupported("isinstance(%s, %s)" % (ty, src))
        if src == "np.ndarray" and ty == NOTARR:
            self.need("np", IMPORTS["np"])
            return False
        return super().class_matches(ty, node)

    def test(self, node, env, pre):
        if isinstance(node, ast.Name) and node.id in env and env[node.id].ty == KWARGS:
            return None, "(PySfb.Kw.rest kw %s %s = true)" % (
                "true" if "method" in self.popped else "false",
                "true" if "integral_action" in self.popped else "false")
        return super().test(node, env, pre)

    def subscript(self, node, env, pre):
        if isinstance(node.value, ast.Name) and node.value.id in env and env[node.value.id].ty == ARGS:
            i = self.expr(node.slice, env, pre)
            if i.lit is None or i.lit < 0:
                raise Unsupported("args[%s]: not a literal index" % ast.unparse(node.slice))
            if i.lit == 0:
                if self.arg0 is None:
                    raise _Raises("indexRange", pre)
                return self.arg0
            if self.arg0 is None:
                raise _Raises("indexRange", pre)
            return self.bind(pre, "PySfb.argAt args %d" % i.lit, ARG)
        return super().subscript(node, env, pre)

    def attribute(self, node, env, pre):
        v = self.expr(node.value, env, pre)
        if v.ty in (LTIOBJ, ARG, NOTARR):
            raise Unsupported("attribute .%s of %s" % (node.attr, v.ty))
        return super().attribute(node, env, pre)

    def call(self, node, env, pre):
        f = self.dotted(node.func)
        args, kws = node.args, {k.arg: k.value for k in node.keywords}
        if f == "len" and len(args) == 1 and not kws and isinstance(args[0], ast.Name) \
                and args[0].id in env and env[args[0].id].ty == ARGS:
            if "len" in self.bindings or "len" in self.locals:
                raise Unsupported("`len` is re-bound")
            if self.arg0 is None:
                return V("(0 : Int)", INT, lit=0)
            return V("args.length", NAT)
        if f in ("isdtime", "isctime") and len(args) == 1 and set(kws) == {"strict"}:
            self.need_sfb(f)
            if self.const_kw(kws["strict"], (True,)) is not True:
                raise Unsupported("strict")
            x = self.expr(args[0], env, pre)
            if x.ty == SS:
                d = "%s.dt" % x.code
            elif x.ty == LTIOBJ:
                d = x.code
            else:
                raise Unsupported("%s of a %s" % (f, x.ty))
            return V("(DtPred.%s true %s = true)" % (f, d), PROP)
        if f == "np.array" and len(args) == 1 and set(kws) == {"ndmin", "dtype"}:
            self.need("np", IMPORTS["np"])
            if self.const_kw(kws["ndmin"], (2,)) != 2 or ast.unparse(kws["dtype"]) != "float":
                raise Unsupported("np.array keywords")
            x = self.expr(args[0], env, pre)
            if x.ty == MAT:
                return x                    # a (copy of a) 2-D float array
            if x.ty == ARG:
                return self.bind(pre, "PySfb.Arg.toArray %s" % x.code, MAT)
            if x.ty in (SS, LTIOBJ):       # an LTI object is not array-like
                return self.bind(pre, "(throw Err.badArg : Except Err (PMat K))", MAT)
            raise Unsupported("np.array(%s)" % x.ty)
        if isinstance(node.func, ast.Attribute) and node.func.attr == "pop" and isinstance(node.func.value, ast.Name) \
                and node.func.value.id in env and env[node.func.value.id].ty == KWARGS and len(args) == 2 and not kws:
            key = args[0].value if isinstance(args[0], ast.Constant) else None
            if not (isinstance(args[1], ast.Constant) and args[1].value is None) or key in self.popped:
                raise Unsupported("kwargs.pop(%s)" % ast.unparse(node)[:50])
            if key == "method":
                self.popped.add(key)
                return V("()", METHOD)
            if key == "integral_action":
                self.popped.add(key)
                return V("kw.integralAction", OPTKW)
            raise Unsupported("kwargs.pop(%r)" % key)
        if f == "np.vstack" and len(args) == 1 and isinstance(args[0], ast.List) and not kws:
            self.need("np", IMPORTS["np"])
            parts = [self.expr(e, env, pre) for e in args[0].elts]
            if len(parts) < 2 or any(p.ty != MAT for p in parts):
                raise Unsupported("np.vstack of %s" % [p.ty for p in parts])
            acc = parts[-1]
            for p in reversed(parts[:-1]):
                acc = self.bind(pre, "PMat.vcat %s %s" % (p.code, acc.code), MAT)
            return acc
        if f in ("care", "dare") and not (f in self.locals):
            self.need_sfb(f)
            if len(args) not in (4, 5, 6):
                raise Unsupported("%s with %d positional arguments" % (f, len(args)))
            if len(args) == 6 and not (isinstance(args[5], ast.Constant) and args[5].value is None):
                raise Unsupported("%s: E must be None" % f)
            for k, val in kws.items():
                if k == "method":
                    m = self.expr(val, env, pre)
                    if m.ty != METHOD:
                        raise Unsupported("method= must pass the `method` keyword through")
                elif k in ("_As", "_Bs", "_Qs", "_Rs", "_Ss", "_Es"):
                    if not (isinstance(val, ast.Constant) and isinstance(val.value, str)):
                        raise Unsupported("%s=%s" % (k, ast.unparse(val)))
                else:
                    raise Unsupported("%s keyword %s" % (f, k))
            vs = [self.expr(a, env, pre) for a in args[:4]]
            if any(v.ty != MAT for v in vs):
                raise Unsupported("%s(%s)" % (f, ", ".join(v.ty for v in vs)))
            s_arg = "none"
            if len(args) >= 5:
                sv = self.expr(args[4], env, pre)
                if sv.ty == MAT:
                    s_arg = "(some %s)" % sv.code
                elif sv.ty == OPTMAT:
                    s_arg = sv.code
                elif sv.ty == NONE:
                    s_arg = "none"
                else:
                    raise Unsupported("%s: S of type %s" % (f, sv.ty))
            return self.bind(pre, "%s %s %s" % (f, " ".join(v.code for v in vs), s_arg), RICRES)
        if isinstance(node.func, ast.Name) and node.func.id in self.available and len(args) == 1 \
                and isinstance(args[0], ast.Starred) and ast.unparse(args[0].value) == "args" \
                and len(node.keywords) == 1 and node.keywords[0].arg is None \
                and ast.unparse(node.keywords[0].value) == "kwargs":
            name = node.func.id
            if name in self.locals or self.bindings.get(name) != ("def",):
                raise Unsupported("`%s` is not the module's function" % name)
            if self.popped:
                raise Unsupported("%s(*args, **kwargs) after kwargs.pop" % name)
            lean, params, ret = self.available[name]
            if params != "args":
                raise Unsupported("%s is not an *args function" % name)
            return self.bind(pre, "%s care dare args kw" % lean, TRIPLE)
        return super().call(node, env, pre)

    def expr(self, node, env, pre):
        if isinstance(node, ast.Constant) and node.value is None:
            return V("none", NONE)
        if isinstance(node, ast.Tuple) and isinstance(node.ctx, ast.Load) and len(node.elts) == 3:
            vs = [self.expr(e, env, pre) for e in node.elts]
            if [v.ty for v in vs] == [MAT, MAT, EIG]:
                return V("(%s, %s, %s)" % tuple(v.code for v in vs), TRIPLE)
        return super().expr(node, env, pre)

    def let(self, name, v, env, pre):
        if v.ty == METHOD:
            self.locals.add(name)
            env[name] = V("()", METHOD)
            return pre
        if v.ty == NONE:
            self.locals.add(name)
            env[name] = V("none", NONE)
            return pre
        return super().let(name, v, env, pre)

    def ret_lines(self, v, pre):
        if v.ty != TRIPLE:
            raise Unsupported("returns a %s" % v.ty)
        if pre and pre[-1].startswith("let %s ← " % v.code):
            last = pre.pop()
            return pre + [last[len("let %s ← " % v.code):]]
        return pre + ["pure %s" % v.code]

    def tuple_assign(self, t, value, env):
        pre = []
        v = self.expr(value, env, pre)
        if v.ty != RICRES or len(t.elts) != 3:
            raise Unsupported("tuple assignment from %s" % v.ty)
        names = [x.id for x in t.elts]
        lines = list(pre)
        for nm, proj, ty in zip(names, (".1", ".2.1", ".2.2"), (MAT, EIG, MAT)):
            lines.append("let %s : %s := %s%s" % (lean_name(nm), LEAN_TY[ty], v.code, proj))
            env[nm] = V(lean_name(nm), ty)
            self.locals.add(nm)
        return lines

    def other_stmt(self, s, env):
        if isinstance(s, ast.Expr) and isinstance(s.value, ast.Call) and self.dotted(s.value.func) == "_check_shape":
            c = s.value
            self.need_sfb("_check_shape")
            kws = {k.arg: k.value for k in c.keywords}
            if len(c.args) != 3 or set(kws) - {"name"}:
                raise Unsupported("_check_shape call %s" % ast.unparse(c)[:60])
            pre = []
            m = self.expr(c.args[0], env, pre)
            a = self.expr(c.args[1], env, pre)
            b = self.expr(c.args[2], env, pre)
            if m.ty != MAT or not self.nat_ok(a) or not self.nat_ok(b):
                raise Unsupported("_check_shape(%s, %s, %s)" % (m.ty, a.ty, b.ty))
            return pre + ["PySfb.checkShape %s %s %s" % (m.code, self.as_nat(a), self.as_nat(b))]
        return super().other_stmt(s, env)

    def optkw_if(self, s, env, rest, tail):
        """`if x is not None: <body>` for the keyword value `x` (`integral_action`): one arm per kind"""
        t = s.test
        if not (isinstance(t, ast.Compare) and len(t.ops) == 1 and isinstance(t.ops[0], ast.IsNot)
                and isinstance(t.left, ast.Name) and isinstance(t.comparators[0], ast.Constant)
                and t.comparators[0].value is None):
            return None
        x = t.left.id
        if x not in env or env[x].ty != OPTKW:
            return None
        arms = []
        save = (self.ntmp, set(self.locals), set(self.popped))
        for pat, val in (("none", None), ("some (.arr %s)" % lean_name(x), V(lean_name(x), MAT)),
                         ("some .notArray", V("()", NOTARR))):
            self.ntmp, self.locals, self.popped = save[0], set(save[1]), set(save[2])
            aenv = dict(env)
            if val is None:
                aenv[x] = V("none", NONE)
                body = list(s.orelse) + rest
            else:
                aenv[x] = val
                body = list(s.body) + rest
            al, a_end = self.seq(body, aenv, tail)
            if not a_end:
                raise Unsupported("`if %s is not None` must be followed by the end of the function" % x)
            arms.append("| %s => (do" % pat)
            arms += _ind(al[:-1], 4) + ["    %s)" % al[-1]]
        return ["match %s with" % env[x].code] + arms

    def continuation_if(self, s, env, rest, tail):
        return self.optkw_if(s, env, rest, tail)


# -------------------------------------------------------------------------------------------------
# jobs
# -------------------------------------------------------------------------------------------------
JOBS = [
    dict(func="ctrb", lean="sfCtrb", rel="control/statefbk.py", params=[("A", MAT), ("B", MAT), ("t", OPTINT)],
         defaults={"t": "None"}, ret=MAT, out="SfbGram.lean"),
    dict(func="obsv", lean="sfObsv", rel="control/statefbk.py", params=[("A", MAT), ("C", MAT), ("t", OPTINT)],
         defaults={"t": "None"}, ret=MAT, out="SfbGram.lean"),
    dict(func="place_acker", lean="sfPlaceAcker", rel="control/statefbk.py",
         params=[("A", MAT), ("B", MAT), ("poles", CVEC)], defaults={}, ret=VEC, out="SfbAcker.lean",
         extra_sig="{L : Type} [Field L] (re : L → K) ", alias="acker", alias_lean="sfAcker"),
]
JOBS += [
    dict(func="dlqr", lean="sfDlqr", rel="control/statefbk.py", params="args", out="SfbLqr.lean"),
    dict(func="lqr", lean="sfLqr", rel="control/statefbk.py", params="args", out="SfbLqr.lean"),
    dict(func="dlqe", lean="sfDlqe", rel="control/stochsys.py", params="args", out="SfbLqe.lean"),
    dict(func="lqe", lean="sfLqe", rel="control/stochsys.py", params="args", out="SfbLqe.lean"),
]
FILES = [("SfbGram.lean", []), ("SfbAcker.lean", ["SfbGram"]), ("SfbLqr.lean", []), ("SfbLqe.lean", [])]
ARGS_SIG = "{ε : Type} (care dare : PySfb.RicFn K ε) (args : List (PySfb.Arg K)) (kw : PySfb.Kw K)"
ARGS_RET = "PMat K × PMat K × ε"
RET_TY = {MAT: "PMat K", VEC: "List K"}


def find_function(module, func):
    found = [n for n in module.body if isinstance(n, ast.FunctionDef) and n.name == func]
    if len(found) == 1:
        return found[0]
    raise Unsupported("function %s %s" % (func, "not found" if not found else "defined twice"))


def signature(job, blind=False):
    ps = " ".join("(%s%s : %s)" % ("_" if blind else "", n, LEAN_TY[t]) for n, t in job["params"])
    return job.get("extra_sig", "") + ps


def check_alias(module, job):
    """`acker = place_acker` at module level"""
    hits = [n for n in module.body if isinstance(n, ast.Assign) and len(n.targets) == 1
            and isinstance(n.targets[0], ast.Name) and n.targets[0].id == job["alias"]]
    defs = [n for n in module.body if isinstance(n, (ast.FunctionDef, ast.ClassDef)) and n.name == job["alias"]]
    if len(hits) != 1 or defs or not (isinstance(hits[0].value, ast.Name) and hits[0].value.id == job["func"]):
        raise Unsupported("`%s = %s` not found at module level (or %s is bound otherwise)"
                          % (job["alias"], job["func"], job["alias"]))


def translate(src, module, bindings, job, available):
    fn = find_function(module, job["func"])
    a = fn.args
    if a.vararg or a.kwarg or a.kwonlyargs or a.posonlyargs:
        raise Unsupported("signature")
    got = [x.arg for x in a.args]
    want = [n for n, _ in job["params"]]
    if got != want:
        raise Unsupported("parameters %s, expected %s" % (got, want))
    defaults = dict(zip(got[len(got) - len(a.defaults):], [ast.unparse(d) for d in a.defaults]))
    if defaults != job["defaults"]:
        raise Unsupported("default values %s, expected %s" % (defaults, job["defaults"]))
    text = ast.get_source_segment(src, fn)
    sha = hashlib.sha256(text.encode()).hexdigest()
    tr = SfbTranslator(job, bindings, available)
    for n, _ in job["params"]:
        if n in RESERVED:
            raise Unsupported("parameter named %s" % n)
    env = {n: V(n, t) for n, t in job["params"]}
    lines, _ = tr.seq(fn.body, env, None)
    where = job["rel"] + ":" + job["func"]
    doc = ("/-- `%s` as the source text says it (sha256 of the function text\n%s).\nDefaults: %s.%s -/\n" % (
        where, sha, ", ".join("%s=%s" % kv for kv in sorted(defaults.items())) or "none",
        "".join("\n  note: " + n.replace("-/", "- /") for n in tr.notes)))
    lean = doc + "def %s %s : Except Err (%s) :=\n  do\n" % (job["lean"], signature(job), RET_TY[job["ret"]]) \
        + "\n".join(_ind(lines, 4)) + "\n"
    return lean, {"sha": sha, "lines": fn.end_lineno - fn.lineno + 1, "temporaries": tr.ntmp, "notes": tr.notes}


def translate_args(src, module, bindings, job, available):
    """a `f(*args, **kwargs)` function: one arm per kind of `args[0]`"""
    fn = find_function(module, job["func"])
    a = fn.args
    if a.args or a.kwonlyargs or a.posonlyargs or a.defaults or not a.vararg or not a.kwarg \
            or a.vararg.arg != "args" or a.kwarg.arg != "kwargs":
        raise Unsupported("signature, expected (*args, **kwargs)")
    text = ast.get_source_segment(src, fn)
    sha = hashlib.sha256(text.encode()).hexdigest()
    notes, ntmp = [], 0
    body = ["match args with"]
    for pat, arg0 in (("[]", None), ("(.ss a0) :: _", V("a0", SS)), ("(.lti a0) :: _", V("a0", LTIOBJ)),
                      ("(.arr a0) :: _", V("a0", MAT))):
        tr = ArgsTranslator(job, bindings, available, arg0)
        env = {"args": V("args", ARGS), "kwargs": V("kw", KWARGS)}
        lines, _ = tr.seq(fn.body, env, None)
        body += ["| %s => (do" % pat] + _ind(lines[:-1], 4) + ["    %s)" % lines[-1]]
        ntmp = max(ntmp, tr.ntmp)
        notes += [n for n in tr.notes if n not in notes]
    where = job["rel"] + ":" + job["func"]
    doc = ("/-- `%s` as the source text says it (sha256 of the function text\n%s).\n"
           "One arm per kind of `args[0]` (none, StateSpace, other LTI, array-like) and of `integral_action`.%s -/\n" % (
               where, sha, "".join("\n  note: " + n.replace("-/", "- /") for n in notes)))
    lean = doc + "def %s %s : Except Err (%s) :=\n" % (job["lean"], ARGS_SIG, ARGS_RET) + "\n".join(_ind(body, 2)) + "\n"
    return lean, {"sha": sha, "lines": fn.end_lineno - fn.lineno + 1, "temporaries": ntmp, "notes": notes}


def failed_def(job, where, msg):
    if job["params"] == "args":
        return "/-- translation of `%s` FAILED: %s -/\ndef %s %s : Except Err (%s) :=\n  .error Err.notImplemented\n" % (
            where, msg, job["lean"], ARGS_SIG.replace("(care dare :", "(_care _dare :").replace("(args :", "(_args :")
            .replace("(kw :", "(_kw :"), ARGS_RET)
    return "/-- translation of `%s` FAILED: %s -/\ndef %s %s : Except Err (%s) :=\n  .error Err.notImplemented\n" % (
        where, msg, job["lean"], signature(job, blind=True).replace("(re :", "(_re :"), RET_TY[job["ret"]])


def regenerate(repo, lean_dir, only=None):
    """Rewrite Generated/Sfb*.lean; returns (list of problems, info dict).  The files are deterministic
    functions of the source text (no timestamps) and rewritten only when changed."""
    problems, info = [], {}
    gen_dir = os.path.join(lean_dir, "CtrlVerif", "Generated")
    os.makedirs(gen_dir, exist_ok=True)
    loaded = {}
    for rel in sorted({j["rel"] for j in JOBS}):
        try:
            src = open(os.path.join(repo, rel)).read()
            module = ast.parse(src)
            loaded[rel] = (src, module, module_bindings(module), None)
        except (OSError, SyntaxError) as e:
            loaded[rel] = (None, None, None, str(e))
    available = {}
    texts = {out: [] for out, _ in FILES}
    for job in JOBS:
        where = job["rel"] + ":" + job["func"]
        src, module, bindings, load_error = loaded[job["rel"]]
        try:
            if load_error:
                raise Unsupported(load_error)
            lean, inf = (translate_args if job["params"] == "args" else translate)(src, module, bindings, job, available)
            info[job["func"]] = inf
        except Unsupported as e:
            msg = str(e).replace("\n", " ").replace("-/", "- /")[:300]
            problems.append("py2lean_sfb: %s cannot be translated: %s" % (where, msg))
            lean = failed_def(job, where, msg)
        available[job["func"]] = (job["lean"], job["params"], job.get("ret", TRIPLE))
        texts[job["out"]].append(lean)
        if job.get("alias"):
            try:
                if load_error:
                    raise Unsupported(load_error)
                check_alias(module, job)
                texts[job["out"]].append(
                    "/-- `%s = %s` (module level of %s). -/\ndef %s %s : Except Err (%s) :=\n  %s %s\n" % (
                        job["alias"], job["func"], job["rel"], job["alias_lean"], signature(job), RET_TY[job["ret"]],
                        job["lean"], " ".join(["re"] * ("(re :" in job.get("extra_sig", "")) + [n for n, _ in job["params"]])))
            except Unsupported as e:
                msg = str(e).replace("\n", " ").replace("-/", "- /")[:300]
                problems.append("py2lean_sfb: %s: %s" % (job["rel"] + ":" + job["alias"], msg))
                texts[job["out"]].append(failed_def(dict(job, lean=job["alias_lean"]), job["rel"] + ":" + job["alias"], msg))
    for out, deps in FILES:
        if only and out not in only:
            continue
        jobs = [j for j in JOBS if j["out"] == out]
        shas = ", ".join("%s %s" % (j["func"], info[j["func"]]["sha"][:16] if j["func"] in info else "FAILED") for j in jobs)
        rels = ", ".join(sorted({j["rel"] for j in jobs}))
        text = ("-- GENERATED on every run by harness/core/py2lean_sfb.py from %s (%s).  Do not edit.\n" % (rels, shas)
                + "import CtrlVerif.Model.PySfb\n"
                + "".join("import CtrlVerif.Generated.%s\n" % d for d in deps)
                + "\nnamespace CtrlVerif.Generated\n\nopen CtrlVerif\n\nnoncomputable section\n\n"
                + "variable {K : Type} [Field K] [DecidableEq K]\n\n"
                + "\n".join(texts[out]) + "\nend\n\nend CtrlVerif.Generated\n")
        p = os.path.join(gen_dir, out)
        old = open(p).read() if os.path.exists(p) else None
        if old != text:
            with open(p, "w") as f:
                f.write(text)
    return problems, info


if __name__ == "__main__":
    import sys
    probs, inf = regenerate(sys.argv[1], sys.argv[2])
    for p in probs:
        print("PROBLEM", p)
    for k, v in inf.items():
        print(k, v["sha"][:16], v["lines"], "lines,", v["temporaries"], "temporaries", v["notes"])
