"""Translator Python `ast` -> Lean 4 for `control/statesp.py:_ssmatrix` (DESIGN §10.3).

Rewrites `lean/CtrlVerif/Generated/SsMatrix.lean` from the function's source text on every run of
the C11 check; `Props/C11GenSsMat.lean` proves the generated function equal to the specification
`ssmatrixSpec` (2-D shape rules, the `square` / `rows` / `cols` checks, reshape as floats).

Supported subset (anything else raises `Unsupported`):
  * `name = … if name is None else …` (message text only: `name` must occur nowhere but in messages);
  * `x = np.array(data, dtype=float)`, `x = a.ndim`, `x = a.shape`;
  * one `if / elif` chain whose branches are `raise ValueError(...)` or re-bind `shape` to a tuple
    (entries: integers, `shape[k]`) or to `t1 if axis == k else t2`;
  * guards `if A and B: raise ControlDimension(...)` with `A` a flag name or `x is not None`, `B` a
    `!=` between `shape[k]` and `shape[j]` or a parameter (Python's short circuit is kept: `B` is
    evaluated only when `A` holds);
  * `return arr.reshape(shape)`.
`ValueError` maps to `Err.badArg`, `ControlDimension` to `Err.shape`."""
import ast
import hashlib
import os

REL = "control/statesp.py"
FUNC = "_ssmatrix"
OUT = "SsMatrix.lean"


class Unsupported(Exception):
    pass


def _u(node, what="construct"):
    raise Unsupported("%s: %s" % (what, ast.dump(node)[:140] if isinstance(node, ast.AST) else node))


def _strip(stmts):
    return [s for s in stmts if not (isinstance(s, ast.Expr) and isinstance(s.value, ast.Constant)
                                     and isinstance(s.value.value, str))]


class Tmp:
    def __init__(self):
        self.n = 0
        self.pre = []

    def item(self, base, k):
        self.n += 1
        t = "t%d" % self.n
        self.pre.append("let %s ← PySS.item %s %d" % (t, base, k))
        return t


def is_item(n):
    return isinstance(n, ast.Subscript) and isinstance(n.value, ast.Name) and isinstance(n.slice, ast.Constant) \
        and type(n.slice.value) is int and n.slice.value >= 0


def tup(n, tmp):
    if not isinstance(n, ast.Tuple):
        _u(n, "tuple")
    out = []
    for e in n.elts:
        if isinstance(e, ast.Constant) and type(e.value) is int:
            out.append(str(e.value))
        elif is_item(e):
            out.append(tmp.item(e.value.id, e.slice.value))
        else:
            _u(e, "tuple entry")
    return "[%s]" % ", ".join(out)


def cond(n):
    """pure Boolean condition of the shape chain"""
    if isinstance(n, ast.BoolOp):
        op = " && " if isinstance(n.op, ast.And) else " || "
        return "(" + op.join(cond(v) for v in n.values) + ")"
    if isinstance(n, ast.Compare) and len(n.ops) == 1 and isinstance(n.left, ast.Name):
        op, r = n.ops[0], n.comparators[0]
        sym = {ast.Eq: "==", ast.Gt: ">"}.get(type(op))
        if sym is None:
            _u(n, "comparison")
        if isinstance(r, ast.Constant) and type(r.value) is int:
            return "%s %s %d" % (n.left.id, sym, r.value)
        if isinstance(r, ast.Tuple) and sym == "==" and all(isinstance(e, ast.Constant) and type(e.value) is int
                                                            for e in r.elts):
            return "%s == [%s]" % (n.left.id, ", ".join(str(e.value) for e in r.elts))
    _u(n, "condition")


def strip_outer(s):
    return s[1:-1] if s.startswith("(") and s.endswith(")") and s.count("(") == 1 else s


def chain(node, var):
    """if/elif chain re-binding `var` -> list of (condition text, lines of the branch)"""
    out = []
    while True:
        body = _strip(node.body)
        c = strip_outer(cond(node.test)) if not isinstance(node.test, ast.BoolOp) else cond(node.test)[1:-1]
        if len(body) == 1 and isinstance(body[0], ast.Raise):
            e = body[0].exc
            if not (isinstance(e, ast.Call) and isinstance(e.func, ast.Name) and e.func.id == "ValueError"):
                _u(body[0], "raise in the shape chain")
            out.append((c, [".error Err.badArg"]))
        elif len(body) == 1 and isinstance(body[0], ast.Assign) and len(body[0].targets) == 1 \
                and isinstance(body[0].targets[0], ast.Name) and body[0].targets[0].id == var:
            v = body[0].value
            tmp = Tmp()
            if isinstance(v, ast.IfExp):
                t = v.test
                if not (isinstance(t, ast.Compare) and len(t.ops) == 1 and isinstance(t.ops[0], ast.Eq)
                        and isinstance(t.left, ast.Name) and isinstance(t.comparators[0], ast.Constant)
                        and type(t.comparators[0].value) is int):
                    _u(t, "conditional expression test")
                a, b = tup(v.body, tmp), tup(v.orelse, tmp)
                text = "pure (if %s == %d then %s else %s)" % (t.left.id, t.comparators[0].value, a, b)
            else:
                text = "pure %s" % tup(v, tmp)
            out.append((c, (["do"] + list(tmp.pre) + [text]) if tmp.pre else [text]))
        else:
            _u(node, "branch of the shape chain")
        if len(node.orelse) == 1 and isinstance(node.orelse[0], ast.If):
            node = node.orelse[0]
            continue
        if node.orelse:
            _u(node, "else branch of the shape chain")
        return out


def guard(node, k):
    """if A and B: raise ControlDimension -> lines computing c<k>"""
    t = node.test
    body = _strip(node.body)
    if not (isinstance(t, ast.BoolOp) and isinstance(t.op, ast.And) and len(t.values) == 2 and not node.orelse
            and len(body) == 1 and isinstance(body[0], ast.Raise) and isinstance(body[0].exc, ast.Call)
            and isinstance(body[0].exc.func, ast.Name) and body[0].exc.func.id == "ControlDimension"):
        _u(node, "guard")
    a, b = t.values
    if isinstance(a, ast.Name):
        ca = "PySS.truthy %s" % a.id
    elif isinstance(a, ast.Compare) and len(a.ops) == 1 and isinstance(a.ops[0], ast.IsNot) \
            and isinstance(a.left, ast.Name) and isinstance(a.comparators[0], ast.Constant) \
            and a.comparators[0].value is None:
        ca = "%s.isSome" % a.left.id
    else:
        _u(a, "first conjunct")
    if not (isinstance(b, ast.Compare) and len(b.ops) == 1 and isinstance(b.ops[0], ast.NotEq) and is_item(b.left)):
        _u(b, "second conjunct")
    tmp = Tmp()
    l = tmp.item(b.left.value.id, b.left.slice.value)
    r = b.comparators[0]
    if is_item(r):
        cmp_ = "%s != %s" % (l, tmp.item(r.value.id, r.slice.value))
    elif isinstance(r, ast.Name):
        cmp_ = "some %s != %s" % (l, r.id)
    else:
        _u(r, "right-hand side of !=")
    return (["let c%d ← (if %s then do" % (k, ca)] + ["    " + p for p in tmp.pre]
            + ["    pure (%s)" % cmp_, "  else pure false)"])


def translate(src):
    module = ast.parse(src)
    fn = next((n for n in module.body if isinstance(n, ast.FunctionDef) and n.name == FUNC), None)
    if fn is None:
        raise Unsupported("function %s not found" % FUNC)
    text = ast.get_source_segment(src, fn)
    if [a.arg for a in fn.args.args] != ["data", "axis", "square", "rows", "cols", "name"]:
        raise Unsupported("parameters %s" % [a.arg for a in fn.args.args])
    if [ast.unparse(d) for d in fn.args.defaults] != ["1", "None", "None", "None", "None"]:
        raise Unsupported("defaults")
    body = _strip(fn.body)
    # `name` is message text only
    s0 = body[0]
    if not (isinstance(s0, ast.Assign) and ast.unparse(s0.targets[0]) == "name" and isinstance(s0.value, ast.IfExp)):
        _u(s0, "name statement")
    for s in body[1:]:
        for n in ast.walk(s):
            if isinstance(n, ast.Name) and n.id == "name":
                par = [p for p in ast.walk(s) if isinstance(p, ast.JoinedStr) and any(q is n for q in ast.walk(p))]
                if not par:
                    raise Unsupported("`name` used outside a message")
    lines = []
    pad = "  "
    i = 1
    simple = {"np.array(data, dtype=float)": "PySS.arrayFloat data"}
    while i < len(body) and isinstance(body[i], ast.Assign):
        s = body[i]
        tgt, val = ast.unparse(s.targets[0]), ast.unparse(s.value)
        if val in simple:
            lines.append(pad + "let %s := %s" % (tgt, simple[val]))
        elif isinstance(s.value, ast.Attribute) and isinstance(s.value.value, ast.Name) and s.value.attr == "ndim":
            lines.append(pad + "let %s := PyCCA.ndim %s" % (tgt, s.value.value.id))
        elif isinstance(s.value, ast.Attribute) and isinstance(s.value.value, ast.Name) and s.value.attr == "shape":
            lines.append(pad + "let %s := %s.shape" % (tgt, s.value.value.id))
        else:
            _u(s, "assignment")
        i += 1
    if not isinstance(body[i], ast.If):
        _u(body[i], "expected the shape chain")
    br = chain(body[i], "shape")
    first = True
    for c, bl in br:
        lines.append(pad + ("let shape ← (if %s then" % c if first else "  else if %s then%s" % (c, " do" if bl[0] == "do" else "")))
        first = False
        lines += [pad + "    " + x for x in (bl[1:] if bl[0] == "do" else bl)]
    lines += [pad + "  else", pad + "    pure shape)"]
    i += 1
    k = 0
    closes = 0
    while i < len(body) and isinstance(body[i], ast.If):
        k += 1
        lines += [pad + x for x in guard(body[i], k)]
        lines += [pad + "if c%d then" % k, pad + "  .error Err.shape", pad + "else do"]
        pad += "  "
        i += 1
    if not (i == len(body) - 1 and isinstance(body[i], ast.Return)
            and ast.unparse(body[i].value) == "arr.reshape(shape)"):
        _u(body[i], "return statement")
    lines.append(pad + "PyCCA.reshape arr shape")
    sha = hashlib.sha256(text.encode()).hexdigest()
    return lines, sha


def regenerate(repo, lean_dir):
    problems, info = [], {}
    gen_dir = os.path.join(lean_dir, "CtrlVerif", "Generated")
    sig = ("def ssmatrix (data : PyCCA.Arr α) (axis : Int) (square : Option Bool) (rows : Option Nat) (cols : Option Nat) :\n"
           "    Except Err (PyCCA.Arr α) :=")
    try:
        src = open(os.path.join(repo, REL)).read()
        lines, sha = translate(src)
        info[FUNC] = {"sha": sha, "lines": len(lines)}
        head = "%s %s" % (FUNC, sha[:16])
        body = sig + " do\n" + "\n".join(lines) + "\n"
    except (OSError, SyntaxError, Unsupported, AttributeError, IndexError) as e:
        msg = str(e).replace("\n", " ").replace("-/", "- /")[:300]
        problems.append("py2lean_ssmat: %s:%s cannot be translated: %s" % (REL, FUNC, msg))
        head = "%s FAILED" % FUNC
        body = "/-- translation FAILED: %s -/\n" % msg + sig.replace("data", "_data").replace("(axis", "(_axis") \
            .replace("(square", "(_square").replace("(rows", "(_rows").replace("(cols", "(_cols") + "\n  .error Err.notImplemented\n"
    text_out = ("-- GENERATED on every run by harness/core/py2lean_ssmat.py from %s (%s).  Do not edit.\n" % (REL, head)
                + "import CtrlVerif.Model.PySS\n\nnamespace CtrlVerif.Generated.SsMat\n\nopen CtrlVerif\n\n"
                + "variable {α : Type}\n\n" + body + "\nend CtrlVerif.Generated.SsMat\n")
    p = os.path.join(gen_dir, OUT)
    old = open(p).read() if os.path.exists(p) else None
    if old != text_out:
        with open(p, "w") as f:
            f.write(text_out)
    return problems, info


if __name__ == "__main__":
    import sys
    probs, inf = regenerate(sys.argv[1], sys.argv[2])
    for p in probs:
        print("PROBLEM", p)
    print(inf)
