"""Translator Python `ast` -> Lean 4 for the CONVERSION functions between the LTI representations
(property C03; DESIGN §10.3, notes/NOTES-py2lean-convert.md):

  control/statesp.py   _convert_to_statespace(sys, use_prefix_suffix=False, method=None), ssdata(sys)
  control/xferfcn.py   _convert_to_transfer_function(sys, inputs=1, outputs=1, use_prefix_suffix=False),
                       tfdata(sys)
  (not yet: the factory functions ss / tf / frd / tf2ss / ss2tf / zpk, which dispatch over *args / **kwargs)

It regenerates `lean/CtrlVerif/Generated/Conv*.lean` from the source text of the tree the check runs against
on every run of the C03 check (`Family.pre_build`, `VERIF_REPO` honoured); `Props/C03Gen*.lean` prove the
hand-written model (`Model/Convert.lean`: `toSS`, `toTF`, the name rules `Meta.converted`) EQUAL to the
generated functions, so a semantic edit of a function breaks a proof obligation, and an edit that leaves the
supported subset makes the translation fail (the emitted definition is then `.error Err.notImplemented`, which
cannot equal the model).

Value model (meaning of every primitive fixed in `lean/CtrlVerif/Model/PyConv.lean`, hand-written, trusted):
  argument of unknown class -> `PyConv.Opd K` (ss | tf | frd | scalar | array | foreign); StateSpace /
  TransferFunction object -> `PyConv.SSObj K` / `PyConv.TFObj K` (system + names); sizes and loop indices ->
  `Nat`; float -> `K` (exact field arithmetic); coefficient array -> `List K`; nested lists -> `List (List …)`;
  2-D numeric array -> `PMat K`; `np.empty` array -> `PyConv.EArr K` (entries uninitialised until assigned);
  bool -> `Bool`; `method` -> `Option String`; timebase -> `Dt`.  The body becomes one term of `Except Err T`.
  `scipy.signal.tf2ss`, `scipy.signal.ss2tf`, `scipy.signal.zpk2tf` are PARAMETERS of the generated functions.
  Slycot is absent: `slycot_check()` is `False`; `from slycot import …` raises (`PyConv.importSlycot`), the
  statements after it in the same block are unreachable and dropped; a `try:` whose first statement is such an
  import and whose handler is `except ImportError:` is its handler body.

Supported subset (anything else raises `Unsupported`)
  statements  docstring, `import itertools`, `from .xferfcn import TransferFunction`, `from .statesp import
              StateSpace`, `x = e`, `a, b, c, d = e`, `D[i, j] = e` (np.empty array), `xs[i][j] = e` (nested list),
              `if / elif / else`, `raise E(...)`, `return e`, `return e1, e2, …`,
              `for i in range(n)`, `for i, j in itertools.product(range(a), range(b))` (-> `List.foldlM` with the
              re-assigned variables as state; no return / break inside), `new._copy_names(sys, prefix_suffix_name=t)`,
              `try: <body ending in return> except Exception: raise E(...)` as the last statement
  tests       `isinstance(x, C)` on an argument of unknown class (-> `match` on the operand kind; in each arm the
              variable has the narrowed type and later `isinstance` tests of it are decided statically),
              `x is None`, `x == 'lit'`, `x in [None, 'lit']`, `a == b` / `a > b` on sizes, `>` on (nested) lists
              of sizes, `not / and / or`, `any(b)`, `slycot_check()`, `issiso(sys)`, a bool variable
  expressions names, int / float / str literals, list literals, list comprehensions and generator expressions with
              one `for`, `len`, `max`, `range`, `x[k]`, `a[i, j]`, `/` on floats, the attributes `.num .den
              .num_array .den_array .noutputs .ninputs .nstates .dt .A .B .C .D .shape`, `t if c else None`, and the
              FIXED primitives (the module-level binding of each name is checked): `empty`, `squeeze`, `any`
              (numpy), `np.atleast_2d`, `array(x, ndmin=2)`, `_ssmatrix`, `StateSpace(...)`, `TransferFunction(...)`,
              `sp.signal.tf2ss`, `sp.signal.ss2tf`, `zpk2tf`, `slycot_check`, `issiso`, calls of other translated
              functions of the same run.
Parameter lists and defaults are compared with the ones the job expects.  The sha256 of the function text is in
the generated file.  Output is deterministic and rewritten only when changed.
"""
import ast
import hashlib
import os

from core.py2lean import Unsupported

NAT, KK, BOOL, DT, STR, OPTSTR, OPD, SSOBJ, TFOBJ, PMAT, EARR, UNIT = (
    "NAT", "K", "BOOL", "DT", "STR", "OPTSTR", "OPD", "SSOBJ", "TFOBJ", "PMAT", "EARR", "UNIT")
FRD, FOREIGN, NUMARR, DENARR, NONE, EMPTYLIST = "FRD", "FOREIGN", "NUMARR", "DENARR", "NONE", "EMPTYLIST"


def L(k):
    return ("list", k)


def TUP(*ks):
    return ("tuple", tuple(ks))


POLY = L(KK)
LLPOLY = L(L(POLY))

ATOM_TY = {NAT: "Nat", KK: "K", BOOL: "Bool", DT: "Dt", STR: "String", OPTSTR: "Option String",
           OPD: "PyConv.Opd K", SSOBJ: "PyConv.SSObj K", TFOBJ: "PyConv.TFObj K", PMAT: "PMat K",
           EARR: "PyConv.EArr K", UNIT: "Unit"}


def lty(k, top=True):
    if isinstance(k, tuple) and k[0] == "list":
        s = "List %s" % lty(k[1], False)
    elif isinstance(k, tuple) and k[0] == "tuple":
        s = " × ".join(lty(x, False) for x in k[1])
    elif k in ATOM_TY:
        s = ATOM_TY[k]
        if " " not in s:
            return s
    else:
        raise Unsupported("no Lean type for %r" % (k,))
    return s if top else "(" + s + ")"


RESERVED = {"end", "at", "from", "fun", "open", "do", "then", "else", "if", "let", "have", "show", "match",
            "with", "where", "in", "by", "def", "theorem", "namespace", "section", "variable", "import",
            "instance", "structure", "class", "inductive", "mutual", "private", "protected", "return",
            "for", "unless", "try", "catch", "finally", "macro", "syntax", "notation", "universe", "deriving",
            "Type", "Prop", "Sort", "K", "tf2ss", "ss2tf", "zpk2tf", "pure", "throw", "some", "none"}

# operand kinds, the type a variable has inside the arm, and the classes `isinstance` may name
KINDS = ("ss", "tf", "frd", "scalar", "array", "foreign")
KIND_TY = {"ss": SSOBJ, "tf": TFOBJ, "frd": FRD, "scalar": KK, "array": PMAT, "foreign": FOREIGN}
CLASS_KINDS = {"StateSpace": {"ss"}, "TransferFunction": {"tf"}, "FrequencyResponseData": {"frd"},
               "LTI": {"ss", "tf", "frd"}, "int": {"scalar"}, "float": {"scalar"}, "complex": {"scalar"},
               "np.number": {"scalar"}}
SCALAR_CLASSES = {"int", "float", "complex", "np.number"}

# module-level bindings a primitive name must have (module file -> name -> binding)
EXPECT = {
    "control/statesp.py": {
        "any": "from numpy import any", "empty": "from numpy import empty", "squeeze": "from numpy import squeeze",
        "np": "import numpy as np", "sp": "import scipy as sp", "slycot_check": "from .exception import slycot_check",
        "issiso": "from .iosys import issiso", "ControlMIMONotImplemented": "from .exception import ControlMIMONotImplemented",
        "FrequencyResponseData": "from .frdata import FrequencyResponseData", "StateSpace": "class",
        "_ssmatrix": "def", "_convert_to_statespace": "def", "LTI": "from .lti import LTI"},
    "control/xferfcn.py": {
        "array": "from numpy import array", "np": "import numpy as np", "sp": "import scipy as sp",
        "zpk2tf": "from scipy.signal import zpk2tf", "TransferFunction": "class",
        "FrequencyResponseData": "from .frdata import FrequencyResponseData",
        "_convert_to_transfer_function": "def", "LTI": "from .lti import LTI"},
}


def module_bindings(module):
    """name -> description of how it is bound at module level ('AMBIGUOUS' when bound more than once)"""
    b = {}

    def put(name, how):
        b[name] = how if name not in b or b[name] == how else "AMBIGUOUS"
    for node in module.body:
        if isinstance(node, ast.Import):
            for a in node.names:
                if a.asname:
                    put(a.asname, "import %s as %s" % (a.name, a.asname))
                else:
                    put(a.name.split(".")[0], "import %s" % a.name.split(".")[0])
        elif isinstance(node, ast.ImportFrom):
            mod = "." * node.level + (node.module or "")
            for a in node.names:
                put(a.asname or a.name, "from %s import %s" % (mod, a.name))
        elif isinstance(node, ast.FunctionDef):
            put(node.name, "def")
        elif isinstance(node, ast.ClassDef):
            put(node.name, "class")
        elif isinstance(node, (ast.Assign, ast.AugAssign, ast.AnnAssign)):
            tg = node.targets if isinstance(node, ast.Assign) else [node.target]
            for t in tg:
                for n in ast.walk(t):
                    if isinstance(n, ast.Name) and isinstance(n.ctx, ast.Store):
                        put(n.id, "assigned")
    return b


def _ind(s, n=2):
    return "\n".join((" " * n + ln) if ln else ln for ln in s.split("\n"))


def _do(lines):
    if len(lines) == 1 and not lines[0].startswith("let "):
        return lines[0]
    return "do\n" + _ind("\n".join(lines))


def _paren(s):
    return "(" + s + ")"


class Val:
    def __init__(self, kind, term, lit=None):
        self.kind, self.term, self.lit = kind, term, lit


class Translator:
    def __init__(self, job, rel, module, bindings, available):
        self.job, self.rel, self.module, self.bindings = job, rel, module, bindings
        self.available = available      # already translated functions of this run: python name -> job
        self.ntmp = 0
        self.local = {}                 # names bound by local import statements
        self.assigned = set()
        self.ret = job["ret"]
        self.used_params = set()

    # ---- helpers ---------------------------------------------------------------------------------
    def fresh(self):
        self.ntmp += 1
        return "t%d" % self.ntmp

    def bound(self, name):
        """`name` must have, at module level, exactly the binding the primitive table expects, and the function
        must not re-bind it"""
        if name in self.assigned or name in self.job["args_names"]:
            raise Unsupported("the primitive name %s is re-bound inside the function" % name)
        if name in self.local:
            return self.local[name]
        exp = EXPECT.get(self.rel, {}).get(name)
        got = self.bindings.get(name)
        if exp is None or got != exp:
            raise Unsupported("the name %s is bound by %r, expected %r" % (name, got, exp))
        return exp

    def lname(self, name):
        if name in RESERVED or name.startswith("t") and name[1:].isdigit() or not name.isidentifier() \
                or name.startswith("_"):
            return "v_" + name.lstrip("_")
        return name

    @staticmethod
    def dotted(node):
        if isinstance(node, ast.Name):
            return node.id
        if isinstance(node, ast.Attribute):
            d = Translator.dotted(node.value)
            return None if d is None else d + "." + node.attr
        return None

    def class_kinds(self, node):
        """the operand kinds the class expression of an isinstance test names"""
        if isinstance(node, ast.Tuple):
            ks = set()
            for e in node.elts:
                ks |= self.class_kinds(e)
            return ks
        d = self.dotted(node)
        if d in ("int", "float", "complex"):
            if d in self.assigned or d in self.bindings:
                raise Unsupported("builtin %s is re-bound" % d)
            return set(CLASS_KINDS[d])
        if d == "np.number":
            self.bound("np")
            return set(CLASS_KINDS[d])
        if d in CLASS_KINDS:
            self.bound(d)
            return set(CLASS_KINDS[d])
        raise Unsupported("isinstance against %s" % ast.dump(node)[:80])

    # ---- tests ------------------------------------------------------------------------------------
    def isinstance_var(self, node, env):
        """a variable of kind OPD tested by isinstance somewhere in the test"""
        for n in ast.walk(node):
            if isinstance(n, ast.Call) and isinstance(n.func, ast.Name) and n.func.id == "isinstance" \
                    and len(n.args) == 2 and isinstance(n.args[0], ast.Name):
                v = env.get(n.args[0].id)
                if v is not None and v.kind == OPD:
                    return n.args[0].id
        return None

    def test(self, node, env, lines):
        """-> python bool (decided statically) or a Lean Prop string"""
        if isinstance(node, ast.UnaryOp) and isinstance(node.op, ast.Not):
            t = self.test(node.operand, env, lines)
            return (not t) if isinstance(t, bool) else "¬ " + _paren(t)
        if isinstance(node, ast.BoolOp):
            # Python evaluates lazily; the operands here are effect-free (checked: no binds are emitted)
            parts = []
            for v in node.values:
                sub = []
                parts.append(self.test(v, env, sub))
                if sub:
                    raise Unsupported("an effectful operand of and / or")
            is_and = isinstance(node.op, ast.And)
            out = []
            for p in parts:
                if isinstance(p, bool):
                    if p != is_and:
                        return p if not out else self._junction(out + [str(p)], is_and, short=p)
                    continue
                out.append(p)
            if not out:
                return is_and
            return self._junction(out, is_and)
        if isinstance(node, ast.Call) and isinstance(node.func, ast.Name) and node.func.id == "isinstance":
            if len(node.args) != 2 or node.keywords or not isinstance(node.args[0], ast.Name):
                raise Unsupported("isinstance form")
            v = env.get(node.args[0].id)
            if v is None:
                raise Unsupported("isinstance of unknown variable %s" % node.args[0].id)
            ks = self.class_kinds(node.args[1])
            for kind, ty in KIND_TY.items():
                if v.kind == ty and v.kind != OPD:
                    return kind in ks
            raise Unsupported("isinstance of a variable of kind %r" % (v.kind,))
        if isinstance(node, ast.Compare) and len(node.ops) == 1:
            op, lhs, rhs = node.ops[0], node.left, node.comparators[0]
            if isinstance(op, (ast.Is, ast.IsNot)) and isinstance(rhs, ast.Constant) and rhs.value is None:
                a = self.expr(lhs, env, lines)
                if a.kind != OPTSTR:
                    raise Unsupported("`is None` on kind %r" % (a.kind,))
                s = "%s = none" % a.term
                return s if isinstance(op, ast.Is) else "¬ (%s)" % s
            if isinstance(op, ast.In) and isinstance(rhs, ast.List):
                a = self.expr(lhs, env, lines)
                if a.kind != OPTSTR:
                    raise Unsupported("`in` on kind %r" % (a.kind,))
                items = [self.optstr_lit(e) for e in rhs.elts]
                return "%s ∈ [%s]" % (a.term, ", ".join(items))
            a = self.expr(lhs, env, lines)
            b = self.expr(rhs, env, lines)
            if isinstance(op, (ast.Eq, ast.NotEq)):
                if a.kind == OPTSTR and b.kind == STR:
                    s = "%s = some %s" % (a.term, b.term)
                elif a.kind == STR and b.kind == OPTSTR:
                    s = "%s = some %s" % (b.term, a.term)
                elif a.kind == b.kind and a.kind in (NAT, STR):
                    s = "%s = %s" % (a.term, b.term)
                else:
                    raise Unsupported("== on kinds %r, %r" % (a.kind, b.kind))
                return s if isinstance(op, ast.Eq) else "¬ (%s)" % s
            if isinstance(op, (ast.Gt, ast.Lt, ast.GtE, ast.LtE)) and a.kind == NAT and b.kind == NAT:
                sym = {ast.Gt: ">", ast.Lt: "<", ast.GtE: "≥", ast.LtE: "≤"}[type(op)]
                return "%s %s %s" % (a.term, sym, b.term)
            if isinstance(op, ast.Gt) and a.kind == b.kind and a.kind in (L(NAT), L(L(NAT))):
                raise Unsupported("a list comparison used as a test (its truth value): wrap it in any()")
            raise Unsupported("comparison %s" % ast.dump(node)[:100])
        v = self.expr(node, env, lines)
        if v.kind == BOOL:
            return "%s = true" % v.term
        raise Unsupported("truth value of kind %r" % (v.kind,))

    @staticmethod
    def _junction(parts, is_and, short=None):
        sym = " ∧ " if is_and else " ∨ "
        parts = [p for p in parts if p not in ("True", "False")]
        if short is not None:
            # `a and False` / `a or True`: effect-free operands, the value is the constant
            return short
        return sym.join(_paren(p) for p in parts) if len(parts) > 1 else parts[0]

    def optstr_lit(self, e):
        if isinstance(e, ast.Constant) and e.value is None:
            return "none"
        if isinstance(e, ast.Constant) and isinstance(e.value, str):
            return "some %s" % self.strlit(e.value)
        raise Unsupported("expected None or a string literal")

    @staticmethod
    def strlit(s):
        if not all(32 <= ord(c) < 127 and c not in '"\\' for c in s):
            raise Unsupported("string literal %r" % s)
        return '"%s"' % s

    # ---- expressions ------------------------------------------------------------------------------
    def bind(self, lines, term, kind):
        t = self.fresh()
        lines.append("let %s ← %s" % (t, term))
        return Val(kind, t)

    def field(self, v, attr):
        if v.kind == TFOBJ:
            tab = {"num": (LLPOLY, "PyConv.TF.num %s"), "den": (LLPOLY, "PyConv.TF.den %s"),
                   "noutputs": (NAT, "PyConv.TF.noutputs %s"), "ninputs": (NAT, "PyConv.TF.ninputs %s"),
                   "dt": (DT, "PyConv.TF.dt %s"), "num_array": (NUMARR, "%s"), "den_array": (DENARR, "%s")}
        elif v.kind == SSOBJ:
            tab = {"nstates": (NAT, "PyConv.SSO.nstates %s"), "noutputs": (NAT, "PyConv.SSO.noutputs %s"),
                   "ninputs": (NAT, "PyConv.SSO.ninputs %s"), "dt": (DT, "PyConv.SSO.dt %s"),
                   "A": (PMAT, "PyConv.SSO.A %s"), "B": (PMAT, "PyConv.SSO.B %s"),
                   "C": (PMAT, "PyConv.SSO.C %s"), "D": (PMAT, "PyConv.SSO.D %s")}
        elif v.kind == PMAT:
            tab = {"shape": (TUP(NAT, NAT), "PyConv.matShape %s")}
        else:
            tab = {}
        if attr not in tab:
            raise Unsupported("attribute .%s of kind %r" % (attr, v.kind))
        k, fmt = tab[attr]
        return Val(k, _paren(fmt % v.term) if " " in fmt else v.term)

    def num_lit(self, node):
        """a numeric literal as a field element"""
        if isinstance(node, ast.Constant) and type(node.value) in (int, float) and float(node.value).is_integer() \
                and node.value >= 0:
            return "(%d : K)" % int(node.value)
        return None

    def expr(self, node, env, lines):
        if isinstance(node, ast.Name):
            if node.id in env:
                if node.id in self.job["args_names"]:
                    self.used_params.add(node.id)
                return env[node.id]
            raise Unsupported("unknown variable %s" % node.id)
        if isinstance(node, ast.Constant):
            v = node.value
            if type(v) is int and v >= 0:
                return Val(NAT, str(v), lit=v)
            if type(v) is float and self.num_lit(node):
                return Val(KK, self.num_lit(node))
            if isinstance(v, str):
                return Val(STR, self.strlit(v))
            if v is None:
                return Val(NONE, "none")
            raise Unsupported("constant %r" % (v,))
        if isinstance(node, ast.Attribute):
            return self.field(self.expr(node.value, env, lines), node.attr)
        if isinstance(node, ast.IfExp):
            sub = []
            c = self.test(node.test, env, sub)
            a = self.expr(node.body, env, sub)
            b = self.expr(node.orelse, env, sub)
            if sub:
                raise Unsupported("effectful conditional expression")
            if isinstance(c, bool):
                return a if c else b
            if a.kind == STR and b.kind == NONE:
                return Val(OPTSTR, "(if %s then some %s else none)" % (c, a.term))
            if a.kind == NONE and b.kind == STR:
                return Val(OPTSTR, "(if %s then none else some %s)" % (c, b.term))
            raise Unsupported("conditional expression of kinds %r / %r" % (a.kind, b.kind))
        if isinstance(node, ast.List):
            if not node.elts:
                return Val(EMPTYLIST, "[]")
            items = []
            for e in node.elts:
                lit = self.num_lit(e)
                items.append(Val(KK, lit) if lit else self.expr(e, env, lines))
            k = items[0].kind
            if k == EMPTYLIST:
                k = POLY
            for it in items:
                if it.kind not in (k, EMPTYLIST):
                    raise Unsupported("list literal of mixed kinds")
            terms = [("([] : %s)" % lty(k)) if it.kind == EMPTYLIST else it.term for it in items]
            return Val(L(k), "[%s]" % ", ".join(terms))
        if isinstance(node, ast.Tuple):
            items = [self.expr(e, env, lines) for e in node.elts]
            return Val(TUP(*[i.kind for i in items]), "(%s)" % ", ".join(i.term for i in items))
        if isinstance(node, (ast.ListComp, ast.GeneratorExp)):
            return self.comprehension(node, env, lines)
        if isinstance(node, ast.Subscript):
            return self.subscript(node, env, lines)
        if isinstance(node, ast.BinOp) and isinstance(node.op, ast.Div):
            a = self.expr(node.left, env, lines)
            b = self.expr(node.right, env, lines)
            if a.kind == KK and b.kind == KK:
                return self.bind(lines, "PyConv.npDiv %s %s" % (a.term, b.term), KK)
            raise Unsupported("/ on kinds %r, %r" % (a.kind, b.kind))
        if isinstance(node, ast.Compare) and len(node.ops) == 1 and isinstance(node.ops[0], ast.Gt):
            a = self.expr(node.left, env, lines)
            b = self.expr(node.comparators[0], env, lines)
            if a.kind == b.kind == L(L(NAT)):
                return Val(BOOL, "(PyConv.listGt (PyConv.listGt PyConv.natGt) %s %s)" % (a.term, b.term))
            if a.kind == b.kind == L(NAT):
                return Val(BOOL, "(PyConv.listGt PyConv.natGt %s %s)" % (a.term, b.term))
            raise Unsupported("> as a value on kinds %r, %r" % (a.kind, b.kind))
        if isinstance(node, ast.Call):
            return self.call(node, env, lines)
        raise Unsupported("expression %s" % ast.dump(node)[:100])

    def index_term(self, node, env, lines):
        v = self.expr(node, env, lines)
        if v.kind != NAT:
            raise Unsupported("an index of kind %r (only non-negative int indices)" % (v.kind,))
        return v.term

    def subscript(self, node, env, lines):
        base = self.expr(node.value, env, lines)
        sl = node.slice
        if isinstance(sl, ast.Tuple) and len(sl.elts) == 2:
            i = self.index_term(sl.elts[0], env, lines)
            j = self.index_term(sl.elts[1], env, lines)
            if base.kind == NUMARR:
                return self.bind(lines, "PyConv.TF.numAt %s %s %s" % (base.term, i, j), POLY)
            if base.kind == DENARR:
                return self.bind(lines, "PyConv.TF.denAt %s %s %s" % (base.term, i, j), POLY)
            if base.kind == PMAT:
                return self.bind(lines, "PyConv.matGet %s %s %s" % (base.term, i, j), KK)
            raise Unsupported("a[i, j] on kind %r" % (base.kind,))
        if isinstance(sl, (ast.Slice, ast.Tuple)):
            raise Unsupported("slice")
        if isinstance(base.kind, tuple) and base.kind[0] == "list":
            i = self.index_term(sl, env, lines)
            return self.bind(lines, "PyConv.getNat %s %s" % (base.term, i), base.kind[1])
        raise Unsupported("x[k] on kind %r" % (base.kind,))

    def iter_list(self, node, env, lines):
        """an iterable as a Lean list: (element kind, term)"""
        if isinstance(node, ast.Call) and isinstance(node.func, ast.Name) and node.func.id == "range":
            if "range" in self.assigned or "range" in self.bindings or len(node.args) != 1 or node.keywords:
                raise Unsupported("range form")
            n = self.expr(node.args[0], env, lines)
            if n.kind != NAT:
                raise Unsupported("range of kind %r" % (n.kind,))
            return NAT, "(List.range %s)" % n.term
        v = self.expr(node, env, lines)
        if isinstance(v.kind, tuple) and v.kind[0] == "list":
            return v.kind[1], v.term
        raise Unsupported("iteration over kind %r" % (v.kind,))

    def comprehension(self, node, env, lines):
        if len(node.generators) != 1 or node.generators[0].ifs or node.generators[0].is_async \
                or not isinstance(node.generators[0].target, ast.Name):
            raise Unsupported("comprehension form")
        g = node.generators[0]
        ek, it = self.iter_list(g.iter, env, lines)
        var = g.target.id
        env2 = dict(env)
        env2[var] = Val(ek, self.lname(var))
        sub = []
        body = self.expr(node.elt, env2, sub)
        bk = POLY if body.kind == EMPTYLIST else body.kind
        bt = "([] : List K)" if body.kind == EMPTYLIST else body.term
        if not sub:
            return Val(L(bk), "(%s.map fun (%s : %s) => %s)" % (it, self.lname(var), lty(ek), bt))
        inner = _do(sub + ["pure %s" % bt])
        t = "%s.mapM fun (%s : %s) => (%s\n  : Except Err %s)" % (
            it, self.lname(var), lty(ek), _ind(inner).lstrip(), lty(bk, False))
        return self.bind(lines, t, L(bk))

    def kwargs(self, node, allowed):
        kw = {}
        for k in node.keywords:
            if k.arg is None or k.arg not in allowed or k.arg in kw:
                raise Unsupported("keyword %r" % (k.arg,))
            kw[k.arg] = k.value
        return kw

    def dt_arg(self, node, env, lines):
        if isinstance(node, ast.Constant) and node.value is None:
            return "Dt.none"
        v = self.expr(node, env, lines)
        if v.kind != DT:
            raise Unsupported("timebase argument of kind %r" % (v.kind,))
        return v.term

    def as_pmat(self, v, lines):
        if v.kind == PMAT:
            return v.term
        if v.kind == EARR:
            return self.bind(lines, "PyConv.EArr.freeze %s" % v.term, PMAT).term
        raise Unsupported("a matrix argument of kind %r" % (v.kind,))

    def call(self, node, env, lines):
        f = node.func
        d = self.dotted(f)
        args = node.args
        if any(isinstance(a, ast.Starred) for a in args):
            raise Unsupported("starred argument")
        if d == "len" and len(args) == 1 and not node.keywords and "len" not in self.bindings:
            v = self.expr(args[0], env, lines)
            if isinstance(v.kind, tuple) and v.kind[0] == "list":
                return Val(NAT, "(List.length %s)" % v.term)
            raise Unsupported("len of kind %r" % (v.kind,))
        if d == "max" and len(args) == 1 and not node.keywords and "max" not in self.bindings:
            v = self.expr(args[0], env, lines)
            if v.kind == L(NAT):
                return self.bind(lines, "PyConv.maxNat %s" % v.term, NAT)
            raise Unsupported("max of kind %r" % (v.kind,))
        if d == "any" and len(args) == 1 and not node.keywords:
            self.bound("any")
            v = self.expr(args[0], env, lines)
            if v.kind == BOOL:
                return Val(BOOL, "(PyConv.npAny %s)" % v.term)
            raise Unsupported("any of kind %r" % (v.kind,))
        if d == "slycot_check" and not args and not node.keywords:
            self.bound("slycot_check")
            return Val(BOOL, "PyConv.slycotCheck")
        if d == "issiso" and len(args) == 1 and not node.keywords:
            self.bound("issiso")
            v = self.expr(args[0], env, lines)
            if v.kind == TFOBJ:
                return Val(BOOL, "(PyConv.TF.issiso %s)" % v.term)
            raise Unsupported("issiso of kind %r" % (v.kind,))
        if d == "empty":
            self.bound("empty")
            kw = self.kwargs(node, {"dtype"})
            if len(args) != 1 or not isinstance(args[0], ast.Tuple) or len(args[0].elts) != 2 \
                    or not (isinstance(kw.get("dtype"), ast.Name) and kw["dtype"].id == "float"):
                raise Unsupported("empty form")
            a = self.index_term(args[0].elts[0], env, lines)
            b = self.index_term(args[0].elts[1], env, lines)
            return Val(EARR, "(PyConv.EArr.empty %s %s)" % (a, b))
        if d == "squeeze" and len(args) == 1 and not node.keywords:
            self.bound("squeeze")
            v = self.expr(args[0], env, lines)
            if v.kind == LLPOLY:
                return self.bind(lines, "PyConv.squeezeSiso %s" % v.term, POLY)
            raise Unsupported("squeeze of kind %r" % (v.kind,))
        if d in ("np.atleast_2d", "array"):
            if d == "array":
                self.bound("array")
                kw = self.kwargs(node, {"ndmin"})
                if not (isinstance(kw.get("ndmin"), ast.Constant) and kw["ndmin"].value == 2):
                    raise Unsupported("array form")
            else:
                self.bound("np")
                if node.keywords:
                    raise Unsupported("atleast_2d form")
            if len(args) != 1:
                raise Unsupported("array conversion form")
            v = self.expr(args[0], env, lines)
            if v.kind == KK:
                return Val(PMAT, "(PyConv.scalar2d %s)" % v.term)
            if v.kind == PMAT:
                return v
            if v.kind == FOREIGN:
                return self.bind(lines, "(PyConv.foreign2d : Except Err (PMat K))", PMAT)
            raise Unsupported("array conversion of kind %r" % (v.kind,))
        if d == "_ssmatrix":
            self.bound("_ssmatrix")
            kw = self.kwargs(node, {"name"})
            if len(args) != 1 or not isinstance(kw.get("name"), ast.Constant):
                raise Unsupported("_ssmatrix form")
            v = self.expr(args[0], env, lines)
            if v.kind == PMAT:
                return Val(PMAT, "(PyConv.ssmatrix %s)" % v.term)
            raise Unsupported("_ssmatrix of kind %r" % (v.kind,))
        if d == "sp.signal.tf2ss" and len(args) == 2 and not node.keywords:
            self.bound("sp")
            self.need_param("tf2ss")
            a = self.expr(args[0], env, lines)
            b = self.expr(args[1], env, lines)
            if a.kind == POLY and b.kind == POLY:
                return self.bind(lines, "tf2ss %s %s" % (a.term, b.term), TUP(PMAT, PMAT, PMAT, PMAT))
            raise Unsupported("tf2ss on kinds %r, %r" % (a.kind, b.kind))
        if d == "sp.signal.ss2tf" and len(args) == 4:
            self.bound("sp")
            self.need_param("ss2tf")
            kw = self.kwargs(node, {"input"})
            if "input" not in kw:
                raise Unsupported("ss2tf without input=")
            ms = [self.expr(a, env, lines) for a in args]
            if any(m.kind != PMAT for m in ms):
                raise Unsupported("ss2tf arguments")
            j = self.index_term(kw["input"], env, lines)
            return self.bind(lines, "ss2tf %s %s" % (" ".join(m.term for m in ms), j), TUP(L(POLY), POLY))
        if d == "zpk2tf" and len(args) == 3 and not node.keywords:
            self.bound("zpk2tf")
            self.need_param("zpk2tf")
            vs = [self.expr(a, env, lines) for a in args]
            if [v.kind for v in vs] != [POLY, POLY, KK]:
                raise Unsupported("zpk2tf arguments")
            return self.bind(lines, "zpk2tf %s" % " ".join(v.term for v in vs), TUP(POLY, POLY))
        if d == "StateSpace":
            self.bound("StateSpace")
            kw = self.kwargs(node, {"dt"})
            pos = list(args)
            if len(pos) == 5 and not kw:
                dtn = pos.pop()
            elif len(pos) == 4 and "dt" in kw:
                dtn = kw["dt"]
            else:
                raise Unsupported("StateSpace(...) form")
            if all(isinstance(a, ast.List) and not a.elts for a in pos[:3]):
                dm = self.as_pmat(self.expr(pos[3], env, lines), lines)
                dt = self.dt_arg(dtn, env, lines)
                return Val(SSOBJ, "(PyConv.mkStaticSS %s %s)" % (dm, dt))
            ms = [self.as_pmat(self.expr(a, env, lines), lines) for a in pos]
            dt = self.dt_arg(dtn, env, lines)
            return self.bind(lines, "PyConv.mkSS %s %s" % (" ".join(ms), dt), SSOBJ)
        if d == "TransferFunction":
            if self.rel == "control/xferfcn.py":
                self.bound("TransferFunction")
            elif self.local.get("TransferFunction") != "from .xferfcn import TransferFunction":
                raise Unsupported("TransferFunction is not imported from .xferfcn")
            if node.keywords or len(args) not in (2, 3):
                raise Unsupported("TransferFunction(...) form")
            a = self.expr(args[0], env, lines)
            b = self.expr(args[1], env, lines)
            dt = "none" if len(args) == 2 else "(some %s)" % self.dt_arg(args[2], env, lines)
            if a.kind == LLPOLY and b.kind == LLPOLY:
                return self.bind(lines, "PyConv.mkTF %s %s %s" % (a.term, b.term, dt), TFOBJ)
            if a.kind == POLY and b.kind == POLY:
                return self.bind(lines, "PyConv.mkSisoTF %s %s %s" % (a.term, b.term, dt), TFOBJ)
            raise Unsupported("TransferFunction on kinds %r, %r" % (a.kind, b.kind))
        if d in self.available and not node.keywords:
            j = self.available[d]
            self.bound(d)
            vs = [self.expr(a, env, lines) for a in args]
            if len(vs) > len(j["args"]):
                raise Unsupported("too many arguments for %s" % d)
            terms = []
            for (an, ak, dflt), v in zip(j["args"], vs):
                terms.append(self.coerce(v, ak))
            for (an, ak, dflt) in j["args"][len(vs):]:
                if dflt is None:
                    raise Unsupported("missing argument %s of %s" % (an, d))
                terms.append(dflt[1])
            for p in j["params_used"]:
                self.need_param(p)
            return self.bind(lines, "%s %s" % (" ".join([j["lean"]] + j["params_used"]), " ".join(terms)), j["ret"])
        raise Unsupported("call %s" % ast.dump(node)[:120])

    def coerce(self, v, kind):
        if v.kind == kind:
            return v.term
        if kind == OPD:
            for k, ty in KIND_TY.items():
                if v.kind == ty and k in ("ss", "tf", "scalar", "array"):
                    return "(.%s %s)" % (k, v.term)
            if v.kind == FRD:
                return ".frd"
            if v.kind == FOREIGN:
                return ".foreign"
        raise Unsupported("argument of kind %r where %r is expected" % (v.kind, kind))

    def need_param(self, p):
        if p not in self.job["params"]:
            raise Unsupported("the external routine %s is not a parameter of this job" % p)
        if p not in self.params_used:
            self.params_used.append(p)

    # ---- statements -------------------------------------------------------------------------------
    @staticmethod
    def has_return(stmts):
        for s in stmts:
            for n in ast.walk(s):
                if isinstance(n, ast.Return):
                    return True
        return False

    def assigned_names(self, stmts):
        out = []

        def add(n):
            if n not in out:
                out.append(n)
        for s in stmts:
            for n in ast.walk(s):
                if isinstance(n, ast.Name) and isinstance(n.ctx, ast.Store):
                    add(n.id)
                elif isinstance(n, (ast.Assign,)):
                    for t in n.targets:
                        b = t
                        while isinstance(b, ast.Subscript):
                            b = b.value
                        if isinstance(b, ast.Name):
                            add(b.id)
                elif isinstance(n, ast.Expr) and isinstance(n.value, ast.Call) and \
                        isinstance(n.value.func, ast.Attribute) and n.value.func.attr == "_copy_names" and \
                        isinstance(n.value.func.value, ast.Name):
                    add(n.value.func.value.id)
        return out

    def raise_err(self, node):
        exc = node.exc
        if exc is None or node.cause is not None:
            raise Unsupported("bare raise / raise from")
        name = self.dotted(exc.func) if isinstance(exc, ast.Call) else self.dotted(exc)
        msg = ""
        if isinstance(exc, ast.Call) and exc.args:
            a = exc.args[0]
            if isinstance(a, ast.BinOp) and isinstance(a.op, ast.Mod):
                a = a.left
            if isinstance(a, ast.Constant) and isinstance(a.value, str):
                msg = a.value
            elif isinstance(a, ast.JoinedStr):
                msg = "".join(v.value for v in a.values if isinstance(v, ast.Constant))
        if name == "ControlMIMONotImplemented":
            self.bound(name)
            return "Err.notImplemented"
        if name in ("ValueError", "TypeError") and name not in self.bindings and name not in self.assigned:
            for sub, err in self.job.get("raises", []):
                if sub[0] == name and sub[1] in msg:
                    return "Err." + err
            return "Err.badArg" if name == "ValueError" else "Err.notImplemented"
        raise Unsupported("raise %s" % name)

    @staticmethod
    def loaded(stmts):
        return {n.id for s in stmts for n in ast.walk(s) if isinstance(n, ast.Name) and isinstance(n.ctx, ast.Load)}

    def seq(self, stmts, env, must_exit, live_after=frozenset()):
        """-> (do-lines, env after | None when every path exits); `live_after`: the names read after the block"""
        env = dict(env)
        lines = []
        for idx, st in enumerate(stmts):
            rest = stmts[idx + 1:]
            live = self.loaded(rest) | set(live_after)
            if isinstance(st, ast.Expr) and isinstance(st.value, ast.Constant) and isinstance(st.value.value, str):
                continue
            if isinstance(st, ast.Pass):
                continue
            if isinstance(st, ast.Import):
                for a in st.names:
                    if a.name == "itertools" and a.asname is None:
                        self.local["itertools"] = "import itertools"
                    else:
                        raise Unsupported("local import %s" % a.name)
                continue
            if isinstance(st, ast.ImportFrom):
                if st.module == "slycot" and st.level == 0:
                    lines.append("PyConv.importSlycot")
                    return lines, None
                ok = {("xferfcn", "TransferFunction"), ("statesp", "StateSpace")}
                for a in st.names:
                    if st.level == 1 and (st.module, a.name) in ok and a.asname is None:
                        self.local[a.name] = "from .%s import %s" % (st.module, a.name)
                    else:
                        raise Unsupported("local import from %s" % st.module)
                continue
            if isinstance(st, ast.Return):
                if st.value is None:
                    raise Unsupported("return without a value")
                v = self.expr(st.value, env, lines)
                lines.append("pure %s" % self.coerce_ret(v))
                return lines, None
            if isinstance(st, ast.Raise):
                lines.append("throw %s" % self.raise_err(st))
                return lines, None
            if isinstance(st, ast.Assign):
                self.assign(st, env, lines)
                continue
            if isinstance(st, ast.Expr) and isinstance(st.value, ast.Call):
                self.copy_names(st.value, env, lines)
                continue
            if isinstance(st, ast.For):
                self.for_(st, env, lines)
                continue
            if isinstance(st, ast.Try):
                t = self.try_(st, rest, env, must_exit)
                if t[0] == "inline":
                    l2, e2 = self.seq(t[1] + rest, env, must_exit, live_after)
                    return lines + l2, e2
                lines.append(t[1])
                return lines, None
            if isinstance(st, ast.If):
                var = self.isinstance_var(st.test, env)
                if var is not None:
                    if not must_exit:
                        raise Unsupported("isinstance dispatch inside a block that falls through")
                    lines.append(self.dispatch(var, [st] + rest, env))
                    return lines, None
                sub = []
                c = self.test(st.test, env, sub)
                lines += sub
                if isinstance(c, bool):
                    l2, e2 = self.seq((st.body if c else st.orelse) + rest, env, must_exit, live_after)
                    return lines + l2, e2
                if self.has_return([st]):
                    if not must_exit:
                        raise Unsupported("return inside a block that falls through")
                    a, ea = self.seq(st.body + rest, env, True)
                    b, eb = self.seq(st.orelse + rest, env, True)
                    if ea is not None or eb is not None:
                        raise Unsupported("a path falls off the end of the function")
                    lines.append("if %s then\n%s\nelse\n%s" % (c, _ind(_do(a)), _ind(_do(b))))
                    return lines, None
                # no return inside: the re-bound variables are the value of the statement
                a, ea = self.seq(st.body, env, False, live)
                b, eb = self.seq(st.orelse, env, False, live)
                names = []
                for n in sorted(x for x in self.assigned_names([st]) if x in live):
                    ks = [e[n].kind for e in (ea, eb) if e is not None and n in e]
                    live = [e for e in (ea, eb) if e is not None]
                    if not live:
                        continue
                    if len(ks) == len(live) and all(k == ks[0] for k in ks) and \
                            any(e[n] is not env.get(n) for e in live):
                        names.append(n)
                if ea is None and eb is None:
                    lines.append("if %s then\n%s\nelse\n%s" % (c, _ind(_do(a)), _ind(_do(b))))
                    return lines, None
                live = ea if ea is not None else eb
                kinds = [live[n].kind for n in names]
                tup = "(%s)" % ", ".join(self.lname(n) for n in names) if len(names) != 1 else self.lname(names[0])
                if not names:
                    tup = "()"
                ty = " × ".join(lty(k, False) for k in kinds) if names else "Unit"
                if ea is not None:
                    a = a + ["pure %s" % ("(%s)" % ", ".join(ea[n].term for n in names) if len(names) != 1
                                          else ea[names[0]].term) if names else "pure ()"]
                if eb is not None:
                    b = b + ["pure %s" % ("(%s)" % ", ".join(eb[n].term for n in names) if len(names) != 1
                                          else eb[names[0]].term) if names else "pure ()"]
                term = "(if %s then\n%s\nelse\n%s\n  : Except Err (%s))" % (c, _ind(_do(a)), _ind(_do(b)), ty)
                lines.append("let %s ← %s" % (tup if names else "_", term))
                for n, k in zip(names, kinds):
                    env[n] = Val(k, self.lname(n))
                    self.assigned.add(n)
                # a variable only one branch binds is not usable afterwards
                for n in self.assigned_names([st]):
                    if n not in names and any(e is not None and e.get(n) is not env.get(n) for e in (ea, eb)):
                        env.pop(n, None)
                continue
            raise Unsupported("statement %s" % type(st).__name__)
        return lines, env

    def coerce_ret(self, v):
        return self.coerce(v, self.ret)

    def assign(self, st, env, lines):
        if len(st.targets) != 1:
            raise Unsupported("chained assignment")
        tg = st.targets[0]
        if isinstance(tg, ast.Name):
            v = self.expr(st.value, env, lines)
            if v.kind in (NONE, EMPTYLIST, NUMARR, DENARR):
                raise Unsupported("assignment of a value of kind %r" % (v.kind,))
            self.bindv(tg.id, v, env, lines)
            return
        if isinstance(tg, ast.Tuple) and all(isinstance(e, ast.Name) for e in tg.elts):
            v = self.expr(st.value, env, lines)
            if not (isinstance(v.kind, tuple) and v.kind[0] == "tuple" and len(v.kind[1]) == len(tg.elts)):
                raise Unsupported("tuple assignment from kind %r" % (v.kind,))
            names = [e.id for e in tg.elts]
            if len(set(names)) != len(names):
                raise Unsupported("repeated target")
            lines.append("let (%s) := %s" % (", ".join(self.lname(n) for n in names), v.term))
            for n, k in zip(names, v.kind[1]):
                env[n] = Val(k, self.lname(n))
                self.assigned.add(n)
            return
        if isinstance(tg, ast.Subscript):
            # D[i, j] = e   |   xs[i][j] = e
            if isinstance(tg.slice, ast.Tuple) and len(tg.slice.elts) == 2 and isinstance(tg.value, ast.Name):
                base = self.expr(tg.value, env, lines)
                if base.kind != EARR:
                    raise Unsupported("a[i, j] = e on kind %r" % (base.kind,))
                v = self.expr(st.value, env, lines)
                i = self.index_term(tg.slice.elts[0], env, lines)
                j = self.index_term(tg.slice.elts[1], env, lines)
                if v.kind != KK:
                    raise Unsupported("array item of kind %r" % (v.kind,))
                nm = tg.value.id
                lines.append("let %s ← PyConv.EArr.setItem %s %s %s %s" % (self.lname(nm), base.term, i, j, v.term))
                env[nm] = Val(EARR, self.lname(nm))
                self.assigned.add(nm)
                return
            if isinstance(tg.value, ast.Subscript) and isinstance(tg.value.value, ast.Name):
                nm = tg.value.value.id
                base = self.expr(tg.value.value, env, lines)
                if not (isinstance(base.kind, tuple) and base.kind[0] == "list" and isinstance(base.kind[1], tuple)
                        and base.kind[1][0] == "list"):
                    raise Unsupported("xs[i][j] = e on kind %r" % (base.kind,))
                v = self.expr(st.value, env, lines)
                i = self.index_term(tg.value.slice, env, lines)
                j = self.index_term(tg.slice, env, lines)
                if v.kind != base.kind[1][1]:
                    raise Unsupported("nested list item of kind %r" % (v.kind,))
                lines.append("let %s ← PyConv.set2 %s %s %s %s" % (self.lname(nm), base.term, i, j, v.term))
                env[nm] = Val(base.kind, self.lname(nm))
                self.assigned.add(nm)
                return
        raise Unsupported("assignment target %s" % ast.dump(tg)[:80])

    def bindv(self, name, v, env, lines):
        ln = self.lname(name)
        lines.append("let %s : %s := %s" % (ln, lty(v.kind), v.term))
        env[name] = Val(v.kind, ln)
        self.assigned.add(name)

    def copy_names(self, call, env, lines):
        f = call.func
        if not (isinstance(f, ast.Attribute) and f.attr == "_copy_names" and isinstance(f.value, ast.Name)):
            raise Unsupported("expression statement %s" % ast.dump(call)[:80])
        kw = self.kwargs(call, {"prefix_suffix_name"})
        if len(call.args) != 1:
            raise Unsupported("_copy_names form")
        new = self.expr(f.value, env, lines)
        src = self.expr(call.args[0], env, lines)
        if new.kind not in (SSOBJ, TFOBJ) or src.kind not in (SSOBJ, TFOBJ):
            raise Unsupported("_copy_names on kinds %r, %r" % (new.kind, src.kind))
        if "prefix_suffix_name" in kw:
            t = self.expr(kw["prefix_suffix_name"], env, lines)
            tag = {OPTSTR: t.term, NONE: "none", STR: "(some %s)" % t.term}.get(t.kind)
            if tag is None:
                raise Unsupported("prefix_suffix_name of kind %r" % (t.kind,))
        else:
            tag = "none"
        nm = f.value.id
        cls = "SSObj" if new.kind == SSOBJ else "TFObj"
        lines.append("let %s ← PyConv.%s.copyNames %s %s.names %s" % (self.lname(nm), cls, new.term, src.term, tag))
        env[nm] = Val(new.kind, self.lname(nm))
        self.assigned.add(nm)

    def for_(self, st, env, lines):
        if st.orelse or self.has_return([st]):
            raise Unsupported("for ... else / return inside a loop")
        for n in ast.walk(st):
            if isinstance(n, (ast.Break, ast.Continue)):
                raise Unsupported("break / continue")
        it = st.iter
        pre = []
        if isinstance(st.target, ast.Name):
            ek, term = self.iter_list(it, env, pre)
            pat, ety = self.lname(st.target.id), lty(ek)
            binds = {st.target.id: Val(ek, self.lname(st.target.id))}
            unpack = []
        elif isinstance(st.target, ast.Tuple) and len(st.target.elts) == 2 and \
                all(isinstance(e, ast.Name) for e in st.target.elts) and self.dotted(getattr(it, "func", None)) == \
                "itertools.product" and len(it.args) == 2 and not it.keywords:
            if self.local.get("itertools") != "import itertools" or "itertools" in self.assigned:
                raise Unsupported("itertools is not the module")
            k1, t1 = self.iter_list(it.args[0], env, pre)
            k2, t2 = self.iter_list(it.args[1], env, pre)
            term = "(PyConv.product %s %s)" % (t1, t2)
            pat, ety = "ij", "%s × %s" % (lty(k1, False), lty(k2, False))
            a, b = (e.id for e in st.target.elts)
            if a == b:
                raise Unsupported("repeated loop variable")
            binds = {a: Val(k1, self.lname(a)), b: Val(k2, self.lname(b))}
            unpack = ["let %s : %s := ij.1" % (self.lname(a), lty(k1)), "let %s : %s := ij.2" % (self.lname(b), lty(k2))]
        else:
            raise Unsupported("loop form")
        lines += pre
        loopvars = set(binds)
        state = sorted(n for n in self.assigned_names(st.body) if n in env and n not in loopvars)
        for n in self.assigned_names(st.body):
            if n not in env and n not in loopvars:
                pass        # a variable local to the body
        env2 = dict(env)
        env2.update(binds)
        for n in state:
            env2[n] = Val(env[n].kind, self.lname(n))
        body, eafter = self.seq(st.body, env2, False)
        if eafter is None:
            raise Unsupported("a loop body that always raises")
        for n in state:
            if eafter[n].kind != env[n].kind:
                raise Unsupported("the loop changes the kind of %s" % n)
        if not state:
            raise Unsupported("a loop without state")
        sty = " × ".join(lty(env[n].kind, False) for n in state)
        spat = "(%s)" % ", ".join(self.lname(n) for n in state) if len(state) > 1 else self.lname(state[0])
        sres = "(%s)" % ", ".join(eafter[n].term for n in state) if len(state) > 1 else eafter[state[0]].term
        sinit = "(%s)" % ", ".join(env[n].term for n in state) if len(state) > 1 else env[state[0]].term
        inner = _do(unpack + body + ["pure %s" % sres])
        fn = "fun (%s : %s) (%s : %s) => (%s\n  : Except Err (%s))" % (
            "st" if len(state) > 1 else spat, sty, pat, ety,
            _ind(_do((["let %s := st" % spat] if len(state) > 1 else []) + unpack + body + ["pure %s" % sres])).lstrip(),
            sty)
        del inner
        lines.append("let %s ← List.foldlM (%s) %s %s" % (spat, fn, sinit, term))
        for n in state:
            env[n] = Val(env[n].kind, self.lname(n))
        # the loop variables and body-local names stay bound in Python after the loop; not supported here
        for n in list(loopvars):
            env.pop(n, None)

    def try_(self, st, rest, env, must_exit):
        if st.orelse or st.finalbody or len(st.handlers) != 1:
            raise Unsupported("try form")
        h = st.handlers[0]
        first = next((s for s in st.body if not (isinstance(s, ast.Expr) and isinstance(s.value, ast.Constant))), None)
        if isinstance(first, ast.ImportFrom) and first.module == "slycot" and first.level == 0:
            if not (isinstance(h.type, ast.Name) and h.type.id == "ImportError" and h.name is None):
                raise Unsupported("handler of the slycot import")
            return ("inline", list(h.body))
        if not (isinstance(h.type, ast.Name) and h.type.id == "Exception" and h.name is None and must_exit
                and not rest):
            raise Unsupported("try / except form")
        body, eb = self.seq(st.body, env, True)
        hb, eh = self.seq(h.body, env, True)
        if eb is not None or eh is not None:
            raise Unsupported("a try statement that falls through")
        return ("term", "match (%s\n  : Except Err %s) with\n| .ok v => pure v\n| .error _ =>\n%s" % (
            _ind(_do(body)).lstrip(), lty(self.ret, False), _ind(_do(hb))))

    def dispatch(self, var, stmts, env):
        v = env[var]
        ln = self.lname(var)
        arms = []
        for kind in KINDS:
            env2 = dict(env)
            ty = KIND_TY[kind]
            env2[var] = Val(ty, ln)
            body, e2 = self.seq(stmts, env2, True)
            if e2 is not None:
                raise Unsupported("a path falls off the end of the function")
            pat = ".%s" % kind if kind in ("frd", "foreign") else ".%s %s" % (kind, ln)
            arms.append("| %s =>\n%s" % (pat, _ind(_do(body))))
        return "match %s with\n%s" % (v.term, "\n".join(arms))


# ---- jobs -----------------------------------------------------------------------------------------
PARAM_TY = {
    "tf2ss": "(tf2ss : List K → List K → Except Err (PMat K × PMat K × PMat K × PMat K))",
    "ss2tf": "(ss2tf : PMat K → PMat K → PMat K → PMat K → Nat → Except Err (List (List K) × List K))",
    "zpk2tf": "(zpk2tf : List K → List K → K → Except Err (List K × List K))",
}

# args: (python name, kind, default as (python ast dump of the default, lean term) or None)
JOBS = [
    {"rel": "control/statesp.py", "func": "_convert_to_statespace", "lean": "convertToStatespace",
     "out": "ConvToSS.lean", "params": ["tf2ss"], "ret": SSOBJ,
     "args": [("sys", OPD, None), ("use_prefix_suffix", BOOL, ("False", "false")), ("method", OPTSTR, ("None", "none"))],
     "raises": [(("ValueError", "non-proper"), "nonProper")]},
    {"rel": "control/xferfcn.py", "func": "_convert_to_transfer_function", "lean": "convertToTransferFunction",
     "out": "ConvToTF.lean", "params": ["ss2tf"], "ret": TFOBJ,
     "args": [("sys", OPD, None), ("inputs", NAT, ("1", "1")), ("outputs", NAT, ("1", "1")),
              ("use_prefix_suffix", BOOL, ("False", "false"))],
     "raises": []},
    {"rel": "control/statesp.py", "func": "ssdata", "lean": "ssdata", "out": "ConvData.lean", "params": ["tf2ss"],
     "ret": TUP(PMAT, PMAT, PMAT, PMAT), "args": [("sys", OPD, None)], "raises": [], "deps": ["ConvToSS"]},
    {"rel": "control/xferfcn.py", "func": "tfdata", "lean": "tfdata", "out": "ConvData.lean", "params": ["ss2tf"],
     "ret": TUP(LLPOLY, LLPOLY), "args": [("sys", OPD, None)], "raises": [], "deps": ["ConvToTF"]},
]
FILES = [("ConvToSS.lean", []), ("ConvToTF.lean", []), ("ConvData.lean", ["ConvToSS", "ConvToTF"])]


def find_function(module, name):
    found = [n for n in module.body if isinstance(n, ast.FunctionDef) and n.name == name]
    if len(found) != 1:
        raise Unsupported("%d module-level definitions of %s" % (len(found), name))
    return found[0]


def signature(job, params):
    ps = " ".join(PARAM_TY[p] for p in params)
    args = " ".join("(%s : %s)" % (Translator.lname(None, a), lty(k)) for a, k, _ in job["args"])
    return (ps + " " + args).strip()


def translate(src, module, bindings, job, available):
    fn = find_function(module, job["func"])
    text = ast.get_source_segment(src, fn)
    sha = hashlib.sha256(text.encode()).hexdigest()
    a = fn.args
    if a.vararg or a.kwarg or a.kwonlyargs or a.posonlyargs or fn.decorator_list:
        raise Unsupported("parameter list form")
    names = [x.arg for x in a.args]
    if names != [n for n, _, _ in job["args"]]:
        raise Unsupported("parameters %r, expected %r" % (names, [n for n, _, _ in job["args"]]))
    dflts = [None] * (len(names) - len(a.defaults)) + list(a.defaults)
    for (n, k, d), got in zip(job["args"], dflts):
        if (d is None) != (got is None) or (d is not None and ast.unparse(got) != d[0]):
            raise Unsupported("default of %s is %s, expected %s" % (n, ast.unparse(got) if got else None, d and d[0]))
    job = dict(job)
    job["args_names"] = names
    tr = Translator(job, job["rel"], module, bindings, available)
    tr.params_used = []
    env = {n: Val(k, tr.lname(n)) for n, k, _ in job["args"]}
    lines, e = tr.seq(fn.body, env, True)
    if e is not None:
        raise Unsupported("a path falls off the end of the function")
    params = [p for p in job["params"] if p in tr.params_used]
    doc = "/-- `%s:%s` as the source text says it (sha256 of the function text\n%s).%s -/" % (
        job["rel"], job["func"], sha,
        ("\nDefaults: " + ", ".join("%s=%s" % (n, d[0]) for n, _, d in job["args"] if d) + ".")
        if any(d for _, _, d in job["args"]) else "")
    lean = "%s\ndef %s %s : Except Err (%s) :=\n%s\n" % (doc, job["lean"], signature(job, params), lty(job["ret"]),
                                                        _ind(_do(lines)))
    return lean, {"sha": sha, "params_used": params}


def regenerate(repo, lean_dir, only=None):
    """Rewrite Generated/Conv*.lean; returns (list of problems, info dict)."""
    problems, info = [], {}
    gen_dir = os.path.join(lean_dir, "CtrlVerif", "Generated")
    os.makedirs(gen_dir, exist_ok=True)
    mods = {}
    for rel in sorted({j["rel"] for j in JOBS}):
        try:
            src = open(os.path.join(repo, rel)).read()
            module = ast.parse(src)
            mods[rel] = (src, module, module_bindings(module), None)
        except (OSError, SyntaxError) as e:
            mods[rel] = (None, None, None, str(e))
    available = {}
    texts = {out: [] for out, _ in FILES}
    for job in JOBS:
        where = job["rel"] + ":" + job["func"]
        src, module, bindings, load_error = mods[job["rel"]]
        try:
            if load_error:
                raise Unsupported(load_error)
            avail = {k: v for k, v in available.items() if v["rel"] == job["rel"] and v["ok"]}
            lean, inf = translate(src, module, bindings, job, avail)
            info[job["func"]] = inf
            available[job["func"]] = dict(job, params_used=inf["params_used"], ok=True)
        except Unsupported as e:
            msg = str(e).replace("\n", " ").replace("-/", "- /")[:300]
            problems.append("py2lean_conv: %s cannot be translated: %s" % (where, msg))
            sig = signature(job, job["params"])
            for nm in job["params"] + [Translator.lname(None, a) for a, _, _ in job["args"]]:
                sig = sig.replace("(%s :" % nm, "(_%s :" % nm)
            lean = "/-- translation of `%s` FAILED: %s -/\ndef %s %s : Except Err (%s) :=\n  .error Err.notImplemented\n" % (
                where, msg, job["lean"], sig, lty(job["ret"]))
            available[job["func"]] = dict(job, params_used=list(job["params"]), ok=False)
        texts[job["out"]].append(lean)
    for out, deps in FILES:
        if only and out not in only:
            continue
        shas = ", ".join("%s %s" % (j["func"], info[j["func"]]["sha"][:16] if j["func"] in info else "FAILED")
                         for j in JOBS if j["out"] == out)
        text = ("-- GENERATED on every run by harness/core/py2lean_conv.py from control/statesp.py, control/xferfcn.py "
                "(%s).  Do not edit.\n" % shas
                + "import CtrlVerif.Model.PyConv\n"
                + "".join("import CtrlVerif.Generated.%s\n" % d for d in deps)
                + "\nnamespace CtrlVerif.Generated.Conv\n\nopen CtrlVerif\n\n"
                + "variable {K : Type} [Field K] [DecidableEq K]\n\n"
                + "\n".join(texts[out]) + "\nend CtrlVerif.Generated.Conv\n")
        p = os.path.join(gen_dir, out)
        old = open(p).read() if os.path.exists(p) else None
        if old != text:
            with open(p, "w") as f:
                f.write(text)
    return problems, info


if __name__ == "__main__":
    import sys
    probs, inf = regenerate(sys.argv[1], sys.argv[2])
    for p in probs:
        print("PROBLEM", p)
    for k, v in inf.items():
        print(k, v["sha"][:16], v["params_used"])
