"""Translator Python `ast` -> Lean 4 for the flat-system code of property C20 (DESIGN §10.3 /
notes/NOTES-py2lean-flat.md): `LinearFlatSystem.__init__`, `forward`, `reverse`
(control/flatsys/linflat.py), `BasisFamily.var_ncoefs` (basis.py), `_basis_flag_matrix`, the
boundary-condition statements of `point_to_point` and the slicing of `alpha` (flatsys.py) and
`SystemTrajectory.eval` (systraj.py).  It regenerates `lean/CtrlVerif/Generated/Flat*.lean` from the
source text of the tree the check runs against on every run; `Props/C20GenFlat*.lean` prove the
hand-written model (`Model/Flat.lean`, `Model/FlatMulti.lean`: `LinFlat.construct`, `forward`,
`reverse`, `flagMatrixM`, `p2p`, `trajEval`) EQUAL to the generated functions, so a semantic edit of the
source breaks a proof obligation and an edit that leaves the supported subset makes the translation fail
(reported the same way: the emitted definition is then `.error .notImplemented` for every argument,
which cannot equal the model).

Built on `core/py2lean_canon.py` (class `Translator`, itself a subclass of the matrix translator of
`core/py2lean_ss.py`: expressions over the untyped matrix layer `PMat K`, static types, effects bound
left to right in Python's order, `if` joins, continuation style for branches that raise, `for` loops as
`List.foldlM` with the re-assigned variables as the state, in-place element assignment only into
freshly allocated arrays).  Both are imported, not edited.  Added here:

  functions   METHODS of classes (`self` is a typed parameter whose attributes are read through the
              primitive file), a CONSTRUCTOR (`__init__`: `self.X = e` are the fields of the returned
              object, `StateSpace.__init__(self, linsys, **kwargs)` is its StateSpace part), STATEMENT
              BLOCKS of a large function located by their shape (`point_to_point`).
  values      1-D float arrays and lists of them (`List K`, `List (List K)`), basis objects (`Basis K`),
              `LinearFlatSystem` / `SystemTrajectory` objects (`PyLinFlat K`, `PyTraj K`), callables that
              are PARAMETERS (`sys.forward`, `system.reverse`, `numpy.linalg.lstsq`).
  statements  `x op= e`, `x.append(e)`, `x[i][k] = e` / `x[i][k] += e` on a list of arrays created in the
              function, `X[:, j] = v`, `a, b = f(...)`, `X[:, j], Y[:, j] = f(...)`, `for i, v in
              enumerate(xs)`, `for j, k in itertools.product(range(a), range(b))`, `for t in xs`.
  expressions `np.reshape`, `.item()`, `np.array` (a copy), `np.shape`, `np.zeros(n)`, `np.linalg.inv`,
              `X[::-1, ::]`, `X[i, ::-1]`, `xs[a:b]`, `@` with 1-D operands, float arithmetic, `len`,
              `sum`, list displays and comprehensions, `np.vstack`, `np.hstack`, `X.size`,
              `control.isctime / issiso / reachable_form` (the last one is the function GENERATED from
              control/canonical.py for property C15), `basis.var_ncoefs`, `basis.eval_deriv` (the
              functions GENERATED from poly.py / bezier.py, chosen by the class of the basis object).
The meaning of every emitted primitive is fixed in `Model/PyMat.lean`, `Model/PyCanon.lean`,
`Model/PyArith.lean`, `Model/DtPred.lean` and the ONE new hand-written file `Model/PyFlat.lean`
(trusted, like the translator).  Output is deterministic (no timestamps), carries the sha256 of each
function text and is rewritten only when changed.
"""
import ast
import copy
import hashlib
import os

from core.py2lean import Unsupported
from core import py2lean_canon
from core.py2lean_canon import lean_name
from core.py2lean_ss import V, _ind, SS, MAT, NUM, NAT, INT, DT, PROP, SHAPE, module_bindings
from core.py2lean_canon import BOOL, OBJ, NUMLIST, ILIST, PYVAL

LINFLAT, FLAG, BASIS, TRAJ, NONE, SELFOBJ, FLATSYS, TRAJOBJ, SYSN = \
    "LINFLAT", "FLAG", "BASIS", "TRAJ", "NONE", "SELFOBJ", "FLATSYS", "TRAJOBJ", "SYSN"
# the Lean spelling of the static types (the table of the base translator is extended, nothing in it
# is changed: the base translators never produce these tags)
py2lean_canon.LEAN_TY.update({FLAG: "List (List K)", LINFLAT: "PyLinFlat K", BASIS: "Basis K",
                              TRAJ: "PyTraj K"})
LEAN_TY = py2lean_canon.LEAN_TY

LINFLAT_PY = "control/flatsys/linflat.py"
FLATSYS_PY = "control/flatsys/flatsys.py"
BASIS_PY = "control/flatsys/basis.py"
SYSTRAJ_PY = "control/flatsys/systraj.py"

IMPORTS = {"np": ("import", "numpy"), "control": ("import", "control"), "itertools": ("import", "itertools"),
           "warnings": ("import", "warnings"), "StateSpace": ("from", "statesp")}
SELF_FIELDS = [("sys", SS), ("F", NUMLIST), ("T", MAT), ("Tinv", MAT), ("Cf", MAT)]
TRAJ_FIELDS = [("nstates", NAT), ("ninputs", NAT), ("basis", BASIS), ("coeffs", FLAG), ("flaglen", ILIST)]


def classify(cls, msg):
    """the rule of harness/families/c20.py: classify_exc, applied to the class and the literal message"""
    if cls in ("ControlNotImplemented", "NotImplementedError"):
        return "notImplemented"
    if cls == "IndexError":
        return "indexRange"
    if cls == "TypeError":
        return "badArg"
    if cls == "ValueError":
        if "not controllable" in msg or "singular" in msg:
            return "illPosed"
        if "too small" in msg or "index too high" in msg:
            return "badArg"
        return "shape"
    raise Unsupported("raise of %s" % cls)


class Translator(py2lean_canon.Translator):
    def __init__(self, job, bindings, available):
        super().__init__(job, bindings, available)
        self.listfresh = set()        # lists of arrays created in this function (element assignment allowed)
        self.methods = job.get("methods", {})

    # -- helpers --------------------------------------------------------------------------------
    def probe(self, fn):
        """run `fn(pre)`; on Unsupported / None restore the temporary counter"""
        save = self.ntmp
        pre = []
        try:
            r = fn(pre)
        except Unsupported:
            self.ntmp = save
            raise
        if r is None:
            self.ntmp = save
        return r, pre

    def is_control_attr(self, node, name=None):
        """`control.<name>`"""
        if isinstance(node, ast.Attribute) and isinstance(node.value, ast.Name) and node.value.id == "control" \
                and (name is None or node.attr == name):
            self.need("control", IMPORTS["control"])
            return True
        return False

    def as_numlist(self, v):
        if v.ty == NUMLIST:
            return v.code
        raise Unsupported("expected a 1-D array, got %s" % v.ty)

    # -- expressions ----------------------------------------------------------------------------
    def expr(self, node, env, pre):
        if isinstance(node, ast.List) and node.elts:
            vs = [self.expr(e, env, pre) for e in node.elts]
            if all(v.ty == NUMLIST for v in vs):
                return V("[" + ", ".join(v.code for v in vs) + "]", FLAG)
            if all(v.ty == MAT for v in vs):
                return V(None, "MATLIST", items=vs)
            raise Unsupported("list display of %s" % [v.ty for v in vs])
        return super().expr(node, env, pre)

    def attribute(self, node, env, pre):
        v = self.expr(node.value, env, pre)
        a = node.attr
        if v.ty == LINFLAT:
            if a in ("A", "B", "C", "D"):
                return V("(PySS.%s %s.sys)" % (a, v.code), MAT)
            if a in ("nstates", "ninputs", "noutputs"):
                return V("%s.sys.%s" % (v.code, {"nstates": "n", "ninputs": "m", "noutputs": "p"}[a]), NAT)
            if a == "dt":
                return V("%s.sys.dt" % v.code, DT)
            if a == "F":
                return V("%s.F" % v.code, NUMLIST)
            if a in ("T", "Tinv", "Cf"):
                return V("%s.%s" % (v.code, a), MAT)
        if v.ty == BASIS:
            if a == "N":
                return V("(PyFlat.basisN %s)" % v.code, NAT)
            if a == "nvars":
                self.notes.append("`%s.nvars` is None (PolyFamily / BezierFamily objects)" % ast.unparse(node.value))
                return V("PyVal.none", NONE)
        if v.ty == TRAJ:
            if a in ("nstates", "ninputs"):
                return V("%s.%s" % (v.code, a), NAT)
            if a == "basis":
                return V("%s.basis" % v.code, BASIS)
            if a == "coeffs":
                return V("%s.coeffs" % v.code, FLAG)
            if a == "flaglen":
                return V("%s.flaglen" % v.code, ILIST)
            if a == "system":
                return V("system", "TRAJSYS")
        if v.ty == FLATSYS and a in ("nstates", "ninputs"):
            return V("%s_%s" % (v.code, a), NAT)
        if v.ty == NUMLIST and a == "size":
            return V("%s.length" % v.code, NAT)
        # re-dispatch without evaluating node.value twice: the base class evaluates it again, which is
        # harmless for the effect-free receivers it supports
        if v.ty in (SS, MAT, ILIST):
            return super().attribute(node, env, [])
        raise Unsupported("attribute .%s of %s" % (a, v.ty))

    def slice_opt(self, node, env, pre):
        if node is None:
            return "none"
        v = self.expr(node, env, pre)
        return "(some %s)" % self.as_int(v)

    def is_rev_slice(self, e):
        return isinstance(e, ast.Slice) and e.lower is None and e.upper is None and e.step is not None \
            and ast.unparse(e.step) == "-1"

    def is_full_slice(self, e):
        return isinstance(e, ast.Slice) and e.lower is None and e.upper is None and e.step is None

    def subscript(self, node, env, pre):
        sl = node.slice
        # X[::-1, ::] and X[i, ::-1] on a 2-D array
        if isinstance(sl, ast.Tuple) and len(sl.elts) == 2 and (self.is_rev_slice(sl.elts[0]) or self.is_rev_slice(sl.elts[1])):
            v = self.expr(node.value, env, pre)
            if v.ty != MAT:
                raise Unsupported("subscript %s of %s" % (ast.unparse(sl), v.ty))
            r, c = sl.elts
            if self.is_rev_slice(r) and self.is_full_slice(c):
                return V("(PyFlat.flipRows %s)" % v.code, MAT)
            if self.is_rev_slice(c) and not isinstance(r, ast.Slice):
                i = self.expr(r, env, pre)
                t = self.bind(pre, "PyFlat.row %s %s" % (v.code, self.as_int(i)), NUMLIST)
                return V("(List.reverse %s)" % t.code, NUMLIST)
            raise Unsupported("subscript %s" % ast.unparse(sl))
        if not isinstance(sl, ast.Tuple):
            def go(p):
                v = self.expr(node.value, env, p)
                if v.ty == FLAG and not isinstance(sl, ast.Slice):
                    i = self.expr(sl, env, p)
                    return self.bind(p, "PyArith.getItem %s %s" % (v.code, self.as_int(i)), NUMLIST)
                if v.ty == ILIST and not isinstance(sl, ast.Slice):
                    i = self.expr(sl, env, p)
                    return self.bind(p, "PyArith.getItem %s %s" % (v.code, self.as_int(i)), INT)
                if v.ty in (NUMLIST, FLAG, ILIST) and isinstance(sl, ast.Slice):
                    if sl.step is not None:
                        raise Unsupported("slice step")
                    lo = self.slice_opt(sl.lower, env, p)
                    hi = self.slice_opt(sl.upper, env, p)
                    return V("(PyFlat.sliceList %s %s %s)" % (v.code, lo, hi), v.ty)
                return None
            r, p = self.probe(go)
            if r is not None:
                pre.extend(p)
                return r
        return super().subscript(node, env, pre)

    def binop(self, node, env, pre):
        op = node.op

        def go(p):
            a = self.expr(node.left, env, p)
            b = self.expr(node.right, env, p)
            num = lambda v: v.ty == NUM
            numlike = lambda v: v.ty in (NUM, INT, NAT)
            if isinstance(op, ast.MatMult):
                if a.ty == MAT and b.ty == NUMLIST:
                    return self.bind(p, "PyFlat.matVec %s %s" % (a.code, b.code), NUMLIST)
                if a.ty == NUMLIST and b.ty == NUMLIST:
                    return self.bind(p, "PyFlat.dot %s %s" % (a.code, b.code), NUM)
                return None
            if isinstance(op, (ast.Add, ast.Sub, ast.Mult)) and (num(a) or num(b)) and numlike(a) and numlike(b):
                sym = {ast.Add: "+", ast.Sub: "-", ast.Mult: "*"}[type(op)]
                return V("(%s %s %s)" % (self.as_num(a), sym, self.as_num(b)), NUM)
            if isinstance(op, ast.Mult) and a.ty in (INT, NAT) and b.ty in (INT, NAT) and not (a.ty == NAT and b.ty == NAT):
                return V("(%s * %s)" % (self.as_int(a), self.as_int(b)), INT)
            return None
        r, p = self.probe(go)
        if r is not None:
            pre.extend(p)
            return r
        return super().binop(node, env, pre)

    def listcomp(self, node, env, pre):
        if len(node.generators) == 1 and not node.generators[0].ifs and not node.generators[0].is_async \
                and isinstance(node.generators[0].target, ast.Name):
            g = node.generators[0]
            x = g.target.id
            if x in env:
                raise Unsupported("the comprehension variable `%s` is already bound" % x)
            # [e for i in range(n)] with an int-valued e (possibly effectful)
            if isinstance(g.iter, ast.Call) and self.dotted(g.iter.func) == "range" and len(g.iter.args) == 1 \
                    and not g.iter.keywords:
                if "range" in env or "range" in self.bindings:
                    raise Unsupported("`range` is re-bound")
                n = self.expr(g.iter.args[0], env, pre)
                benv = dict(env)
                benv[x] = V(x, INT)
                bpre = []
                e = self.expr(node.elt, benv, bpre)
                if e.ty not in (INT, NAT):
                    raise Unsupported("comprehension element of type %s" % e.ty)
                body = bpre + ["pure %s" % self.as_int(e)]
                t = self.tmp()
                pre.append("let %s ← List.mapM (fun (%s : Int) => ((do" % (t, x))
                pre.extend(_ind(body, 4))
                pre.append("    : Except Err Int))) (PyArith.range (0 : Int) %s)" % self.as_int(n))
                return V(t, ILIST)
            # [len(f) for f in flag]
            it, p = self.probe(lambda p: self.expr(g.iter, env, p))
            if it.ty == FLAG:
                pre.extend(p)
                benv = dict(env)
                benv[x] = V(x, NUMLIST)
                bpre = []
                e = self.expr(node.elt, benv, bpre)
                if bpre or e.ty not in (INT, NAT):
                    raise Unsupported("comprehension element %s" % ast.unparse(node.elt)[:40])
                return V("(List.map (fun (%s : List K) => %s) %s)" % (x, self.as_int(e), it.code), ILIST)
            self.ntmp -= len(p)
        return super().listcomp(node, env, pre)

    def method_call(self, node, env, pre):
        """a call `recv.m(args)` of a method listed in the job (a generated function or a parameter)"""
        recv = node.func.value
        m = node.func.attr
        for (rty, name), spec in self.methods.items():
            if name != m:
                continue
            def go(p):
                r = self.expr(recv, env, p)
                return r if r.ty == rty else None
            r, p = self.probe(go)
            if r is None:
                continue
            pre.extend(p)
            lean, ptys, rty_out, ignore_kw, pass_recv = spec
            kws = {k.arg for k in node.keywords}
            if not kws <= set(ignore_kw):
                raise Unsupported("keywords %s of %s" % (sorted(kws - set(ignore_kw)), m))
            args = list(node.args)
            if len(args) != len(ptys):
                raise Unsupported("call %s with %d arguments" % (m, len(args)))
            codes = []
            for a, t in zip(args, ptys):
                if t is None:
                    continue                  # an argument the callee does not read (`params`, `var`)
                codes.append(self.coerce(self.expr(a, env, pre), t))
            head = [lean] + ([r.code] if pass_recv else [])
            if isinstance(rty_out, list):
                names = [self.tmp() for _ in rty_out]
                pre.append("let (%s) ← %s" % (", ".join(names), " ".join(head + codes)))
                return V(None, "PAIR", items=[V(nm, t) for nm, t in zip(names, rty_out)])
            return self.bind(pre, " ".join(head + codes), rty_out)
        return None

    def call(self, node, env, pre):
        f = self.dotted(node.func)
        args, kws = node.args, {k.arg: k.value for k in node.keywords}
        if isinstance(node.func, ast.Attribute) and self.methods:
            r = self.method_call(node, env, pre)
            if r is not None:
                return r
        if isinstance(node.func, ast.Attribute) and node.func.attr == "item" and not args and not kws:
            v = self.expr(node.func.value, env, pre)
            if v.ty == MAT:
                return self.bind(pre, "PyFlat.item %s" % v.code, NUM)
            raise Unsupported(".item() of %s" % v.ty)
        if self.is_control_attr(node.func) and not kws:
            name = node.func.attr
            if name == "isctime" and len(args) == 1:
                v = self.expr(args[0], env, pre)
                if v.ty == SS:
                    t = self.bind(pre, "DtPred.isctimeFn (SysArg.sys %s.dt) Dt.none false" % v.code, BOOL)
                    return V("(%s = true)" % t.code, PROP)
            if name == "issiso" and len(args) == 1:
                v = self.expr(args[0], env, pre)
                if v.ty == SS:
                    return V("(PySS.issiso %s = true)" % v.code, PROP)
            raise Unsupported("call %s" % ast.unparse(node)[:80])
        if f == "__append__" and len(args) == 2:
            l = self.expr(args[0], env, pre)
            e = self.expr(args[1], env, pre)
            if l.ty == FLAG and e.ty == NUMLIST:
                return V("(%s ++ [%s])" % (l.code, e.code), FLAG)
            if l.ty == ILIST and e.ty in (INT, NAT):
                return V("(%s ++ [%s])" % (l.code, self.as_int(e)), ILIST)
            raise Unsupported("append of a %s to a %s" % (e.ty, l.ty))
        if f == "np.array" and len(args) == 1 and not kws:
            self.need("np", IMPORTS["np"])
            v = self.expr(args[0], env, pre)
            if v.ty in (MAT, NUMLIST):
                return v                      # a copy: the same value
            raise Unsupported("np.array of %s" % v.ty)
        if f == "np.shape" and len(args) == 1 and not kws:
            self.need("np", IMPORTS["np"])
            v = self.expr(args[0], env, pre)
            if v.ty == MAT:
                return V(None, SHAPE, items=[V("%s.r" % v.code, NAT), V("%s.c" % v.code, NAT)])
            raise Unsupported("np.shape of %s" % v.ty)
        if f == "np.zeros" and len(args) == 1 and not kws and not isinstance(args[0], ast.Tuple):
            self.need("np", IMPORTS["np"])
            v = self.expr(args[0], env, pre)
            if v.ty == SHAPE and len(v.items) == 2:
                r, c = v.items
                return V("(PMat.zeros %s %s)" % (self.as_nat(r), self.as_nat(c)), MAT)
            if v.ty in (INT, NAT):
                return self.bind(pre, "PyFlat.zeros1 %s" % self.as_int(v), NUMLIST)
            raise Unsupported("np.zeros of %s" % v.ty)
        if f == "np.linalg.inv" and len(args) == 1 and not kws:
            self.need("np", IMPORTS["np"])
            v = self.expr(args[0], env, pre)
            if v.ty == MAT:
                return self.bind(pre, "PMat.inv %s" % v.code, MAT)
        if f == "np.reshape" and len(args) == 2 and not kws:
            self.need("np", IMPORTS["np"])
            v = self.expr(args[0], env, pre)
            shp = args[1]
            if isinstance(shp, ast.Tuple) and len(shp.elts) == 2:
                s = [ast.unparse(e) for e in shp.elts]
                if v.ty == NUMLIST and s == ["-1", "1"]:
                    return V("(PyFlat.colOf %s)" % v.code, MAT)
                if v.ty == NUMLIST and s == ["1", "-1"]:
                    return V("(PyFlat.rowOf %s)" % v.code, MAT)
                raise Unsupported("np.reshape(%s, %s)" % (v.ty, ast.unparse(shp)))
            n = self.expr(shp, env, pre)
            if n.ty == NAT and v.ty == NUMLIST:
                return self.bind(pre, "PyFlat.reshapeVec %s %s" % (v.code, n.code), NUMLIST)
            if n.ty == NAT and v.ty == NUM:
                return self.bind(pre, "PyFlat.reshapeNum %s %s" % (v.code, n.code), NUMLIST)
            raise Unsupported("np.reshape(%s, %s)" % (v.ty, n.ty))
        if f == "len" and len(args) == 1 and not kws:
            r, p = self.probe(lambda p: (lambda v: v if v.ty in (NUMLIST, FLAG) else None)(self.expr(args[0], env, p)))
            if r is not None:
                pre.extend(p)
                return V("%s.length" % r.code, NAT)
        if f == "sum" and len(args) == 1 and not kws:
            if "sum" in env or "sum" in self.bindings:
                raise Unsupported("`sum` is re-bound")
            v = self.expr(args[0], env, pre)
            if v.ty == ILIST:
                return V("(List.sum %s)" % v.code, INT)
            raise Unsupported("sum of %s" % v.ty)
        if f == "np.vstack" and len(args) == 1 and not kws:
            self.need("np", IMPORTS["np"])
            v = self.expr(args[0], env, pre)
            if v.ty == "MATLIST" and len(v.items) == 2:
                return self.bind(pre, "PMat.vcat %s %s" % (v.items[0].code, v.items[1].code), MAT)
            raise Unsupported("np.vstack of %s" % v.ty)
        if f == "np.hstack" and len(args) == 1 and not kws:
            self.need("np", IMPORTS["np"])
            v = self.expr(args[0], env, pre)
            if v.ty == FLAG:
                return V("(List.flatten %s)" % v.code, NUMLIST)
            raise Unsupported("np.hstack of %s" % v.ty)
        return super().call(node, env, pre)

    def coerce(self, v, t):
        if t == SYSN:
            if v.ty == FLATSYS:
                return "%s_ninputs" % v.code
            raise Unsupported("argument of type %s where a flat system is expected" % v.ty)
        if t == NUM and v.ty in (INT, NAT):
            return self.as_num(v)
        if t == INT and v.ty == NAT:
            return self.as_int(v)
        if v.ty == t:
            return v.code
        return super().coerce(v, t)

    # -- tests ----------------------------------------------------------------------------------
    def test(self, node, env, pre):
        if isinstance(node, ast.Compare) and len(node.ops) == 1 and isinstance(node.ops[0], (ast.Is, ast.IsNot)) \
                and isinstance(node.comparators[0], ast.Constant) and node.comparators[0].value is None:
            r, p = self.probe(lambda p: (lambda v: v if v.ty == NONE else None)(self.expr(node.left, env, p)))
            if r is not None:
                st = isinstance(node.ops[0], ast.Is)
                return st, ("True" if st else "False")
        return super().test(node, env, pre)

    # -- statements -----------------------------------------------------------------------------
    def raise_stmt(self, s):
        e = s.exc
        if isinstance(e, ast.Call) and self.is_control_attr(e.func) and len(e.args) == 1 and not e.keywords:
            m = e.args[0]
            if isinstance(m, ast.Constant) and isinstance(m.value, str):
                return "throw Err.%s" % classify(e.func.attr, m.value)
        if isinstance(e, ast.Call) and isinstance(e.func, ast.Name) and len(e.args) == 1 and not e.keywords:
            cls = e.func.id
            if cls in self.bindings or cls in self.locals:
                raise Unsupported("exception class `%s` is re-bound" % cls)
            m = e.args[0]
            if isinstance(m, ast.Constant) and isinstance(m.value, str):
                return "throw Err.%s" % classify(cls, m.value)
        raise Unsupported("raise %s" % ast.unparse(s)[:60])

    def is_append(self, s):
        return isinstance(s, ast.Expr) and isinstance(s.value, ast.Call) and isinstance(s.value.func, ast.Attribute) \
            and s.value.func.attr == "append" and len(s.value.args) == 1 and not s.value.keywords \
            and isinstance(s.value.func.value, (ast.Name, ast.Attribute))

    def rewrite(self, s):
        """statement forms that are sugar for an assignment"""
        if self.is_append(s):
            tgt = copy.deepcopy(s.value.func.value)
            load = copy.deepcopy(tgt)
            tgt.ctx = ast.Store()
            new = ast.Assign(targets=[tgt], value=ast.Call(func=ast.Name(id="__append__", ctx=ast.Load()),
                                                           args=[load, s.value.args[0]], keywords=[]))
            return ast.copy_location(ast.fix_missing_locations(new), s)
        if isinstance(s, ast.AugAssign) and isinstance(s.op, (ast.Add, ast.Sub, ast.Mult)):
            load = copy.deepcopy(s.target)
            for n in ast.walk(load):
                if hasattr(n, "ctx"):
                    n.ctx = ast.Load()
            new = ast.Assign(targets=[s.target], value=ast.BinOp(left=load, op=s.op, right=s.value))
            return ast.copy_location(ast.fix_missing_locations(new), s)
        return s

    def seq(self, stmts, env, tail):
        return super().seq([self.rewrite(s) for s in stmts], env, tail)

    def return_stmt(self, node, env):
        if isinstance(node, ast.Name) and node.id in env and env[node.id].ty == SELFOBJ:
            codes = []
            for a, ty in SELF_FIELDS:
                k = node.id + "." + a
                if k not in env:
                    raise Unsupported("the attribute `%s` is not assigned by the constructor" % k)
                if env[k].ty != ty:
                    raise Unsupported("the attribute `%s` is a %s, expected %s" % (k, env[k].ty, ty))
                codes.append(env[k].code)
            return ["pure ⟨%s⟩" % ", ".join(codes)]
        if isinstance(node, ast.Name) and node.id in env and env[node.id].ty == TRAJOBJ:
            codes = []
            for a, ty in TRAJ_FIELDS:
                k = node.id + "." + a
                if k not in env or env[k].ty != ty:
                    raise Unsupported("the attribute `%s` of the trajectory" % k)
                codes.append(env[k].code)
            return ["pure ⟨%s⟩" % ", ".join(codes)]
        return super().return_stmt(node, env)

    def assigned(self, stmts):
        out = super().assigned(stmts)
        for s in stmts:
            for n in ast.walk(s):
                if self.is_append(n):
                    v = n.value.func.value
                    if isinstance(v, ast.Name):
                        out.add(v.id)
                    elif isinstance(v.value, ast.Name):
                        out.add(v.value.id + "." + v.attr)
        return out

    def loop_source(self, it, target, env, pre):
        """-> (Lean list, Lean element type, [(python name, static type, projection)])"""
        f = self.dotted(it.func) if isinstance(it, ast.Call) else None
        for nm in ("range", "enumerate"):
            if f == nm and (nm in env or nm in self.bindings):
                raise Unsupported("`%s` is re-bound" % nm)
        names = None
        if isinstance(target, ast.Name):
            names = [target.id]
        elif isinstance(target, ast.Tuple) and all(isinstance(x, ast.Name) for x in target.elts):
            names = [x.id for x in target.elts]
        if names is None:
            raise Unsupported("loop target %s" % ast.unparse(target)[:40])
        if f == "range" and len(it.args) in (1, 2) and not it.keywords and len(names) == 1:
            bounds = [self.expr(a, env, pre) for a in it.args]
            lo = "(0 : Int)" if len(bounds) == 1 else self.as_int(bounds[0])
            return "(PyArith.range %s %s)" % (lo, self.as_int(bounds[-1])), "Int", [(names[0], INT, "")]
        if f == "enumerate" and len(it.args) == 1 and not it.keywords and len(names) == 2:
            xs = self.expr(it.args[0], env, pre)
            ety = {ILIST: INT, NUMLIST: NUM, FLAG: NUMLIST}.get(xs.ty)
            if ety is None:
                raise Unsupported("enumerate of %s" % xs.ty)
            return "(PyFlat.enumerate %s)" % xs.code, "Int × %s" % LEAN_TY[ety], \
                [(names[0], INT, ".1"), (names[1], ety, ".2")]
        if f == "itertools.product" and len(it.args) == 2 and not it.keywords and len(names) == 2:
            self.need("itertools", IMPORTS["itertools"])
            rs = []
            for a in it.args:
                if not (isinstance(a, ast.Call) and self.dotted(a.func) == "range" and len(a.args) == 1 and not a.keywords):
                    raise Unsupported("itertools.product over %s" % ast.unparse(a)[:40])
                if "range" in env or "range" in self.bindings:
                    raise Unsupported("`range` is re-bound")
                rs.append("(PyArith.range (0 : Int) %s)" % self.as_int(self.expr(a.args[0], env, pre)))
            return "(PyFlat.product %s %s)" % tuple(rs), "Int × Int", [(names[0], INT, ".1"), (names[1], INT, ".2")]
        if len(names) == 1:
            xs = self.expr(it, env, pre)
            if xs.ty == NUMLIST:
                return xs.code, "K", [(names[0], NUM, "")]
        raise Unsupported("loop over %s" % ast.unparse(it)[:60])

    def for_stmt(self, s, env):
        if s.orelse:
            raise Unsupported("for ... else")
        pre = []
        lst, ety, vars_ = self.loop_source(s.iter, s.target, env, pre)
        for nm, _, _ in vars_:
            if nm in env:
                raise Unsupported("the loop variable `%s` is already bound" % nm)
        body = [self.rewrite(x) for x in s.body]
        asg = self.assigned(body)
        carried = [k for k in env if k in asg]      # in the order of their first definition (renaming-proof)
        if not carried:
            raise Unsupported("a loop without effect")
        state = [(k, env[k].ty) for k in carried]
        for k, t in state:
            if t in (TRAJOBJ, SELFOBJ, OBJ):
                raise Unsupported("an object re-bound inside a loop")
        benv = dict(env)
        elem = self.tmp() if len(vars_) > 1 else vars_[0][0]
        head = []
        if len(vars_) > 1:
            for nm, ty, proj in vars_:
                head.append("let %s : %s := %s%s" % (nm, LEAN_TY[ty], elem, proj))
        for nm, ty, _ in vars_:
            benv[nm] = V(nm, ty)
        if len(state) == 1:
            var = lean_name(state[0][0])
        else:
            var = self.tmp()
            for n_, (k, t) in enumerate(state):
                proj = "1" if n_ == 0 else ("2." * n_ + ("1" if n_ < len(state) - 1 else ""))
                proj = proj.rstrip(".")
                head.append("let %s : %s := %s.%s" % (lean_name(k), LEAN_TY[t], var, proj))
        for k, t in state:
            benv[k] = V(lean_name(k), t)
        fresh0, lfresh0 = set(self.fresh), set(self.listfresh)
        lines_body, ended = self.seq(body, benv, state)
        if ended:
            raise Unsupported("a loop body that always returns / raises")
        for k, t in state:
            if benv[k].ty != t:
                raise Unsupported("`%s` changes its type in the loop" % k)
        self.fresh = fresh0 & self.fresh
        self.listfresh = lfresh0 & self.listfresh
        sty = " × ".join(LEAN_TY[t] for _, t in state)
        init = env[carried[0]].code if len(state) == 1 else "(" + ", ".join(env[k].code for k in carried) + ")"
        pat = lean_name(carried[0]) if len(state) == 1 else "(" + ", ".join(lean_name(k) for k in carried) + ")"
        lines = pre + ["let %s ← List.foldlM (fun (%s : %s) (%s : %s) => ((do" % (pat, var, sty, elem, ety)] \
            + _ind(head + lines_body, 4) + ["    : Except Err (%s)))) %s %s" % (sty, init, lst)]
        for k, t in state:
            env[k] = V(lean_name(k), t)
            self.locals.add(k)
        return lines

    def set_nested(self, x, idx_nodes, value_node, env):
        """`x[i][k] = e` for a list of 1-D arrays `x` created in this function: value first, then the
        two indices (Python's order)"""
        key = x.id
        if key not in env or env[key].ty != FLAG:
            raise Unsupported("item assignment %s" % key)
        if key not in self.listfresh:
            raise Unsupported("in-place assignment into `%s`, whose arrays were not allocated in this function" % key)
        pre = []
        v = self.expr(value_node, env, pre)
        if v.ty not in (NUM, INT, NAT):
            raise Unsupported("element assignment of a %s" % v.ty)
        i = self.expr(idx_nodes[0], env, pre)
        row = self.bind(pre, "PyArith.getItem %s %s" % (env[key].code, self.as_int(i)), NUMLIST)
        k = self.expr(idx_nodes[1], env, pre)
        new = self.bind(pre, "PyArith.setItem %s %s %s" % (row.code, self.as_int(k), self.as_num(v)), NUMLIST)
        lines = pre + ["let %s ← PyArith.setItem %s %s %s" % (lean_name(key), env[key].code, self.as_int(i), new.code)]
        env[key] = V(lean_name(key), FLAG)
        return lines

    def is_alloc1(self, node):
        """`np.zeros(n)` with a scalar argument: a freshly allocated 1-D array"""
        return isinstance(node, ast.Call) and self.dotted(node.func) == "np.zeros" and len(node.args) == 1 \
            and not node.keywords and not isinstance(node.args[0], ast.Tuple)

    def assign_stmt(self, s, env):
        if len(s.targets) != 1:
            raise Unsupported("chained assignment")
        t = s.targets[0]
        val = s.value
        # self.X = e inside the constructor
        if isinstance(t, ast.Attribute) and isinstance(t.value, ast.Name) and t.value.id in env \
                and env[t.value.id].ty == SELFOBJ:
            want = dict(SELF_FIELDS)
            if t.attr not in want or t.attr == "sys":
                raise Unsupported("assignment to the attribute .%s" % t.attr)
            pre = []
            v = self.expr(val, env, pre)
            if v.ty != want[t.attr]:
                raise Unsupported("assignment of a %s to .%s" % (v.ty, t.attr))
            return self.let(t.value.id + "." + t.attr, v, env, pre)
        # the StateSpace part of the object under construction (from `StateSpace.__init__(self, sys, **kwargs)`)
        if isinstance(t, ast.Name) and t.id == "__ss_part__":
            pre = []
            v = self.expr(val, env, pre)
            if v.ty != SS:
                raise Unsupported("StateSpace.__init__(self, %s)" % v.ty)
            self.notes.append("`StateSpace.__init__(self, %s, **kwargs)`: the StateSpace part of the object is `%s` "
                              "(names and labels given through `kwargs` are not modelled)" % (
                                  ast.unparse(val), ast.unparse(val)))
            return self.let(self.job["params"][0][0] + ".sys", v, env, pre)
        # x[i][k] = e
        if isinstance(t, ast.Subscript) and isinstance(t.value, ast.Subscript) and isinstance(t.value.value, ast.Name):
            return self.set_nested(t.value.value, [t.value.slice, t.slice], val, env)
        # X[:, j] = v
        if isinstance(t, ast.Subscript) and isinstance(t.slice, ast.Tuple) and len(t.slice.elts) == 2 \
                and self.is_full_slice(t.slice.elts[0]) and not isinstance(t.slice.elts[1], ast.Slice):
            key = self.key_of(t.value, env)
            if key is None or env[key].ty != MAT:
                raise Unsupported("item assignment %s" % ast.unparse(t)[:60])
            if key not in self.fresh:
                raise Unsupported("in-place assignment to `%s`, which is not a freshly allocated array" % key)
            pre = []
            v = self.expr(val, env, pre)
            j = self.expr(t.slice.elts[1], env, pre)
            lines = pre + ["let %s ← PyFlat.setCol %s %s %s" % (lean_name(key), env[key].code, self.as_int(j),
                                                                 self.as_numlist(v))]
            env[key] = V(lean_name(key), MAT)
            return lines
        # names the model does not look at (`params`): assignments among them are dropped
        if isinstance(t, ast.Name) and t.id in self.job.get("opaque_names", ()):
            used = {n.id for n in ast.walk(val) if isinstance(n, ast.Name)}
            allowed = set(self.job.get("opaque_names", ())) | {k for k, v in env.items() if v.ty == FLATSYS}
            if not used <= allowed:
                raise Unsupported("assignment to `%s` from %s" % (t.id, sorted(used - allowed)))
            self.notes.append("`%s` is dropped (`%s` is handed on to the functions of the system, which are "
                              "parameters here)" % (ast.unparse(s).replace("\n", " ")[:100], t.id))
            return []
        # alpha, residuals, rank, s = np.linalg.lstsq(M, Z, rcond=None)
        if isinstance(t, ast.Tuple) and isinstance(val, ast.Call) and self.dotted(val.func) == "np.linalg.lstsq":
            self.need("np", IMPORTS["np"])
            kws = {k.arg: ast.unparse(k.value) for k in val.keywords}
            if len(t.elts) != 4 or not all(isinstance(x, ast.Name) for x in t.elts) or len(val.args) != 2 \
                    or kws != {"rcond": "None"} or "lstsq" not in env:
                raise Unsupported("call %s" % ast.unparse(s)[:80])
            pre = []
            m = self.expr(val.args[0], env, pre)
            z = self.expr(val.args[1], env, pre)
            if m.ty != MAT or z.ty != NUMLIST:
                raise Unsupported("lstsq(%s, %s)" % (m.ty, z.ty))
            names = [x.id for x in t.elts]
            lines = pre + ["let (%s, %s) ← %s %s %s" % (names[0], names[2], env["lstsq"].code, m.code, z.code)]
            env[names[0]] = V(names[0], NUMLIST)
            env[names[2]] = V(names[2], INT)
            for nm in (names[1], names[3]):
                env.pop(nm, None)         # residuals, singular values: not provided (any use fails)
            for nm in names:
                self.locals.add(nm)
            self.notes.append("`numpy.linalg.lstsq` is the parameter `lstsq` (solution and rank; `%s`, `%s` are not "
                              "available)" % (names[1], names[3]))
            return lines
        # X[:, j], Y[:, j] = f(...)   (a call returning a pair)
        if isinstance(t, ast.Tuple) and len(t.elts) == 2 and all(isinstance(x, ast.Subscript) for x in t.elts) \
                and isinstance(val, ast.Call):
            pre = []
            v = self.expr(val, env, pre)
            if v.ty != "PAIR" or [x.ty for x in v.items] != [NUMLIST, NUMLIST]:
                raise Unsupported("assignment %s" % ast.unparse(s)[:60])
            lines = pre
            for tgt, item in zip(t.elts, v.items):
                one = ast.Assign(targets=[tgt], value=ast.Name(id="__pair_item__", ctx=ast.Load()))
                ast.copy_location(ast.fix_missing_locations(one), s)
                env["__pair_item__"] = item
                lines = lines + self.assign_stmt(one, env)
                env.pop("__pair_item__", None)
            return lines
        # systraj = SystemTrajectory(sys, basis, params=params): a new trajectory object
        if isinstance(t, ast.Name) and isinstance(val, ast.Call) and self.dotted(val.func) == "SystemTrajectory":
            if self.bindings.get("SystemTrajectory") != ("from", "systraj") or "SystemTrajectory" in self.locals:
                raise Unsupported("`SystemTrajectory` is not the class of .systraj")
            kws = {k.arg: k.value for k in val.keywords}
            if len(val.args) != 2 or set(kws) != {"params"} or not isinstance(kws["params"], ast.Name) \
                    or kws["params"].id not in self.job.get("opaque_names", ()):
                raise Unsupported("call %s" % ast.unparse(val)[:80])
            pre = []
            sv = self.expr(val.args[0], env, pre)
            bv = self.expr(val.args[1], env, pre)
            if sv.ty != FLATSYS or bv.ty != BASIS or pre:
                raise Unsupported("SystemTrajectory(%s, %s)" % (sv.ty, bv.ty))
            self.notes.append("`SystemTrajectory(sys, basis, params=params)`: nstates / ninputs of `sys`, the basis, "
                              "`coeffs = []`, `flaglen = []` (what SystemTrajectory.__init__ stores for its defaults)")
            env[t.id] = V(None, TRAJOBJ)
            self.locals.add(t.id)
            lines = []
            lines += self.let(t.id + ".nstates", V("%s_nstates" % sv.code, NAT), env, [])
            lines += self.let(t.id + ".ninputs", V("%s_ninputs" % sv.code, NAT), env, [])
            lines += self.let(t.id + ".basis", bv, env, [])
            lines += self.let(t.id + ".coeffs", V("([] : List (List K))", FLAG), env, [])
            lines += self.let(t.id + ".flaglen", V("([] : List Int)", ILIST), env, [])
            return lines
        # obj.attr = e on a trajectory object created here
        if isinstance(t, ast.Attribute) and isinstance(t.value, ast.Name) and t.value.id in env \
                and env[t.value.id].ty == TRAJOBJ:
            want = dict(TRAJ_FIELDS)
            if t.attr not in want:
                raise Unsupported("assignment to the attribute .%s" % t.attr)
            pre = []
            v = self.expr(val, env, pre)
            if v.ty != want[t.attr]:
                raise Unsupported("assignment of a %s to .%s" % (v.ty, t.attr))
            return self.let(t.value.id + "." + t.attr, v, env, pre)
        # a, b = control.f(...)  ->  a, b = f(...)
        if isinstance(t, ast.Tuple) and isinstance(val, ast.Call) and self.is_control_attr(val.func) \
                and val.func.attr in self.calls:
            s2 = copy.deepcopy(s)
            s2.value.func = ast.copy_location(ast.Name(id=val.func.attr, ctx=ast.Load()), val.func)
            if val.func.attr in env or val.func.attr in self.bindings:
                raise Unsupported("`%s` is re-bound" % val.func.attr)
            return super().assign_stmt(s2, env)
        # x = [np.zeros(n), ...] / x = []  (a list of arrays created here)
        if isinstance(t, ast.Name) and isinstance(val, ast.List):
            if val.elts and all(self.is_alloc1(e) for e in val.elts):
                pre = []
                v = self.expr(val, env, pre)
                lines = self.let(t.id, v, env, pre)
                self.listfresh.add(t.id)
                return lines
            if not val.elts:
                ty = self.empty_list_type(t.id)
                lines = self.let(t.id, V("([] : %s)" % LEAN_TY[ty], ty), env, [])
                if ty == FLAG:
                    self.listfresh.add(t.id)
                return lines
        keep = isinstance(t, ast.Name) and t.id in self.listfresh and isinstance(val, ast.Call) \
            and self.dotted(val.func) == "__append__" and self.is_alloc1(val.args[1])
        lines = super().assign_stmt(s, env)
        if isinstance(t, ast.Name) and not keep:
            self.listfresh.discard(t.id)
        return lines

    def empty_list_type(self, name):
        """the element type of a list that starts empty: read off the first `name.append(e)` of the function"""
        for n in ast.walk(self.job["_fn"]):
            if isinstance(n, ast.Call) and isinstance(n.func, ast.Attribute) and n.func.attr == "append" \
                    and isinstance(n.func.value, ast.Name) and n.func.value.id == name and len(n.args) == 1:
                if self.is_alloc1(n.args[0]):
                    return FLAG
                raise Unsupported("`%s.append(%s)`" % (name, ast.unparse(n.args[0])[:40]))
        raise Unsupported("the list `%s` starts empty and is never appended to" % name)


# -------------------------------------------------------------------------------------------------
# jobs
#   path     : [class, method] or [function]
#   params   : [(python parameter, static type | None = not read)]; `attrs`: attributes of a parameter that
#              become Lean parameters of their own
#   ret      : static types of the returned value(s)
# -------------------------------------------------------------------------------------------------
JOBS = [
    dict(path=["LinearFlatSystem", "__init__"], rel=LINFLAT_PY, lean="linflatInit", ctor=True,
         params=[("self", SELFOBJ), ("linsys", SS)], kwarg="kwargs", defaults={}, ret=[LINFLAT],
         out="FlatInit.lean", imports=["CtrlVerif.Generated.CanonReachable"],
         calls={"reachable_form": ("reachableForm", [], [SS], [SS, MAT])}),
    dict(path=["LinearFlatSystem", "forward"], rel=LINFLAT_PY, lean="linflatForward",
         params=[("self", LINFLAT), ("x", NUMLIST), ("u", NUMLIST), ("params", None)], defaults={}, ret=[FLAG],
         out="FlatForward.lean", imports=[]),
    dict(path=["LinearFlatSystem", "reverse"], rel=LINFLAT_PY, lean="linflatReverse",
         params=[("self", LINFLAT), ("zflag", FLAG), ("params", None)], defaults={}, ret=[NUMLIST, NUMLIST],
         out="FlatReverse.lean", imports=[]),
]
FWD_T = "List K → List K → Except Err (List (List K))"
REV_T = "List (List K) → Except Err (List K × List K)"
BASIS_METHODS = {
    (BASIS, "var_ncoefs"): ("basisVarNcoefs", [INT], NAT, [], True),
    (BASIS, "eval_deriv"): ("basisEvalDeriv", [INT, INT, NUM], NUM, ["var"], True),
}
DISPATCH = '''/-- `basis.eval_deriv(i, k, t, var=...)`: the method of the class of the basis object - `PolyFamily.eval_deriv`
or `BezierFamily.eval_deriv` as generated from control/flatsys/poly.py / bezier.py (both ignore `var`; `self.T`,
`self.N` are the constructor arguments of the object). -/
def basisEvalDeriv (basis : Basis K) (i : Int) (k : Int) (t : K) : Except Err K :=
  match basis with
  | .poly _ T => polyEvalDeriv T i k t
  | .bezier N T => bezierEvalDeriv (N : Int) T i k t
'''
JOBS += [
    dict(path=["BasisFamily", "var_ncoefs"], rel=BASIS_PY, lean="basisVarNcoefs",
         params=[("self", BASIS), ("var", INT)], defaults={}, ret=[NAT], out="FlatBasis.lean", imports=[]),
    dict(path=["_basis_flag_matrix"], rel=FLATSYS_PY, lean="basisFlagMatrix",
         params=[("sys", FLATSYS), ("basis", BASIS), ("flag", FLAG), ("t", NUM)],
         sig=[("sys_ninputs", "Nat"), ("basis", "Basis K"), ("flag", "List (List K)"), ("t", "K")],
         defaults={}, ret=[MAT], out="FlatFlagMatrix.lean", ordered=True, methods=BASIS_METHODS,
         imports=["CtrlVerif.Generated.PolyEvalDeriv", "CtrlVerif.Generated.BezierEvalDeriv"], prelude=DISPATCH),
    # the boundary-condition statements of `point_to_point` for a call without cost and constraints: everything
    # after the `if basis is None:` statement (the defaults of the arguments, `_check_convert_array`, the handling
    # of `timepts` and of the keywords come before and are not translated)
    dict(path=["point_to_point"], rel=FLATSYS_PY, lean="pointToPointBlock", block="after-basis-default",
         params=None, statics={"cost": NONE, "trajectory_constraints": NONE}, opaque_names=("params",),
         envs=[("sys", FLATSYS), ("basis", BASIS), ("x0", NUMLIST), ("u0", NUMLIST), ("xf", NUMLIST), ("uf", NUMLIST),
               ("T0", NUM), ("Tf", NUM), ("lstsq", "FN")],
         sig=[("lstsq", "LstsqFn K"), ("sys_nstates", "Nat"), ("sys_ninputs", "Nat"), ("sys_forward", FWD_T),
              ("basis", "Basis K"), ("x0", "List K"), ("u0", "List K"), ("xf", "List K"), ("uf", "List K"),
              ("T0", "K"), ("Tf", "K")],
         defaults=None, ret=[TRAJ], out="FlatP2P.lean", ordered=True,
         methods={**BASIS_METHODS, (FLATSYS, "forward"): ("sys_forward", [NUMLIST, NUMLIST, None], FLAG, [], False)},
         calls={"_basis_flag_matrix": ("basisFlagMatrix", [], [SYSN, BASIS, FLAG, NUM], [MAT])},
         imports=[]),
    dict(path=["SystemTrajectory", "eval"], rel=SYSTRAJ_PY, lean="systrajEval",
         params=[("self", TRAJ), ("tlist", NUMLIST)],
         sig=[("system_reverse", REV_T), ("self", "PyTraj K"), ("tlist", "List K")],
         defaults={}, ret=[MAT, MAT], out="FlatEval.lean", ordered=True,
         methods={**BASIS_METHODS, ("TRAJSYS", "reverse"): ("system_reverse", [FLAG, None], [NUMLIST, NUMLIST], [], False)},
         imports=[]),
]
FILES = [("FlatInit.lean", []), ("FlatForward.lean", []), ("FlatReverse.lean", []), ("FlatBasis.lean", []),
         ("FlatFlagMatrix.lean", ["FlatBasis"]), ("FlatP2P.lean", ["FlatFlagMatrix"]),
         ("FlatEval.lean", ["FlatFlagMatrix"])]


def find_def(module, path):
    body = module.body
    node = None
    for name in path:
        found = [n for n in body if isinstance(n, (ast.FunctionDef, ast.ClassDef)) and n.name == name]
        if len(found) != 1:
            raise Unsupported("%s %s" % (".".join(path), "not found" if not found else "defined twice"))
        node = found[0]
        body = node.body
    if not isinstance(node, ast.FunctionDef):
        raise Unsupported("%s is not a function" % ".".join(path))
    return node


def signature(job, prefix=""):
    if job.get("sig"):
        return " ".join("(%s%s : %s)" % (prefix, n, t) for n, t in job["sig"])
    parts = []
    for n, t in job.get("opaque", []):
        parts.append("(%s%s : %s)" % (prefix, n, t))
    for n, t in job["params"]:
        if t is not None and t != SELFOBJ:
            parts.append("(%s%s : %s)" % (prefix, n, LEAN_TY[t]))
        for a, at in job.get("attrs", {}).get(n, []):
            parts.append("(%s%s_%s : %s)" % (prefix, n, a, LEAN_TY[at]))
    return " ".join(parts)


def ret_lean(job):
    tys = [LEAN_TY[t] for t in job["ret"]]
    return tys[0] if len(tys) == 1 else " × ".join(tys)


def block_after_basis_default(fn):
    """the statements of `point_to_point` after the (unique, top-level) `if basis is None:` statement"""
    hits = [k for k, s in enumerate(fn.body) if isinstance(s, ast.If) and ast.unparse(s.test) == "basis is None"
            and not s.orelse]
    if len(hits) != 1:
        raise Unsupported("the landmark `if basis is None:` occurs %d times at the top level" % len(hits))
    body = fn.body[hits[0] + 1:]
    if not body or not isinstance(body[-1], ast.Return):
        raise Unsupported("the function does not end in a return statement")
    return body


def translate(src, module, bindings, job, available):
    fn = find_def(module, job["path"])
    a = fn.args
    job = dict(job)
    job["_fn"] = fn
    tr = Translator(job, bindings, available)
    env = {}
    if job.get("block"):
        if fn.decorator_list:
            raise Unsupported("signature")
        body = block_after_basis_default(fn)
        text = "\n".join(ast.get_source_segment(src, s) for s in body)
        defaults = {}
        for n, t in job["statics"].items():
            env[n] = V("PyVal.none", t)
        for n, t in job["envs"]:
            env[n] = V(n, t)
        tr.notes.append("the statements after `if basis is None: ...`, for a call with %s" % ", ".join(
            "%s=None" % n for n in sorted(job["statics"])))
    else:
        if a.vararg or a.kwonlyargs or a.posonlyargs or fn.decorator_list:
            raise Unsupported("signature")
        if (a.kwarg.arg if a.kwarg else None) != job.get("kwarg"):
            raise Unsupported("signature (**%s)" % (a.kwarg.arg if a.kwarg else None))
        got = [x.arg for x in a.args]
        want = [n for n, _ in job["params"]]
        if got != want:
            raise Unsupported("parameters %s, expected %s" % (got, want))
        defaults = dict(zip(got[len(got) - len(a.defaults):], [ast.unparse(d) for d in a.defaults]))
        if defaults != job["defaults"]:
            raise Unsupported("default values %s, expected %s" % (defaults, job["defaults"]))
        text = ast.get_source_segment(src, fn)
        for n, t in job["params"]:
            if t == SELFOBJ:
                env[n] = V(None, SELFOBJ)
            elif t is not None:
                env[n] = V(n, t)
        body = list(fn.body)
        if job.get("ctor"):
            body = prepare_ctor(tr, body, job, env)
    sha = hashlib.sha256(text.encode()).hexdigest()
    lines, _ = tr.seq(body, env, None)
    where = job["rel"] + ":" + ".".join(job["path"])
    notes = []
    for n in tr.notes:
        if n not in notes:
            notes.append(n)
    doc = ("/-- `%s` as the source text says it (sha256 of the %s text\n%s).\nDefaults: %s.%s -/\n" % (
        where, "translated statements'" if job.get("block") else "function", sha, ", ".join("%s=%s" % kv for kv in sorted(defaults.items())) or "none",
        "".join("\n  note: " + n.replace("-/", "- /") for n in notes)))
    lean = doc + "def %s %s : Except Err (%s) :=\n" % (job["lean"], signature(job), ret_lean(job)) \
        + "\n".join(_ind(["do"] + _ind(lines))) + "\n"
    return lean, {"sha": sha, "lines": fn.end_lineno - fn.lineno + 1, "temporaries": tr.ntmp, "notes": notes}


def prepare_ctor(tr, body, job, env):
    """`__init__`: the statement `StateSpace.__init__(self, <sys>, **kwargs)` defines the StateSpace part of the
    object (names / labels passed through `kwargs` are not modelled); the object is returned at the end"""
    out = []
    selfname = job["params"][0][0]
    seen = False
    for s in body:
        if isinstance(s, ast.Expr) and isinstance(s.value, ast.Call) and ast.unparse(s.value.func) == "StateSpace.__init__":
            c = s.value
            kw_ok = len(c.keywords) == 1 and c.keywords[0].arg is None and isinstance(c.keywords[0].value, ast.Name) \
                and c.keywords[0].value.id == job.get("kwarg")
            if seen or len(c.args) != 2 or not kw_ok or not (isinstance(c.args[0], ast.Name) and c.args[0].id == selfname):
                raise Unsupported("call %s" % ast.unparse(c)[:80])
            tr.need("StateSpace", IMPORTS["StateSpace"])
            seen = True
            # self.__ss__ = <sys>: handled below as a marker assignment
            marker = ast.Assign(targets=[ast.Name(id="__ss_part__", ctx=ast.Store())], value=c.args[1])
            out.append(ast.copy_location(ast.fix_missing_locations(marker), s))
            continue
        out.append(s)
    if not seen:
        raise Unsupported("the constructor does not call StateSpace.__init__(self, linsys, **kwargs)")
    ret = ast.Return(value=ast.Name(id=selfname, ctx=ast.Load()))
    out.append(ast.copy_location(ast.fix_missing_locations(ret), body[-1]))
    return out


HEADER = ("-- GENERATED on every run by harness/core/py2lean_flat.py from %s (%s).  Do not edit.\n"
          "import CtrlVerif.Model.PyFlat\n%s"
          "\nnamespace CtrlVerif.Generated\n\nopen CtrlVerif\n\nnoncomputable section\n\n"
          "variable {K : Type} [Field K] [DecidableEq K]\n\n")


def regenerate(repo, lean_dir, only=None):
    """Rewrite Generated/Flat*.lean; returns (list of problems, info dict)."""
    problems, info = [], {}
    gen_dir = os.path.join(lean_dir, "CtrlVerif", "Generated")
    os.makedirs(gen_dir, exist_ok=True)
    # `LinearFlatSystem.__init__` calls `control.reachable_form`: the generated counterpart must be the one
    # of the SAME tree (it is rewritten only when its text changes)
    probs_c, _ = py2lean_canon.regenerate(repo, lean_dir, only=["CanonReachable.lean"])
    problems.extend(p for p in probs_c if "reachable_form" in p)
    loaded = {}
    for rel in sorted({j["rel"] for j in JOBS}):
        try:
            src = open(os.path.join(repo, rel)).read()
            module = ast.parse(src)
            loaded[rel] = (src, module, module_bindings(module), None)
        except (OSError, SyntaxError) as e:
            loaded[rel] = (None, None, None, str(e))
    available = {}
    texts = {out: [] for out, _ in FILES}
    for job in JOBS:
        where = job["rel"] + ":" + ".".join(job["path"])
        key = ".".join(job["path"])
        src, module, bindings, load_error = loaded[job["rel"]]
        try:
            if load_error:
                raise Unsupported(load_error)
            lean, inf = translate(src, module, bindings, job, available)
            info[key] = inf
        except Unsupported as e:
            msg = str(e).replace("\n", " ").replace("-/", "- /")[:300]
            problems.append("py2lean_flat: %s cannot be translated: %s" % (where, msg))
            # a definition that cannot be equal to the model, so the obligation visibly fails
            lean = "/-- translation of `%s` FAILED: %s -/\ndef %s %s : Except Err (%s) :=\n  .error Err.notImplemented\n" % (
                where, msg, job["lean"], signature(job, "_"), ret_lean(job))
        available[key] = job["lean"]
        texts[job["out"]].append(lean)
    for out, deps in FILES:
        if only and out not in only:
            continue
        jobs = [j for j in JOBS if j["out"] == out]
        shas = ", ".join("%s %s" % (".".join(j["path"]), info[".".join(j["path"])]["sha"][:16]
                                    if ".".join(j["path"]) in info else "FAILED") for j in jobs)
        rels = ", ".join(sorted({j["rel"] for j in jobs}))
        imports = []
        for j in jobs:
            for i in j.get("imports", []):
                if i not in imports:
                    imports.append(i)
        imports += ["CtrlVerif.Generated.%s" % d for d in deps]
        extra = ""
        if any(j.get("ordered") for j in jobs):
            extra += "variable [LinearOrder K]\n\n"
        for j in jobs:
            if j.get("prelude"):
                extra += j["prelude"] + "\n"
        text = (HEADER % (rels, shas, "".join("import %s\n" % i for i in imports)) + extra
                + "\n".join(texts[out]) + "\nend\n\nend CtrlVerif.Generated\n")
        p = os.path.join(gen_dir, out)
        old = open(p).read() if os.path.exists(p) else None
        if old != text:
            with open(p, "w") as f:
                f.write(text)
    return problems, info


if __name__ == "__main__":
    import sys
    probs, inf = regenerate(sys.argv[1], sys.argv[2])
    for p in probs:
        print("PROBLEM", p)
    for k, v in inf.items():
        print(k, v["sha"][:16], v["lines"], "lines,", v["temporaries"], "temporaries", v["notes"])
